"""Reference state machines for the sequential library blocks (C09, reused by C10).

Written from the docstrings / the property text, with plain Python ints, lists
and tuples; no py4hw helper is used.  Each model has
    init            hashable initial state
    out(s, x)       tuple of expected outputs given state s and the input dict x
                    (None in a position = not defined by the documentation, not compared)
    nxt(s, x)       next state
    enabled(s, x)   False = input outside the documented domain in this state (pruned)
"""


def M(w):
    return (1 << w) - 1


class RegModel:
    """Reset 1 -> reset_value; else enable!=0 -> d; else hold."""
    def __init__(self, w, has_e, has_r, rv):
        self.w, self.has_e, self.has_r, self.rv = w, has_e, has_r, rv & M(w)
        self.init = self.rv

    def enabled(self, s, x):
        return True

    def out(self, s, x):
        return (s,)

    def nxt(self, s, x):
        if self.has_r and x['r'] == 1:
            return self.rv
        if (not self.has_e) or x['e'] != 0:
            return x['d'] & M(self.w)
        return s


class TRegModel:
    def __init__(self, has_e, has_r):
        self.has_e, self.has_r = has_e, has_r
        self.init = 0

    def enabled(self, s, x):
        return True

    def out(self, s, x):
        return (s,)

    def nxt(self, s, x):
        if self.has_r and x['r'] == 1:
            return 0
        if (not self.has_e) or x['e'] != 0:
            return s ^ x['t']
        return s


class CounterModel:
    """reset -> 0; else inc -> q+step (mod 2^w or mod m); carry = (q == m-1)."""
    def __init__(self, w, has_reset=True, has_inc=True, mod=None, has_step=False, carry=False):
        self.w, self.has_reset, self.has_inc, self.mod, self.has_step, self.carry = w, has_reset, has_inc, mod, has_step, carry
        self.init = 0

    def enabled(self, s, x):
        return True

    def out(self, s, x):
        if self.carry:
            return (s, 1 if s == self.mod - 1 else 0)
        return (s,)

    def nxt(self, s, x):
        if self.has_reset and x['reset']:
            return 0
        if (not self.has_inc) or x['inc']:
            step = x['step'] if self.has_step else 1
            if self.mod is not None:
                return 0 if s == self.mod - 1 else (s + 1) & M(self.w)
            return (s + step) & M(self.w)
        return s


class DelayLineModel:
    def __init__(self, w, delay, has_en, has_reset):
        self.w, self.delay, self.has_en, self.has_reset = w, delay, has_en, has_reset
        self.init = (0,) * delay

    def enabled(self, s, x):
        return True

    def out(self, s, x):
        return (s[-1],) if self.delay else (x['a'],)

    def nxt(self, s, x):
        if self.has_reset and x['reset'] == 1:
            return (0,) * self.delay
        if self.has_en and x['en'] == 0:
            return s
        return ((x['a'],) + s[:-1]) if self.delay else s


class PipelineModel:
    def __init__(self, n):
        self.n = n
        self.init = (0,) * n

    def enabled(self, s, x):
        return True

    def out(self, s, x):
        return tuple(s)

    def nxt(self, s, x):
        if x['reset'] == 1:
            return (0,) * self.n
        return tuple(x['in%d' % i] for i in range(self.n))


class ShiftBidirModel:
    """dir_r: left_in -> [0] -> [1] -> ... -> right_out   (shift_right)
       dir_l: left_out <- [0] <- [1] <- ... <- right_in   (shift_left)
       Both asserted at once is not documented -> pruned."""
    def __init__(self, depth):
        self.depth = depth
        self.init = (0,) * depth

    def enabled(self, s, x):
        return not (x['shift_left'] and x['shift_right'])

    def out(self, s, x):
        return (s[0], s[-1])          # left_out, right_out

    def nxt(self, s, x):
        if x['shift_right']:
            return (x['left_in'],) + s[:-1]
        if x['shift_left']:
            return s[1:] + (x['right_in'],)
        return s


class StackModel:
    """Bounded LIFO. Explored only within its depth: push when full, pop when
    empty and push+pop together are outside 'last-in first-out within its depth'.
    dout is defined after a pop (the popped value) and then holds."""
    def __init__(self, depth):
        self.depth = depth
        self.init = ((), None)       # (stack tuple top-first, last popped)

    def enabled(self, s, x):
        st, _ = s
        if x['push'] and x['pop']:
            return False
        if x['push'] and len(st) >= self.depth:
            return False
        if x['pop'] and not st:
            return False
        return True

    def out(self, s, x):
        return (s[1],)

    def nxt(self, s, x):
        st, last = s
        if x['push']:
            return ((x['din'],) + st, last)
        if x['pop']:
            return (st[1:], st[0])
        return s


class EdgeModel:
    def __init__(self, direction):
        self.direction = direction
        self.init = 0                 # previous sample

    def enabled(self, s, x):
        return True

    def out(self, s, x):
        a = x['a']
        if self.direction == 'pos':
            return (1 if (a == 1 and s == 0) else 0,)
        if self.direction == 'neg':
            return (1 if (a == 0 and s == 1) else 0,)
        return (1 if a != s else 0,)

    def nxt(self, s, x):
        return x['a']


class ClockDividerModel:
    """Output toggles once every n input clocks (period 2n)."""
    def __init__(self, n, has_reset):
        self.n, self.has_reset = n, has_reset
        self.init = (0, 0)            # (count, clkout)

    def enabled(self, s, x):
        return True

    def out(self, s, x):
        return (s[1],)

    def nxt(self, s, x):
        cnt, clk = s
        if self.has_reset and x['reset'] == 1:
            return (0, 0)
        if cnt == self.n - 1:
            return (0, clk ^ 1)
        return (cnt + 1, clk)


class SyncMemModel:
    """Read returns the content before a same-cycle write; read is registered."""
    def __init__(self, aw, dw, rw=None):
        self.aw, self.dw = aw, dw
        self.rmask = (1 << (dw if rw is None else rw)) - 1      # a read port narrower than the cells shows the low bits
        self.init = ((0,) * (1 << aw), 0)

    def enabled(self, s, x):
        return True

    def out(self, s, x):
        return (s[1] & self.rmask,)

    def nxt(self, s, x):
        mem, rd = s
        rd2 = mem[x['read_address']]
        if x['write']:
            m = list(mem)
            m[x['write_address']] = x['writedata']
            mem = tuple(m)
        return (mem, rd2)


class DualPortMemModel:
    """Two ports on one array; each read returns the content before any same-cycle write."""
    def __init__(self, aw, dw):
        self.aw, self.dw = aw, dw
        self.init = ((0,) * (1 << aw), 0, 0)

    def enabled(self, s, x):
        # simultaneous writes of different data to the same address: undefined
        return not (x['write_a'] and x['write_b'] and x['write_address_a'] == x['write_address_b']
                    and x['writedata_a'] != x['writedata_b'])

    def out(self, s, x):
        return (s[1], s[2])

    def nxt(self, s, x):
        mem, ra, rb = s
        ra2 = mem[x['read_address_a']]
        rb2 = mem[x['read_address_b']]
        m = list(mem)
        if x['write_a']:
            m[x['write_address_a']] = x['writedata_a']
        if x['write_b']:
            m[x['write_address_b']] = x['writedata_b']
        return (tuple(m), ra2, rb2)
