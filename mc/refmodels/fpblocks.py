"""Reference arithmetic for the single-precision blocks (C13).

Plain Python: ``struct`` to decode IEEE-754 binary32 encodings, ``fractions.Fraction`` for exact
real arithmetic.  Nothing here imports py4hw.  Each ``*_check`` function returns the list of
clauses of the C13 statement that the observed outputs contradict ([] = holds), or None when the
operands / the exact result are outside the domain the statement speaks about.
"""
import struct
from fractions import Fraction
from functools import lru_cache

MIN_NORMAL = Fraction(1, 2 ** 126)
LIMIT = Fraction(2 ** 128)          # first magnitude that is no longer a finite binary32 binade
TWO31 = Fraction(2 ** 31)


@lru_cache(maxsize=None)
def pow2(e):
    """2**e as a Fraction, e any integer"""
    return Fraction(2) ** e


def encode(sign, expfield, mant):
    return (sign << 31) | (expfield << 23) | mant


def fields(bits):
    return bits >> 31, (bits >> 23) & 0xFF, bits & 0x7FFFFF


def is_normal(bits):
    """finite, normal encoding: exponent field 1..254"""
    return 1 <= ((bits >> 23) & 0xFF) <= 254


@lru_cache(maxsize=1 << 16)
def sp_value(bits):
    """Exact real value of a binary32 encoding as a Fraction; None for infinities and NaNs."""
    if ((bits >> 23) & 0xFF) == 0xFF:
        return None
    return Fraction(struct.unpack('<f', struct.pack('<I', bits & 0xFFFFFFFF))[0])


def exact_is_normal(x):
    return MIN_NORMAL <= abs(x) < LIMIT


def floor_log2(x):
    """floor(log2 |x|) of a non-zero Fraction."""
    x = abs(x)
    e = x.numerator.bit_length() - x.denominator.bit_length()
    if pow2(e) > x:
        e -= 1
    assert pow2(e) <= x < pow2(e + 1)
    return e


def ulp_of_binade(x):
    """unit in the last place (24-bit significand) of the binade that contains the real x != 0"""
    return pow2(floor_log2(x) - 23)


def ulp_of_operand(bits):
    """unit in the last place of a normal binary32 operand"""
    return pow2(((bits >> 23) & 0xFF) - 127 - 23)


def sign_of(x):
    return (x > 0) - (x < 0)


def trunc_toward_zero(x):
    """integer part of a Fraction, rounding toward zero"""
    n = abs(x).numerator // abs(x).denominator
    return -n if x < 0 else n


# ------------------------------------------------------------------ comparator
def cmp_expected(a, b, absolute):
    """(gt, eq, lt) for two normal operands; None if an operand is outside the domain."""
    if not (is_normal(a) and is_normal(b)):
        return None
    va, vb = sp_value(a), sp_value(b)
    if absolute:
        va, vb = abs(va), abs(vb)
    return (int(va > vb), int(va == vb), int(va < vb))


# ------------------------------------------------------------------ adder
def add_exact(a, b):
    """exact sum if operands are normal and the sum is a normal-range non-zero real, else None"""
    if not (is_normal(a) and is_normal(b)):
        return None
    s = sp_value(a) + sp_value(b)
    if s == 0 or not exact_is_normal(s):
        return None
    return s


def add_check(a, b, r, s=None):
    """s: the value of add_exact(a, b) if the caller already has it"""
    if s is None:
        s = add_exact(a, b)
    if s is None:
        return None
    bad = []
    if (r >> 31) != (1 if s < 0 else 0):
        bad.append('sign')
    big = a if abs(sp_value(a)) >= abs(sp_value(b)) else b
    vr = sp_value(r)
    if vr is None or not (abs(vr - s) < 2 * ulp_of_operand(big)):
        bad.append('abs_error')
    return bad


# ------------------------------------------------------------------ multiplier
def mul_exact(a, b):
    if not (is_normal(a) and is_normal(b)):
        return None
    p = sp_value(a) * sp_value(b)
    if not exact_is_normal(p):
        return None
    return p


def mul_check(a, b, r, p=None):
    """p: the value of mul_exact(a, b) if the caller already has it"""
    if p is None:
        p = mul_exact(a, b)
    if p is None:
        return None
    vr = sp_value(r)
    if vr is None or not (abs(vr - p) < ulp_of_binade(p)):
        return ['ulp']
    return []


# ------------------------------------------------------------------ conversions
def int_to_fp_expected(a):
    """a: 32-bit two's complement pattern.  Returns (value truncated toward zero to 24 significant
    bits as a Fraction, p_lost)."""
    v = a - (1 << 32) if a & 0x80000000 else a
    m = abs(v)
    drop = max(0, m.bit_length() - 24)
    t = (m >> drop) << drop
    return Fraction(-t if v < 0 else t), int(t != m)


def int_to_fp_check(a, r, p_lost):
    ev, ep = int_to_fp_expected(a)
    bad = []
    if sp_value(r) != ev:
        bad.append('value')
    if p_lost != ep:
        bad.append('p_lost')
    return bad


def fp_to_int_check(a, r, p_lost, invalid):
    """None if a is not a finite normal operand."""
    if not is_normal(a):
        return None
    x = sp_value(a)
    bad = []
    if abs(x) >= TWO31:
        if invalid != 1:
            bad.append('invalid_flag')
        return bad
    t = trunc_toward_zero(x)
    if r != (t & 0xFFFFFFFF):
        bad.append('value')
    if p_lost != int(Fraction(t) != x):
        bad.append('p_lost')
    if invalid != 0:
        bad.append('invalid_flag_on_a_convertible_value')       # "flags magnitudes of 2**31 or more as invalid": those, not others
    return bad
