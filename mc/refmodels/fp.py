"""Reference arithmetic for C12 (number-format helpers).

Written from the IEEE-754 binary interchange format definition and the C12
statement only.  Uses ints, fractions.Fraction and struct; nothing from py4hw.

Formats: name -> (exponent bits, mantissa bits, struct code).
"""
import struct
from fractions import Fraction

FORMATS = {'hp': (5, 10, 'e', 'H'), 'sp': (8, 23, 'f', 'I'), 'dp': (11, 52, 'd', 'Q')}


def geometry(fmt):
    eb, mb, _, _ = FORMATS[fmt]
    return eb, mb, (1 << (eb - 1)) - 1, (1 << eb) - 1      # ebits, mbits, bias, emax field


def fields(bits, fmt):
    eb, mb, _, emax = geometry(fmt)
    return (bits >> (eb + mb)) & 1, (bits >> mb) & emax, bits & ((1 << mb) - 1)


def join(s, e, m, fmt):
    eb, mb, _, _ = geometry(fmt)
    return (s << (eb + mb)) | (e << mb) | m


def classify(bits, fmt):
    """('nan',) | ('inf', sign) | ('fin', sign, Fraction)   -- sign is 0/1, Fraction carries the sign too."""
    eb, mb, bias, emax = geometry(fmt)
    s, e, m = fields(bits, fmt)
    if e == emax:
        return ('nan',) if m else ('inf', s)
    if e == 0:
        mag = Fraction(m, 1 << mb) * Fraction(2) ** (1 - bias)
    else:
        mag = Fraction((1 << mb) | m, 1 << mb) * Fraction(2) ** (e - bias)
    return ('fin', s, -mag if s else mag)


def is_nan_bits(bits, fmt):
    return classify(bits, fmt) == ('nan',)


def bits_to_float(bits, fmt):
    """The platform's decoding of a bit pattern (struct)."""
    _, _, fc, ic = FORMATS[fmt]
    return struct.unpack('<' + fc, struct.pack('<' + ic, bits))[0]


def float_to_bits(x, fmt):
    """The platform's encoding of a Python float (struct); None when struct refuses (overflow of a narrower format)."""
    _, _, fc, ic = FORMATS[fmt]
    try:
        return struct.unpack('<' + ic, struct.pack('<' + fc, x))[0]
    except (OverflowError, struct.error):
        return None


def dbits(x):
    """Bit pattern of a Python float as a double (distinguishes -0.0 from 0.0)."""
    return struct.unpack('<Q', struct.pack('<d', x))[0]


def same_float(a, b):
    """Bit-identical doubles, any NaN == any NaN."""
    if not isinstance(a, float) or not isinstance(b, float):
        return False
    if a != a or b != b:
        return a != a and b != b
    return dbits(a) == dbits(b)


def exact_bits(q, sign, fmt):
    """Bit pattern of the rational q (sign used only when q == 0) in fmt if q is exactly representable, else None."""
    eb, mb, bias, emax = geometry(fmt)
    if q == 0:
        return join(sign, 0, 0, fmt)
    s = 1 if q < 0 else 0
    a = -q if s else q
    # a = n / 2^k exactly?
    d = a.denominator
    if d & (d - 1):
        return None
    # floor(log2(a))
    e = a.numerator.bit_length() - d.bit_length()
    if Fraction(2) ** e > a:
        e -= 1
    if e < 1 - bias:
        e = 1 - bias
        field = 0
        mant = a / Fraction(2) ** e * (1 << mb)
    else:
        field = e + bias
        mant = (a / Fraction(2) ** e - 1) * (1 << mb)
    if mant.denominator != 1 or field >= emax:
        return None
    mant = mant.numerator
    assert 0 <= mant < (1 << mb)
    return join(s, field, mant, fmt)


def nearest_double(q):
    """Correctly rounded (ties-to-even) double of a rational: CPython int/int true division is correctly rounded."""
    return q.numerator / q.denominator


def mantissa_patterns(mbits, k):
    """All mbits-bit values whose set bits lie in the top k or the bottom k positions (4^k patterns), plus the
    2^k values just below 2^mbits, two runs of ones with a hole and the alternating patterns."""
    out = set()
    for hi in range(1 << k):
        for lo in range(1 << k):
            out.add((hi << (mbits - k)) | lo)
    # values just below the next power of two (all ones and the 2^k - 1 patterns below it), a long run of ones with a
    # low / high hole, and the two alternating patterns
    M = 1 << mbits
    for d in range(1, (1 << k) + 1):
        out.add(M - d)
    out.add(M - 1 - (1 << (mbits // 2)))
    out.add((M - 1) >> 1)
    out.add(M // 3)
    out.add(2 * (M // 3))
    return sorted(v for v in out if 0 <= v < M)


def c2_encode(v, w):
    """Two's complement encoding of v at width w (v in [-2^(w-1), 2^(w-1)))."""
    return v % (1 << w)


def c2_decode(u, w):
    u %= (1 << w)
    return u - (1 << w) if u >= (1 << (w - 1)) else u
