"""Netlist enumerator and connectivity oracle for C18 (schematic placement).

Three independent parts:

* the *enumerator* of small netlists (pure Python; no py4hw): a wrapper block with i in-ports, o out-ports and a
  sequence of child instances taken from TYPES; a wiring assigns every sink pin (instance input pins in instance
  order, then the wrapper's out-ports) one source (wrapper in-ports, then instance output pins in instance order).
  Every wire therefore has exactly one driver ("all internal wires driven" by construction).

* `truth(block)`: who really drives / reads every wire used directly inside a py4hw block, read from the netlist
  itself (child.inPorts / child.outPorts / block.inPorts / block.outPorts and their `.wire`), never from the
  Schematic's own `sources` / `sinks` tables.

* `judge(block, sch)`: the oracle of the statement, applied to the data model a finished `Schematic` exposes
  (`objs`, `nets`, `symbol_matrix`).  It only reads attributes of the symbols (obj, x, y, getWidth(), getHeight(),
  NetSymbol.wire/source/sink/sourcePort/sinkPort, FeedbackStopSymbol.fb_start).
"""
import itertools

# name -> (number of input pins, number of output pins)
TYPES = {'Not': (1, 1), 'And2': (2, 1), 'Reg': (1, 1), 'Mux2': (3, 1), 'Two': (1, 2)}
LETTER = {'N': 'Not', 'A': 'And2', 'R': 'Reg', 'M': 'Mux2', 'T': 'Two'}
CLAUSES = ('timeout', 'missing_symbol', 'duplicate_symbol', 'overlap', 'net_disconnected',
           'driver_pin_missing', 'reader_pin_missing', 'foreign_pin')


# ------------------------------------------------------------------ enumerator (pure)

def sources(types, i):
    """ordered list of sources: ('in', k) | ('inst', j, p)"""
    out = [('in', k) for k in range(i)]
    for j, t in enumerate(types):
        for p in range(TYPES[t][1]):
            out.append(('inst', j, p))
    return out


def sinks(types, o):
    """ordered list of sink pins: ('inst', j, p) | ('out', k)"""
    out = []
    for j, t in enumerate(types):
        for p in range(TYPES[t][0]):
            out.append(('inst', j, p))
    out.extend(('out', k) for k in range(o))
    return out


def space(types, i, o):
    """number of wirings of this shape (0 if there is a sink pin but no source at all)"""
    s, k = len(sources(types, i)), len(sinks(types, o))
    if s == 0:
        return 1 if k == 0 else 0
    return s ** k


def assignment(types, i, o, idx):
    """idx-th wiring in mixed-radix order (first sink pin = most significant digit)"""
    s, k = len(sources(types, i)), len(sinks(types, o))
    digs = []
    for _ in range(k):
        digs.append(idx % s)
        idx //= s
    return digs[::-1]


def model(nl):
    """pure model of a netlist descriptor {'types','i','o','assign'[,'alias']} ->
    {wire(source index): {'drivers': [source, ...], 'readers': [sink, ...]}}
    alias (only with i == 2): both in-ports are bound to ONE wire (what a block sees when its parent connects one
    wire to two of its pins); source 1 then denotes the same wire as source 0."""
    src = sources(nl['types'], nl['i'])
    snk = sinks(nl['types'], nl['o'])
    assert len(nl['assign']) == len(snk)
    alias = bool(nl.get('alias'))
    assert not alias or nl['i'] == 2
    wires = {n: {'drivers': [s], 'readers': []} for n, s in enumerate(src) if not (alias and n == 1)}
    if alias:
        wires[0]['drivers'].append(src[1])
    for pin, a in zip(snk, nl['assign']):
        wires[0 if (alias and a == 1) else a]['readers'].append(pin)
    return wires


# ------------------------------------------------------------------ truth from the py4hw netlist

def truth(block):
    """-> (wires, problems).  wires: {id(wire): {'wire': w, 'drivers': [(owner, port)], 'readers': [(owner, port)]}}
    owner is the child instance, or the port object itself for a port of the block.
    problems: list of strings naming why the block is outside the statement's domain (undriven / multiply driven
    wire, port without wire, in-out ports)."""
    wires = {}
    problems = []

    def ent(w):
        return wires.setdefault(id(w), {'wire': w, 'drivers': [], 'readers': []})

    if block.inOutPorts:
        problems.append('block has in-out ports')
    for p in block.inPorts:
        if p.wire is None:
            problems.append('block in-port %s without wire' % p.name)
        else:
            ent(p.wire)['drivers'].append((p, p))
    for ch in block.children.values():
        if ch.inOutPorts:
            problems.append('child %s has in-out ports' % ch.name)
        for p in ch.outPorts:
            if p.wire is None:
                problems.append('child %s out-port %s without wire' % (ch.name, p.name))
            else:
                ent(p.wire)['drivers'].append((ch, p))
        for p in ch.inPorts:
            if p.wire is None:
                problems.append('child %s in-port %s without wire' % (ch.name, p.name))
            else:
                ent(p.wire)['readers'].append((ch, p))
    for p in block.outPorts:
        if p.wire is None:
            problems.append('block out-port %s without wire' % p.name)
        else:
            ent(p.wire)['readers'].append((p, p))
    for e in wires.values():
        if e['readers'] and not e['drivers']:
            problems.append('undriven wire %s' % e['wire'].name)
        # several in-ports of the block bound to one wire (e.g. Add(a, a, r) seen from inside) are all pins of
        # that wire; an instance output among several drivers is a real conflict and outside the statement
        if len(e['drivers']) > 1 and not all(o is p for o, p in e['drivers']):
            problems.append('wire %s has %d drivers' % (e['wire'].name, len(e['drivers'])))
    return wires, problems


def wire_family(block, wires, e):
    """coarse class of one wire of a netlist (for stable violation signatures); netlist information only"""
    children = list(block.children.values())
    idx = {id(c): n for n, c in enumerate(children)}
    drv = e['drivers'][0][0] if e['drivers'] else None
    rd_inst = [o for o, _ in e['readers'] if id(o) in idx]
    if drv is not None and any(o is drv for o in rd_inst):
        return 'self_loop'              # an instance reads its own output (Reg holding its value, or a combinational loop)
    if len(rd_inst) != len({id(o) for o in rd_inst}):
        return 'same_wire_two_pins'
    # instance graph
    succ = {n: set() for n in range(len(children))}
    for w in wires.values():
        for d, _ in w['drivers']:
            if id(d) in idx:
                for r, _ in w['readers']:
                    if id(r) in idx:
                        succ[idx[id(d)]].add(idx[id(r)])

    def reach(a):
        seen, todo = set(), [a]
        while todo:
            x = todo.pop()
            for y in succ[x]:
                if y not in seen:
                    seen.add(y)
                    todo.append(y)
        return seen
    if drv is not None and id(drv) in idx:
        d = idx[id(drv)]
        back = [idx[id(r)] for r in rd_inst if d in reach(idx[id(r)]) or idx[id(r)] == d]
        if back:
            scc = {d} | {x for x in reach(d) if d in reach(x)}
            if any(type(children[x]).__name__ == 'Reg' for x in scc):
                return 'feedback'
            return 'comb_cycle'
    # levels on the condensation (longest path, cycles collapsed)
    n = len(children)
    rs = [reach(a) for a in range(n)]
    comp = list(range(n))
    for a in range(n):
        for b in range(a):
            if a in rs[b] and b in rs[a]:
                comp[a] = comp[b]
                break
    cpred = {}
    for a in range(n):
        cpred.setdefault(comp[a], set())
        for b in succ[a]:
            if comp[b] != comp[a]:
                cpred.setdefault(comp[b], set()).add(comp[a])
    lvl = {}

    def level(c):                       # the condensation is acyclic
        if c not in lvl:
            lvl[c] = 1 + max([level(p) for p in cpred[c]] or [0])
        return lvl[c]
    for a in range(n):
        level(comp[a])
    top = max(lvl.values()) if lvl else 0
    dl = lvl[comp[idx[id(drv)]]] if (drv is not None and id(drv) in idx) else 0
    for r, _ in e['readers']:
        rl = lvl[comp[idx[id(r)]]] if id(r) in idx else top + 1
        if rl - dl > 1:
            return 'long_edge'
    if len(e['readers']) > 1:
        return 'fanout'
    if drv is not None and id(drv) not in idx and any(id(r) not in idx for r, _ in e['readers']):
        return 'port_to_port'
    return 'other'


# ------------------------------------------------------------------ oracle

class _UF:
    def __init__(self):
        self.p = {}

    def find(self, x):
        self.p.setdefault(x, x)
        while self.p[x] != x:
            self.p[x] = self.p[self.p[x]]
            x = self.p[x]
        return x

    def union(self, a, b):
        self.p[self.find(a)] = self.find(b)


def judge(block, sch, wires):
    """-> list of findings {'clause', 'wire' (name or None), 'wire_id', 'what'}; empty = the drawing satisfies the
    statement.  `wires` is truth(block)[0]."""
    out = []

    def bad(clause, what, w=None):
        out.append({'clause': clause, 'wire': (w.name if w is not None else None),
                    'wire_id': (id(w) if w is not None else None), 'what': what})

    # the real things that need a symbol
    things = [('instance ' + c.name, c) for c in block.children.values()]
    things += [('in-port ' + p.name, p) for p in block.inPorts]
    things += [('out-port ' + p.name, p) for p in block.outPorts]
    real_ids = {id(t) for _, t in things}

    m = sch.symbol_matrix
    nr, nc = m.shape
    cells = [(r, c, m[r, c]) for r in range(nr) for c in range(nc) if m[r, c] is not None]
    in_matrix = {}
    for r, c, s in cells:
        in_matrix.setdefault(id(s), []).append((r, c))

    def is_real(sym):
        return getattr(sym, 'obj', None) is not None and id(sym.obj) in real_ids

    # (2) exactly one symbol per child / port
    drawn = {}          # id(thing) -> the symbol drawn for it
    for label, t in things:
        n_objs = sum(1 for s in sch.objs if getattr(s, 'obj', None) is t)
        cell_hits = [(r, c, s) for r, c, s in cells if getattr(s, 'obj', None) is t]
        if n_objs == 0 or not cell_hits:
            bad('missing_symbol', '%s: %d symbol(s) in objs, %d cell(s) in symbol_matrix' % (label, n_objs, len(cell_hits)))
        if n_objs > 1 or len(cell_hits) > 1:
            bad('duplicate_symbol', '%s: %d symbol(s) in objs, %d cell(s) in symbol_matrix' % (label, n_objs, len(cell_hits)))
        if cell_hits:
            drawn[id(t)] = cell_hits[0][2]

    # (3) no overlap between instance / port symbols
    reals = []
    seen = set()
    for r, c, s in cells:
        if is_real(s) and id(s) not in seen:
            seen.add(id(s))
            reals.append((r, c, s))
    rect = [(s.x, s.y, s.getWidth(), s.getHeight()) for _, _, s in reals]
    for a, b in itertools.combinations(range(len(reals)), 2):
        xa, ya, wa, ha = rect[a]
        xb, yb, wb, hb = rect[b]
        if xa < xb + wb and xb < xa + wa and ya < yb + hb and yb < ya + ha:
            bad('overlap', '%s at cell %s rect %s overlaps %s at cell %s rect %s' % (
                reals[a][2].obj.name, reals[a][:2], rect[a], reals[b][2].obj.name, reals[b][:2], rect[b]))

    # (4) per wire
    nets_by_wire = {}
    for net in sch.nets:
        nets_by_wire.setdefault(id(net.wire), []).append(net)
    for wid, nets in nets_by_wire.items():
        if wid not in wires:
            bad('foreign_pin', 'a net is drawn for wire %s which no child or port of the block uses' % getattr(nets[0].wire, 'name', '?'))
    for wid, e in wires.items():
        w = e['wire']
        nets = nets_by_wire.get(wid, [])
        if not e['readers'] and not nets:
            continue                    # driven but unread: nothing to draw
        uf = _UF()
        touched = set()                 # (id(owner), id(port), end)
        nodes = []

        def node(sym, port, end):
            if is_real(sym):
                owner = sym.obj
                ok = drawn.get(id(owner)) is sym
                k = ('pin', id(sym), id(port) if port is not None else None, end)
                touched.add((id(owner), id(port) if port is not None else None, end, ok,
                             '%s.%s' % (getattr(owner, 'name', '?'), getattr(port, 'name', None))))
            else:
                k = ('v', id(sym))
                if id(sym) not in in_matrix:
                    bad('net_disconnected', 'marker %s used by a net of wire %s is not in symbol_matrix' % (
                        getattr(sym, 'name', type(sym).__name__), w.name), w)
                start = getattr(sym, 'fb_start', None)
                if start is not None:
                    uf.union(k, ('v', id(start)))
            nodes.append(k)
            return k
        for net in nets:
            a = node(net.source, net.sourcePort, 'source')
            b = node(net.sink, net.sinkPort, 'sink')
            uf.union(a, b)
        comps = {uf.find(k) for k in nodes}
        if len(comps) > 1:
            bad('net_disconnected', 'the %d nets drawn for wire %s form %d separate pieces' % (len(nets), w.name, len(comps)), w)
        want = set()
        hit = False
        for owner, port in e['drivers']:
            want.add((id(owner), id(port), 'source'))
            hit = hit or any(t[:3] == (id(owner), id(port), 'source') and t[3] for t in touched)
        if not hit:
            # "the pin that really drives the wire"; when several block in-ports share the wire, one of them suffices
            bad('driver_pin_missing', 'no net of wire %s starts at its driver %s' % (
                w.name, ' / '.join('%s.%s' % (getattr(o, 'name', '?'), p.name) for o, p in e['drivers'])), w)
        for owner, port in e['readers']:
            want.add((id(owner), id(port), 'sink'))
            if not any(t[:3] == (id(owner), id(port), 'sink') and t[3] for t in touched):
                bad('reader_pin_missing', 'no net of wire %s ends at its reader %s.%s' % (
                    w.name, getattr(owner, 'name', '?'), port.name), w)
        for t in sorted(touched, key=lambda t: t[4]):
            if t[:3] not in want:
                bad('foreign_pin', 'a net of wire %s touches pin %s (%s end), which is not on that wire' % (w.name, t[4], t[2]), w)
    return out


# ---------------------------------------------------------------------------------------------------------------
# geometric clause: "the nets DRAWN for it (together with their pass-through and feedback markers) form one
# connected figure that touches the pin that really drives the wire and every pin that really reads it, and no
# pin of any other wire" - evaluated on the routed polylines (NetSymbol.x / .y) and the symbol rectangles.

def _segs(net):
    if net.x is None or net.y is None:
        return []
    return [((net.x[i], net.y[i]), (net.x[i + 1], net.y[i + 1])) for i in range(len(net.x) - 1)]


def _on(p, seg):
    (x0, y0), (x1, y1) = seg
    px, py = p
    if min(x0, x1) <= px <= max(x0, x1) and min(y0, y1) <= py <= max(y0, y1):
        return (x1 - x0) * (py - y0) == (y1 - y0) * (px - x0)
    return False


def _touch(a, b):
    if _on(a[0], b) or _on(a[1], b) or _on(b[0], a) or _on(b[1], a):
        return True

    def ccw(p, q, r):
        return (q[0] - p[0]) * (r[1] - p[1]) - (q[1] - p[1]) * (r[0] - p[0])
    d1, d2 = ccw(a[0], a[1], b[0]), ccw(a[0], a[1], b[1])
    d3, d4 = ccw(b[0], b[1], a[0]), ccw(b[0], b[1], a[1])
    return d1 * d2 < 0 and d3 * d4 < 0


def judge_geometry(block, sch, wires):
    """-> findings like judge(); only evaluated for wires that have a driver and a reader."""
    out = []

    def bad(clause, what, w):
        out.append({'clause': clause, 'wire': w.name, 'wire_id': id(w), 'what': what})
    real_ids = {id(c) for c in block.children.values()} | {id(p) for p in block.inPorts} | {id(p) for p in block.outPorts}
    symof = {}
    for s in sch.objs:
        o = getattr(s, 'obj', None)
        if o is not None and id(o) in real_ids:
            symof.setdefault(id(o), s)
    pins = []         # (wire id, point, label)
    for wid, e in wires.items():
        for owner, port in e['drivers']:
            s = symof.get(id(owner))
            if s is not None:
                d = s.getPortSourcePos(port)
                pins.append((wid, (s.x + d[0], s.y + d[1]), 'driver %s.%s' % (getattr(owner, 'name', '?'), port.name), 'drv'))
        for owner, port in e['readers']:
            s = symof.get(id(owner))
            if s is not None:
                d = s.getPortSinkPos(port)
                pins.append((wid, (s.x + d[0], s.y + d[1]), 'reader %s.%s' % (getattr(owner, 'name', '?'), port.name), 'rd'))
    nets_by_wire = {}
    for net in sch.nets:
        nets_by_wire.setdefault(id(net.wire), []).append(net)
    for wid, e in wires.items():
        w = e['wire']
        if not e['readers'] or not e['drivers']:
            continue
        nets = nets_by_wire.get(wid, [])
        segs = []
        for n in nets:
            if not n.routed or n.x is None:
                bad('net_not_routed', 'a net %s -> %s of wire %s has no routed path' % (
                    getattr(n.source, 'name', '?'), getattr(n.sink, 'name', '?'), w.name), w)
            segs += _segs(n)
        if not segs:
            continue                     # reported by the topological clauses
        boxes = []
        for n in nets:
            for s in (n.source, n.sink):
                if getattr(s, 'obj', None) is None or id(getattr(s, 'obj', None)) not in real_ids:
                    if not any(s is b for b in boxes):
                        boxes.append(s)
        uf = _UF()
        for i in range(len(segs)):
            uf.find(('s', i))
            for j in range(i + 1, len(segs)):
                if _touch(segs[i], segs[j]):
                    uf.union(('s', i), ('s', j))
            for k, b in enumerate(boxes):
                bx, by, bw, bh = b.x, b.y, b.getWidth(), b.getHeight()
                if any(bx <= p[0] <= bx + bw and by <= p[1] <= by + bh for p in segs[i]):
                    uf.union(('s', i), ('b', k))
        for k, b in enumerate(boxes):
            start = getattr(b, 'fb_start', None)
            if start is not None:
                for k2, b2 in enumerate(boxes):
                    if b2 is start:
                        uf.union(('b', k), ('b', k2))
        comps = {uf.find(('s', i)) for i in range(len(segs))}
        if len(comps) > 1:
            bad('drawn_figure_disconnected', 'the routed paths drawn for wire %s fall into %d pieces' % (w.name, len(comps)), w)
        drv_hit = False
        for pw, pt, lab, kind in pins:
            hit = any(_on(pt, sg) for sg in segs)
            if pw == wid and kind == 'drv':
                drv_hit = drv_hit or hit
            if pw == wid and kind == 'rd' and not hit:
                bad('drawn_reader_pin_untouched', 'the paths of wire %s do not reach %s' % (w.name, lab), w)
            if pw != wid and hit:
                bad('drawn_foreign_pin', 'a path of wire %s runs onto %s of wire %s' % (w.name, lab, wires[pw]['wire'].name), w)
        if not drv_hit:
            bad('drawn_driver_pin_untouched', 'the paths of wire %s do not start at any of its driver pins' % w.name, w)
    return out


def drawing_signature(sch):
    """hashable summary of a drawing (used to count distinct outcomes)"""
    m = sch.symbol_matrix
    nr, nc = m.shape
    cells = tuple((r, c, type(m[r, c]).__name__) for r in range(nr) for c in range(nc) if m[r, c] is not None)
    ends = tuple(sorted((getattr(n.source, 'r', -1), getattr(n.source, 'c', -1), getattr(n.sink, 'r', -1),
                         getattr(n.sink, 'c', -1)) for n in sch.nets))
    return (nr, nc, cells, len(sch.nets), ends)


def markers(sch):
    """number of pass-through / feedback marker symbols in the grid"""
    m = sch.symbol_matrix
    nr, nc = m.shape
    return sum(1 for r in range(nr) for c in range(nc)
               if m[r, c] is not None and type(m[r, c]).__name__ in ('PassthroughSymbol', 'FeedbackStartSymbol', 'FeedbackStopSymbol'))
