"""Reference netlist model for C11 (construction sequences).

Plain dicts/lists; never touches py4hw.  Two separate things live here:

* ``conflicts(net, op)`` -- the *specification*, written from the property
  statement only: which earlier entities (a child name of a parent, a wire name
  of a parent, the driver of a wire) the operation would collide with.  A
  non-empty answer means "the call must raise and each of these entities must
  still be the earlier object afterwards".

* ``apply(net, op)`` -- the *bookkeeping* needed to know what the netlist looks
  like after the call (accepted or refused), including the side effects a
  refused constructor is allowed to leave behind (a half-built child that is
  registered under its own new name, a wire that was taken out of its
  parent's table before the refusal).  The statement does not forbid those, so
  they are modelled as they are documented by the order of statements in
  Logic.__init__/addIn/addOut/Wire.rename/... ; the check compares this
  bookkeeping with the live objects after every transition, so it cannot drift.

Identifiers
  object  : path tuple from the top, () = the HWSystem, ('c',) = child c, ...
  wire    : handle = index in creation order (only successfully created wires)
Operations (tuples)
  ('wire', P, n)                 Wire(P, n, 1)             P in {(), ('c',)}
  ('buf', n, a, r)               Buf(top, n, W[a], W[r])
  ('const', n, r)                Constant(top, n, 1, W[r])
  ('logic', P, n)                Logic(P, n)               plain structural child
  ('wrap', n, r)                 L=Logic(top,n); L.addOut('r',W[r]); Constant(L,'k',1,W[r])
  ('rename', w, n)               W[w].rename(n)
  ('reparent', w, P)             W[w].reparent(P)
  ('reparentAndRename', w, P, n) W[w].reparentAndRename(P, n)
  ('disc', w, n)                 disconnectWireFromLogicObject(W[w], top.children[n])
"""

TOP = ()
CHILD = ('c',)
CLK = 'CLK'            # the HWSystem's own clock wire (not a handle)

WIRE_NAMES = ('x', 'y')
BUF_NAMES = ('u', 'v')
CONST_NAMES = ('v', 'k')
LOGIC_OPS = ((TOP, 'c'), (TOP, 'u'), (CHILD, 'u'))
WRAP_NAMES = ('u',)


def _obj(kind):
    return {'kind': kind, 'children': [], 'wires': {}, 'ins': [], 'outs': []}


class Net:
    def __init__(self):
        self.objs = {TOP: _obj('HWSystem')}
        self.objs[TOP]['wires']['clk'] = CLK
        self.wires = []     # handle -> {'name','parent','src','sinks'}

    def copy(self):
        n = Net.__new__(Net)
        n.objs = {p: {'kind': o['kind'], 'children': list(o['children']), 'wires': dict(o['wires']),
                      'ins': list(o['ins']), 'outs': list(o['outs'])} for p, o in self.objs.items()}
        n.wires = [{'name': w['name'], 'parent': w['parent'], 'src': w['src'], 'sinks': list(w['sinks'])}
                   for w in self.wires]
        return n

    def key(self):
        """Canonical, hashable, order-stable view = the observable structure."""
        objs = tuple((p, o['kind'], tuple(o['children']), tuple(sorted(o['wires'].items(), key=repr)),
                      tuple(o['ins']), tuple(o['outs'])) for p, o in sorted(self.objs.items()))
        wires = tuple((w['name'], w['parent'], w['src'], tuple(w['sinks'])) for w in self.wires)
        return (objs, wires)

    # -- helpers -------------------------------------------------------
    def has_child_container(self):
        return CHILD in self.objs and self.objs[CHILD]['kind'] == 'Logic'

    def registered(self, h):
        w = self.wires[h]
        o = self.objs.get(w['parent'])
        return o is not None and o['wires'].get(w['name']) == h

    def unregistered_wires(self):
        return [h for h in range(len(self.wires)) if not self.registered(h)]


def enabled_ops(net, max_wires):
    """The alphabet instantiated over the objects that exist (deterministic order)."""
    ops = []
    parents = [TOP] + ([CHILD] if net.has_child_container() else [])
    hs = range(len(net.wires))
    if len(net.wires) < max_wires:
        for P in parents:
            for n in WIRE_NAMES:
                ops.append(('wire', P, n))
    for P, n in LOGIC_OPS:
        if P in parents:
            ops.append(('logic', P, n))
    for n in CONST_NAMES:
        for r in hs:
            ops.append(('const', n, r))
    for n in BUF_NAMES:
        for a in hs:
            for r in hs:
                ops.append(('buf', n, a, r))
    for n in WRAP_NAMES:
        for r in hs:
            ops.append(('wrap', n, r))
    for w in hs:
        for n in net.objs[TOP]['children']:
            if n != 'c':
                ops.append(('disc', w, n))
    for w in hs:
        for n in WIRE_NAMES:
            ops.append(('rename', w, n))
        for P in parents:
            ops.append(('reparent', w, P))
            for n in WIRE_NAMES:
                ops.append(('reparentAndRename', w, P, n))
    return ops


def attached_drivers(net, h):
    """(path, port) of every primitive block whose output port is attached to wire h"""
    return [(p, pn) for p, o in sorted(net.objs.items()) if o['kind'] in ('Buf', 'Constant')
            for pn, hh in o['outs'] if hh == h]


# ---------------------------------------------------------------------------
# specification (from the statement)
# ---------------------------------------------------------------------------

def conflicts(net, op):
    """Entities the call would collide with:  ('child', P, n) | ('wire', P, n) | ('driver', h)."""
    k = op[0]
    out = []
    if k == 'wire':
        _, P, n = op
        if n in net.objs[P]['wires']:
            out.append(('wire', P, n))
    elif k == 'logic':
        _, P, n = op
        if n in net.objs[P]['children']:
            out.append(('child', P, n))
    elif k in ('buf', 'const', 'wrap'):
        n, r = op[1], op[-1]
        if n in net.objs[TOP]['children']:
            out.append(('child', TOP, n))
        # a driver of a wire = a primitive block with an output port attached to it (normally also the wire's
        # registered source; the two can only differ after a disconnect)
        if net.wires[r]['src'] is not None or attached_drivers(net, r):
            out.append(('driver', r))
    elif k == 'disc':
        pass            # removes a connection: cannot create a conflict
    else:
        w = op[1]
        wi = net.wires[w]
        if k == 'rename':
            P, n = wi['parent'], op[2]
        elif k == 'reparent':
            P, n = op[2], wi['name']
        else:
            P, n = op[2], op[3]
        occ = net.objs[P]['wires'].get(n)
        if occ is not None and occ != w:
            out.append(('wire', P, n))
    return out


# ---------------------------------------------------------------------------
# bookkeeping (what the structure is after the call)
# ---------------------------------------------------------------------------

def apply(net, op, residue=False, general=False):
    """-> (outcome, net')   outcome in {'ok', 'raise'}; net is not modified."""
    s = net.copy()
    k = op[0]
    if k == 'disc':
        _, w, n = op
        o = s.objs[(n,)]
        wi = s.wires[w]
        if general:
            # an implementation that looks at the object's own port list (so that structural blocks can be
            # disconnected too): first out port, then first in port, attached to the wire
            for i, (pn, hh) in enumerate(o['outs']):
                if hh == w:
                    wi['src'] = None
                    o['outs'][i] = (pn, None)
                    return 'ok', s
            for i, (pn, hh) in enumerate(o['ins']):
                if hh == w:
                    if ((n,), pn) in wi['sinks']:
                        wi['sinks'].remove(((n,), pn))
                    o['ins'][i] = (pn, None)
                    return 'ok', s
            return 'raise', s
        if wi['src'] is not None and wi['src'][0] == (n,):
            pn = wi['src'][1]
            wi['src'] = None
            o['outs'] = [(q, None if (q == pn and hh == w) else hh) for q, hh in o['outs']]
            return 'ok', s
        for sink in wi['sinks']:
            if sink[0] == (n,):
                wi['sinks'].remove(sink)
                done = [False]

                def f(q, hh):
                    if not done[0] and q == sink[1] and hh == w:
                        done[0] = True
                        return (q, None)
                    return (q, hh)
                o['ins'] = [f(q, hh) for q, hh in o['ins']]
                return 'ok', s
        return 'raise', s
    if k == 'wire':
        _, P, n = op
        if n in s.objs[P]['wires']:
            return 'raise', s                       # the new Wire object is never handed out
        s.wires.append({'name': n, 'parent': P, 'src': None, 'sinks': []})
        s.objs[P]['wires'][n] = len(s.wires) - 1
        return 'ok', s
    if k == 'logic':
        _, P, n = op
        if n in s.objs[P]['children']:
            return 'raise', s
        s.objs[P]['children'].append(n)
        s.objs[P + (n,)] = _obj('Logic')
        return 'ok', s
    if k == 'buf':
        _, n, a, r = op
        if n in s.objs[TOP]['children']:
            return 'raise', s
        s.objs[TOP]['children'].append(n)
        o = s.objs[(n,)] = _obj('Buf')
        o['ins'].append(('a', a))                   # addIn comes first: a primitive registers as reader
        s.wires[a]['sinks'].append(((n,), 'a'))
        if s.wires[r]['src'] is not None:
            return 'raise', s                       # child n (new name) stays registered, without its out port
        s.wires[r]['src'] = ((n,), 'r')
        o['outs'].append(('r', r))
        return 'ok', s
    if k == 'const':
        _, n, r = op
        if n in s.objs[TOP]['children']:
            return 'raise', s
        s.objs[TOP]['children'].append(n)
        o = s.objs[(n,)] = _obj('Constant')
        if s.wires[r]['src'] is not None:
            return 'raise', s
        s.wires[r]['src'] = ((n,), 'r')
        o['outs'].append(('r', r))
        return 'ok', s
    if k == 'wrap':
        _, n, r = op
        if n in s.objs[TOP]['children']:
            return 'raise', s
        s.objs[TOP]['children'].append(n)
        o = s.objs[(n,)] = _obj('Logic')
        o['outs'].append(('r', r))                  # a structural block's port does not drive
        o['children'].append('k')
        ko = s.objs[(n, 'k')] = _obj('Constant')
        if s.wires[r]['src'] is not None:
            return 'raise', s
        s.wires[r]['src'] = ((n, 'k'), 'r')
        ko['outs'].append(('r', r))
        return 'ok', s
    # rename family: the wire is taken out of its parent's table under its current
    # name, its attributes are changed, then it is appended to the target table
    w = op[1]
    wi = s.wires[w]
    if k == 'rename':
        P, n = wi['parent'], op[2]
    elif k == 'reparent':
        P, n = op[2], wi['name']
    else:
        P, n = op[2], op[3]
    # (since fix 1f602d8 in /repo the destination is checked before anything is touched: a refused call has no
    # side effect, and only the wire's own table entry is removed.  If an implementation leaves the old residue -
    # wire dropped from its table, already carrying the new name - check_transition reports the divergence.)
    tab = s.objs[wi['parent']]['wires']
    if residue:
        # the behaviour before that fix, kept so that an implementation that regresses to it is still followed
        # (and the silent eviction on the retry is reported): mutate first, validate afterwards
        if wi['name'] not in tab:
            return 'raise', s
        del tab[wi['name']]
        wi['name'], wi['parent'] = n, P
        if n in s.objs[P]['wires']:
            return 'raise', s
        s.objs[P]['wires'][n] = w
        return 'ok', s
    if s.objs[P]['wires'].get(n, w) != w:
        return 'raise', s                           # destination name taken by another wire: refused, no change
    if tab.get(wi['name']) == w:
        del tab[wi['name']]
    wi['name'], wi['parent'] = n, P
    s.objs[P]['wires'][n] = w
    return 'ok', s
