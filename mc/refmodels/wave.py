"""Reference decoder for WaveJSON (the dict WaveDrom draws) and the per-cycle
reference signals used by C15.

Written from the WaveDrom format definition (wavedrom.com tutorial, "WaveJSON"):

* ``{"signal": [lane, ...], "head": {...}}``; a lane is ``{"name", "wave", "data"}``.
* ``wave`` is a string, one character per time slot (period):
    ``p n P N h l H L``  clock shapes (P/N = with edge arrow)
    ``0 1``              a single-bit level
    ``x``                unknown, ``z`` high impedance, ``u d`` pull up/down
    ``= 2 3 4 5 6 7 8 9`` a multi-bit value; each such character consumes the next
                          label of ``data`` (a list, or one space-separated string)
    ``.``                extends the previous slot's state for one more period
    ``|``                a gap (time is cut) - never a sample
* ``head`` (text / tick / tock) does not change the slots.

and from the C15 statement: run-length dots, per-cycle bit characters for 1-bit
wires, data labels in the wire's display format (upper-case hexadecimal, no
prefix) for wider ones.  WaveDrom leaves the framing free: py4hw pads each lane
with ``x`` slots before the first and after the last sample; those are not
samples, whatever their number.

No py4hw code is used here.
"""
import re

CLOCK_CHARS = frozenset('pnPNhlHL')
DATA_CHARS = frozenset('=23456789')
BIT_CHARS = frozenset('01')
_HEX = re.compile(r'[0-9A-F]+\Z')


class DecodeError(Exception):
    pass


def labels_of(lane):
    d = lane.get('data', [])
    if isinstance(d, str):
        return d.split()
    if isinstance(d, (list, tuple)):
        return list(d)
    raise DecodeError('data is neither list nor string: %r' % (d,))


def slots(lane):
    """Expand a lane into one resolved state per time slot.
    States: ('x',) ('z',) ('bit', 0|1) ('data', label) ('clk', char) ('pull', char)."""
    wave = lane.get('wave')
    if not isinstance(wave, str):
        raise DecodeError('wave is not a string: %r' % (wave,))
    labels = labels_of(lane)
    nxt = 0
    out = []
    prev = None
    for i, ch in enumerate(wave):
        if ch == '.':
            if prev is None:
                raise DecodeError('"." in the first slot has nothing to extend')
            cur = prev
        elif ch == 'x':
            cur = ('x',)
        elif ch == 'z':
            cur = ('z',)
        elif ch in BIT_CHARS:
            cur = ('bit', int(ch))
        elif ch in DATA_CHARS:
            if nxt >= len(labels):
                raise DecodeError('slot %d: data symbol %r has no label left in data=%r' % (i, ch, labels))
            cur = ('data', labels[nxt])
            nxt += 1
        elif ch in CLOCK_CHARS:
            cur = ('clk', ch)
        elif ch in 'ud':
            cur = ('pull', ch)
        else:
            raise DecodeError('slot %d: character %r is not a sample (wave=%r)' % (i, ch, wave))
        out.append(cur)
        prev = cur
    return out


def is_clock_lane(lane):
    w = lane.get('wave')
    return isinstance(w, str) and any(c in CLOCK_CHARS for c in w)


def parse_label(label):
    """Display format of a wide wire: upper-case hexadecimal without prefix."""
    if not isinstance(label, str) or not _HEX.match(label):
        raise DecodeError('label %r is not upper-case hexadecimal' % (label,))
    return int(label, 16)


def decode_signal(lane, width):
    """-> (lead, samples, trail): number of leading unknown slots, the decoded
    integer samples, number of trailing unknown slots."""
    st = slots(lane)
    lead = 0
    while lead < len(st) and st[lead] == ('x',):
        lead += 1
    end = len(st)
    while end > lead and st[end - 1] == ('x',):
        end -= 1
    samples = []
    for i in range(lead, end):
        s = st[i]
        if width == 1:
            if s[0] != 'bit':
                raise DecodeError('slot %d of a 1-bit lane is %r, not a bit character (wave=%r)' % (i, s, lane.get('wave')))
            samples.append(s[1])
        else:
            if s[0] != 'data':
                raise DecodeError('slot %d of a %d-bit lane is %r, not a labelled value (wave=%r)' % (i, width, s, lane.get('wave')))
            samples.append(parse_label(s[1]))
    return lead, samples, len(st) - end


def decode(wd, widths):
    """Decode a WaveJSON dict whose signal lanes (clock lanes excluded, order kept)
    correspond to `widths`.  -> dict(total=[slots per lane], clock=[slot lists of the clock lanes],
    lanes=[(lead, samples, trail) ...])."""
    if not isinstance(wd, dict) or not isinstance(wd.get('signal'), list):
        raise DecodeError('not a WaveJSON dict with a signal list')
    clock, sig = [], []
    for lane in wd['signal']:
        if not isinstance(lane, dict):
            raise DecodeError('lane %r is not a dict' % (lane,))
        (clock if is_clock_lane(lane) else sig).append(lane)
    if len(sig) != len(widths):
        raise DecodeError('%d signal lanes for %d watch-list entries' % (len(sig), len(widths)))
    return {
        'clock': [slots(l) for l in clock],
        'lanes': [decode_signal(l, w) for l, w in zip(sig, widths)],
        'total': [len(l['wave']) for l in clock + sig],
    }


# ---------------------------------------------------------------------------
# per-cycle reference signals (what each watched entry carries going into edge t)
# ---------------------------------------------------------------------------

def expected(kind, base_hist, t):
    """base_hist: values poked on the underlying free wire, one per simulated cycle
    since power-up.  kind '' / 'in' = the wire itself (or a port attached to it),
    'out' = the output of a buffer fed by it (same value once settled),
    'q' / 'qport' = output of a D register fed by it (previous cycle's value, 0 at power-up),
    'gq' = output of a D register fed by it whose own clock driver is enabled by it (last non-zero value, 0 before)."""
    if kind in ('', 'in', 'out', 'sn'):
        return base_hist[t]
    if kind in ('q', 'qport'):
        return base_hist[t - 1] if t > 0 else 0
    if kind == 'gq':
        # a D register fed by the wire and clocked only at edges entered with a non-zero value on that same wire
        for v in reversed(base_hist[:t]):
            if v != 0:
                return v
        return 0
    raise ValueError(kind)
