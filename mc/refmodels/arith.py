"""Reference functions for C07 (integer arithmetic blocks).

Plain Python integers only; nothing here imports py4hw.  Conventions:
  * a, b, ... are the raw (unsigned) wire values, aw, bw their widths, rw the
    width of the result port; every function returns the result already reduced
    modulo 2**rw (Python's % is non-negative for a positive modulus).
  * signed variants decode each operand as two's complement *at its own width*.
  * a function returns None when the statement of C07 does not specify the
    result for that input (zero divisor, rotation amount above the data width).
"""


def to_signed(v, w):
    """Two's-complement value of the w-bit pattern v."""
    return v - (1 << w) if (v >> (w - 1)) & 1 else v


def red(v, w):
    """v reduced modulo 2**w (non-negative)."""
    return v % (1 << w)


# ---------------------------------------------------------------- add / sub
def add(a, b, ci, rw):
    return red(a + b + ci, rw)


def carry_out(a, b, ci, rw):
    """Carry out of an rw-bit adder: the weight-2**rw part of the sum, as one bit."""
    return ((a + b + ci) >> rw) % 2


def signed_add(a, aw, b, bw, ci, rw):
    return red(to_signed(a, aw) + to_signed(b, bw) + ci, rw)


def signed_carry_out(a, aw, b, bw, ci, rw):
    """Carry out of the rw-bit two's-complement addition = carry of the unsigned
    addition of the two rw-bit patterns (the usual hardware meaning of a carry)."""
    pa = red(to_signed(a, aw), rw)
    pb = red(to_signed(b, bw), rw)
    return ((pa + pb + ci) >> rw) % 2


def sub(a, b, rw):
    return red(a - b, rw)


def sub_borrow(a, b, bi, rw):
    return red(a - b - bi, rw)


def signed_sub(a, aw, b, bw, rw):
    return red(to_signed(a, aw) - to_signed(b, bw), rw)


# ---------------------------------------------------------------- unary
def neg(a, rw):
    return red(-a, rw)


def absolute(a, aw, rw):
    return red(abs(to_signed(a, aw)), rw)


def is_negative(a, aw):
    return 1 if to_signed(a, aw) < 0 else 0


def sign_extend(a, aw, rw):
    return red(to_signed(a, aw), rw)


def zero_extend(a, rw):
    return red(a, rw)


# ---------------------------------------------------------------- mul / div
def mul(a, b, rw):
    return red(a * b, rw)


def signed_mul(a, aw, b, bw, rw):
    return red(to_signed(a, aw) * to_signed(b, bw), rw)


def div(a, b, rw):
    if b == 0:
        return None
    return red(a // b, rw)


def mod(a, b, rw):
    if b == 0:
        return None
    return red(a % b, rw)


def signed_div(a, aw, b, bw, rw):
    """Quotient truncated toward zero."""
    sa, sb = to_signed(a, aw), to_signed(b, bw)
    if sb == 0:
        return None
    q = abs(sa) // abs(sb)
    if (sa < 0) != (sb < 0):
        q = -q
    return red(q, rw)


# ---------------------------------------------------------------- shifts / rotates
def shl(a, n, rw):
    return red(a << n, rw)


def shr(a, n, rw):
    return red(a >> n, rw)


def sar(a, aw, n, rw):
    """Arithmetic shift right = floor(signed(a) / 2**n)."""
    return red(to_signed(a, aw) >> n, rw)


def rotl(a, aw, n, rw):
    """Rotation of the aw-bit pattern; amounts above the data width are outside C07."""
    if n > aw:
        return None
    n %= aw
    v = ((a << n) | (a >> (aw - n))) % (1 << aw)
    return red(v, rw)


def rotr(a, aw, n, rw):
    if n > aw:
        return None
    n %= aw
    v = ((a >> n) | (a << (aw - n))) % (1 << aw)
    return red(v, rw)


# ---------------------------------------------------------------- counting / BCD
def clz(a, aw, rw):
    """Number of zero bits above the most significant one of the aw-bit pattern (aw if a == 0)."""
    n = 0
    for i in range(aw - 1, -1, -1):
        if (a >> i) & 1:
            break
        n += 1
    return red(n, rw)


def is_zero(a):
    return 1 if a == 0 else 0


def bcd(a, rw):
    """Packed BCD (digit i in bits 4i+3..4i) of a, reduced modulo 2**rw (low rw//4 digits)."""
    v = 0
    i = 0
    while a:
        v |= (a % 10) << (4 * i)
        a //= 10
        i += 1
    return red(v, rw)
