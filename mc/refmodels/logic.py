"""Reference truth tables for the logic / selection / comparison blocks (C08).

Written from the docstrings in py4hw/logic/bitwise.py and relational.py and the
text of property C08 with plain Python ints; no py4hw code or helper is used.

ref(desc, x) -> None                : input vector outside the documented domain (skipped)
             -> dict outname -> int : expected value (None = not defined, not compared)

`desc` is the configuration dict of mc/props/c08.py, `x` maps input names to
unsigned ints.  Naming convention of the harness: n-ary inputs in0..in<n-1>,
selects s0..s<n-1>, list outputs r0.. / b0.. / out0..
"""


def M(w):
    return (1 << w) - 1


def signed(v, w):
    """two's complement value of the w-bit pattern v"""
    return v - (1 << w) if (v >> (w - 1)) & 1 else v


def ints(s):
    """'1+2+2' -> [1, 2, 2] (list-valued configuration parameters are written as strings)"""
    return [int(t) for t in s.split('+')] if s else []


def _lst(x, prefix, n):
    return [x['%s%d' % (prefix, i)] for i in range(n)]


def _ops(d, x):
    # operands of an n-ary gate: d['n'] inputs of one width, or one input per width listed in d['ws']
    return _lst(x, 'in', len(ints(d['ws'])) if d.get('ws') else d['n'])


# ---------------------------------------------------------------- gates

def r_and(d, x):
    v = M(d['w'])
    for a in _ops(d, x):
        v &= a
    return {'r': v}


def r_or(d, x):
    v = 0
    for a in _ops(d, x):
        v |= a
    return {'r': v & M(d['w'])}


def r_xor(d, x):
    v = 0
    for a in _ops(d, x):
        v ^= a
    return {'r': v & M(d['w'])}


def r_nor(d, x):
    return {'r': M(d['w']) & ~r_or(d, x)['r']}


def r_and2(d, x):
    return {'r': x['a'] & x['b']}


def r_or2(d, x):
    return {'r': x['a'] | x['b']}


def r_xor2(d, x):
    return {'r': x['a'] ^ x['b']}


def r_nand2(d, x):
    return {'r': M(d['w']) & ~(x['a'] & x['b'])}


def r_nor2(d, x):
    return {'r': M(d['w']) & ~(x['a'] | x['b'])}


def r_not(d, x):
    return {'r': M(d['w']) & ~x['a']}


def r_buf(d, x):
    return {'r': x['a']}


def r_bufenable(d, x):
    # "When high, the output is the same as the input; when low, the output is zero."
    return {'r': x['a'] if x['en'] == 1 else 0}


def r_andbits(d, x):
    return {'r': 1 if x['a'] == M(d['w']) else 0}


def r_orbits(d, x):
    return {'r': 1 if x['a'] != 0 else 0}


# ---------------------------------------------------------------- bit manipulation

def r_bit(d, x):
    return {'r': (x['a'] >> d['bit']) & 1}


def r_range(d, x):
    # bits high..low (inclusive), right aligned
    return {'r': (x['a'] >> d['low']) & M(d['high'] - d['low'] + 1)}


def r_bits_lsbf(d, x):
    # list position 0 = least significant bit
    return {'b%d' % i: (x['a'] >> i) & 1 for i in range(d['w'])}


def r_bits_msbf(d, x):
    # list position 0 = most significant bit
    w = d['w']
    return {'b%d' % i: (x['a'] >> (w - 1 - i)) & 1 for i in range(w)}


def _concat_items(d):
    pws = ints(d['parts'])
    idx = ints(d['rep']) if d.get('rep') else list(range(len(pws)))
    return [(i, pws[i]) for i in idx]


def r_concat_lsbf(d, x):
    # ins[0] occupies the least significant bits
    v, sh = 0, 0
    for i, w in _concat_items(d):
        v |= x['in%d' % i] << sh
        sh += w
    return {'r': v}


def r_concat_msbf(d, x):
    # ins[0] occupies the most significant bits
    v = 0
    for i, w in _concat_items(d):
        v = (v << w) | x['in%d' % i]
    return {'r': v}


def r_repeat(d, x):
    return {'r': M(d['w']) if x['i'] == 1 else 0}


# ---------------------------------------------------------------- selectors

def r_mux2(d, x):
    # "r = sel0 when sel = 0, r = sel1 when sel = 1. Only the LSB of the select signal is considered"
    return {'r': x['sel1'] if x['sel'] & 1 else x['sel0']}


def r_mux(d, x):
    return {'r': x['in%d' % x['sel']]}


def r_demux(d, x):
    # the selected output receives a; the other outputs are idle (0): conventional
    # demultiplexer, see ASSUMPTIONS in c08.py
    return {'r%d' % i: (x['a'] if i == x['sel'] else 0) for i in range(1 << d['k'])}


def r_decoder(d, x):
    return {'b%d' % i: 1 if i == x['a'] else 0 for i in range(1 << d['k'])}


def _onehot(x, n):
    """index of the only high select, 'none' if no select is high, None if several are"""
    hi = [i for i, s in enumerate(_lst(x, 's', n)) if s]
    if not hi:
        return 'none'
    return hi[0] if len(hi) == 1 else None


def r_onehotmux(d, x):
    # "The selection signals must be one-hot encoded": anything else is outside the domain
    k = _onehot(x, d['n'])
    if k is None or k == 'none':
        return None
    return {'r': x['in%d' % k]}


def r_onehotdemux(d, x):
    k = _onehot(x, d['n'])
    if k is None or k == 'none':
        return None
    return {'out%d' % i: (x['a'] if i == k else 0) for i in range(d['n'])}


def r_selectdefault(d, x):
    # "If no selection signal is high, the default value is selected."  What happens when
    # several selects are high (the implementation is a priority chain) is not documented.
    k = _onehot(x, d['n'])
    if k is None:
        return None
    if k == 'none':
        return {'r': x['default']}
    return {'r': x['in%d' % k]}


def r_priority(d, x):
    # "inc_priority: If True, priority increases with the index (the highest index has the
    #  highest priority). If False, the lowest index has the highest priority."  One output per
    # input; the output of the winning input is 1, all others 0.  No active input: not
    # documented (skipped).  (The docstring had the two directions swapped until fix 068981b.)
    a = _lst(x, 'a', d['n'])
    act = [i for i, v in enumerate(a) if v]
    if not act:
        return None
    win = max(act) if d['inc'] else min(act)
    return {'r%d' % i: 1 if i == win else 0 for i in range(d['n'])}


def r_minterm(d, x):
    v = 0
    for i, b in enumerate(_lst(x, 'b', d['n'])):
        v |= b << i
    return {'r': 1 if v == d['value'] % (1 << d['n']) else 0}


def r_sumofminterms(d, x):
    return {'r': 1 if x['a'] in ints(d['minterms']) else 0}


def r_swap(d, x):
    # swap = 1 exchanges the two inputs, swap = 0 passes them straight
    if x['swap'] == 1:
        return {'ra': x['b'], 'rb': x['a']}
    return {'ra': x['a'], 'rb': x['b']}


# ---------------------------------------------------------------- comparators

def r_equal(d, x):
    return {'r': 1 if x['a'] == x['b'] else 0}


def r_equalconstant(d, x):
    return {'r': 1 if x['a'] == d['v'] % (1 << d['w']) else 0}


def r_notequalconstant(d, x):
    return {'r': 1 if x['a'] != d['v'] % (1 << d['w']) else 0}


def r_anyequal(d, x):
    v = _lst(x, 'in', d['n'])
    return {'r': 1 if len(set(v)) < len(v) else 0}


def r_comparator(d, x):
    a, b = x['a'], x['b']
    return {'gt': int(a > b), 'eq': int(a == b), 'lt': int(a < b)}


def r_comparator_su(d, x):
    a, b = x['a'], x['b']
    sa, sb = signed(a, d['wa']), signed(b, d['wb'])
    return {'gtu': int(a > b), 'eq': int(a == b), 'ltu': int(a < b), 'gt': int(sa > sb), 'lt': int(sa < sb)}


def r_min2(d, x):
    return {'r': min(x['a'], x['b'])}


def r_max2(d, x):
    return {'r': max(x['a'], x['b'])}


def r_signedmin2(d, x):
    a, b = x['a'], x['b']
    return {'r': a if signed(a, d['wa']) <= signed(b, d['wb']) else b}


def r_signedmax2(d, x):
    a, b = x['a'], x['b']
    return {'r': a if signed(a, d['wa']) >= signed(b, d['wb']) else b}


def _sg(v, w):
    return v - (1 << w) if v >> (w - 1) else v


# helper function -> (argument shape, value as a Python integer before reduction to the width of the wire the helper returns)
HELPERS = {
    'hw_equal': ('ab', lambda d, x: int(x['a'] == x['b'])),
    'hw_equal_constant': ('ak', lambda d, x: int(x['a'] == d['k'] % (1 << d['w']))),
    'hw_not_equal_constant': ('ak', lambda d, x: int(x['a'] != d['k'] % (1 << d['w']))),
    'hw_gt_constant': ('ak', lambda d, x: int(x['a'] > d['k'])),
    'hw_lt_constant': ('ak', lambda d, x: int(x['a'] < d['k'])),
    'hw_ge_constant': ('ak', lambda d, x: int(x['a'] >= d['k'])),
    'hw_signed_gt_constant': ('ak', lambda d, x: int(_sg(x['a'], d['w']) > d['k'])),
    'hw_signed_ge_constant': ('ak', lambda d, x: int(_sg(x['a'], d['w']) >= d['k'])),
    'hw_and2': ('ab', lambda d, x: x['a'] & x['b']),
    'hw_or2': ('ab', lambda d, x: x['a'] | x['b']),
    'hw_xor2': ('ab', lambda d, x: x['a'] ^ x['b']),
    'hw_and3': ('abc', lambda d, x: x['a'] & x['b'] & x['c']),
    'hw_and4': ('abcd', lambda d, x: x['a'] & x['b'] & x['c'] & x['d']),
    'hw_not': ('a', lambda d, x: ~x['a']),
    'hw_buf': ('a', lambda d, x: x['a']),
    'hw_or_bits': ('a', lambda d, x: int(x['a'] != 0)),
    'hw_sign': ('a', lambda d, x: x['a'] >> (d['w'] - 1)),
    'hw_and': ('list', lambda d, x: _fold(d, x, lambda p, q: p & q)),
    'hw_or': ('list', lambda d, x: _fold(d, x, lambda p, q: p | q)),
    'hw_mux2': ('sab', lambda d, x: x['b'] if x['sel'] else x['a']),
    'hw_if': ('sab', lambda d, x: x['a'] if x['sel'] else x['b']),
    'hw_range': ('aud', lambda d, x: (x['a'] >> d['down']) & ((1 << (d['up'] - d['down'] + 1)) - 1)),
    'hw_add': ('ab', lambda d, x: x['a'] + x['b']),
    'hw_sub': ('ab', lambda d, x: x['a'] - x['b']),
    'hw_mul': ('ab', lambda d, x: x['a'] * x['b']),
    'hw_neg': ('a', lambda d, x: -x['a']),
    'hw_abs': ('a', lambda d, x: abs(_sg(x['a'], d['w']))),
    'hw_signed_add': ('ab', lambda d, x: _sg(x['a'], d['w']) + _sg(x['b'], d['w'])),
    'hw_div': ('ab', lambda d, x: None if x['b'] == 0 else x['a'] // x['b']),
    'hw_mod': ('ab', lambda d, x: None if x['b'] == 0 else x['a'] % x['b']),
}


def _fold(d, x, f):
    v = x['in0']
    for i in range(1, d['n']):
        v = f(v, x['in%d' % i])
    return v


def r_helper_pair(d, x):
    out = {}
    for i, fn in ((1, d['fn1']), (2, d['fn2'])):
        v = HELPERS[fn][1](d, x)
        out['r%d' % i] = None if v is None else v % (1 << d['_rw%d' % i])
    return out


def r_helper(d, x):
    v = HELPERS[d['fn']][1](d, x)
    if v is None:
        return None
    return {'r': v % (1 << d['_rw'])}


REF = {
    'Helper': r_helper, 'HelperPair': lambda d, x: r_helper_pair(d, x),
    'And': r_and, 'Or': r_or, 'Xor': r_xor, 'Nor': r_nor,
    'And2': r_and2, 'Or2': r_or2, 'Xor2': r_xor2, 'Nand2': r_nand2, 'Nor2': r_nor2,
    'Not': r_not, 'Buf': r_buf, 'BufEnable': r_bufenable, 'AndBits': r_andbits, 'OrBits': r_orbits,
    'Bit': r_bit, 'Range': r_range, 'BitsLSBF': r_bits_lsbf, 'BitsMSBF': r_bits_msbf,
    'ConcatenateLSBF': r_concat_lsbf, 'ConcatenateMSBF': r_concat_msbf, 'Repeat': r_repeat,
    'Mux2': r_mux2, 'Mux': r_mux, 'Demux': r_demux, 'Decoder': r_decoder,
    'Select': r_onehotmux, 'OneHotMux': r_onehotmux, 'OneHotDemux': r_onehotdemux,
    'SelectDefault': r_selectdefault, 'PriorityEncoder': r_priority,
    'Minterm': r_minterm, 'SumOfMinterms': r_sumofminterms, 'Swap': r_swap,
    'Equal': r_equal, 'EqualConstant': r_equalconstant, 'NotEqualConstant': r_notequalconstant,
    'AnyEqual': r_anyequal, 'Comparator': r_comparator, 'ComparatorSignedUnsigned': r_comparator_su,
    'Min2': r_min2, 'Max2': r_max2, 'SignedMin2': r_signedmin2, 'SignedMax2': r_signedmax2,
}


def ref(d, x):
    return REF[d['block']](d, x)
