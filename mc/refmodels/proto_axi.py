"""Reference protocol monitors for the AXI4-Stream adapters (C16).

Written from the property statement and the class docstrings of
py4hw/emulation/vitiswrapping.py; plain Python ints/tuples, no py4hw code.

Time model.  Cycle t: the environment applies the inputs x_t, the design
settles (observation `pre`), the clock edge happens and the design settles
again with the same inputs (observation `post`).  Everything the docstrings
call a register ("captures ... into a register", "'loaded' goes to 1 on the
handshake and stays set", "sent: 1 when the transaction has completed") is
visible from the observation after the edge of the cycle in which its cause
occurred.  READY==active, LAST==VALID and KEEP are relations between values of
the same settled observation.

Every monitor has
    init                  hashable initial state
    enabled(s, x)         environment assumption of the statement: ap_done only
                          after a transfer completed since the last
                          (re)start / reset / done
    settled(s, o)         -> [(clause, detail)] invariants of one settled observation
                          taken while the monitor is in state s
    step(s, x, pre, post) -> (s', [(clause, detail)], [informational notes])
"""


def _next_active(A, x, observed):
    """'active': set by ap_start, returns to inactive on ap_done / ap_reset.
    ap_start together with ap_done/ap_reset in the same cycle is not ordered by
    the statement or the docstrings: the monitor follows the adapter there."""
    clr = x['ap_reset'] or x['ap_done']
    if x['ap_start'] and clr:
        return 1 if observed else 0, True
    if clr:
        return 0, False
    if x['ap_start']:
        return 1, False
    return A, False


class Axi2RegMonitor:
    """stream -> register.  State (A, held, completed):
    A          the adapter is active (model, not the port)
    held       None = cleared, else low bits of the most recent beat transferred while active
    completed  a beat was transferred while active since the last restart/reset/done
    """
    name = 'Axi2Reg'
    inputs = ('ap_start', 'ap_reset', 'ap_done', 'tvalid', 'tdata')
    outputs = ('active', 'tready', 'q', 'loaded')

    def __init__(self, qw):
        self.mask = (1 << qw) - 1
        self.init = (0, None, False)

    def enabled(self, s, x):
        return (not x['ap_done']) or s[2]

    def settled(self, s, o):
        A, held, _ = s
        bad = []
        if o['tready'] != A:
            bad.append(('ready_ne_active', {'tready': o['tready'], 'active_expected': A}))
        if o['active'] != A:
            bad.append(('active_port', {'active': o['active'], 'active_expected': A}))
        if held is None:
            if o['loaded'] != 0 or o['q'] != 0:
                bad.append(('not_cleared', {'q': o['q'], 'loaded': o['loaded']}))
        else:
            if o['q'] != held:
                bad.append(('q_not_latest_beat', {'q': o['q'], 'expected': held}))
            if o['loaded'] != 1:
                bad.append(('loaded_not_set', {'loaded': o['loaded'], 'q_expected': held}))
        return bad

    def step(self, s, x, pre, post):
        A, held, comp = s
        xfer = 1 if (x['tvalid'] and pre['tready']) else 0       # a beat is transferred in this cycle
        beat = A and xfer                                         # ... while active
        clear = x['ap_reset'] or x['ap_done'] or (x['ap_start'] and not A)   # reset, done, restart
        A2, _open = _next_active(A, x, post['active'])
        if clear:
            held2, comp2 = None, False
        elif beat:
            held2, comp2 = x['tdata'] & self.mask, True
        else:
            held2, comp2 = held, comp
        s2 = (A2, held2, comp2)
        notes = []
        # coverage of the statement's schedule classes (counted by the harness, vacuity guard)
        if beat and not clear:
            notes.append('cov:beat_while_active')
            if held is not None:
                notes.append('cov:back_to_back_beat_overwrites')
        if beat and clear:
            notes.append('cov:beat_with_reset_or_done_same_cycle')
        if x['tvalid'] and not A:
            notes.append('cov:valid_while_inactive')
        if held is not None and x['ap_done']:
            notes.append('cov:cleared_by_done')
        if held is not None and x['ap_reset']:
            notes.append('cov:cleared_by_reset')
        if held is not None and x['ap_start'] and not A and not x['ap_reset'] and not x['ap_done']:
            notes.append('cov:cleared_by_restart')
        if held is not None and x['ap_start'] and A and not clear:
            notes.append('cov:start_while_active_keeps')
        if _open:
            notes.append('cov:start_with_reset_or_done_open')
        return s2, self.settled(s2, post), notes


class Reg2AxiMonitor:
    """register -> stream.  State (A, cap, completed):
    cap        tuple of admissible 'value captured by the latest load pulse' (normally one value;
               a load pulse while the adapter is inactive may or may not be captured - the docs
               only say the adapter is re-armed by ap_start - so both stay admissible until the
               adapter offers one of them, after which it is held to that one)
    completed  a beat was accepted while active since the last restart/reset/done
    """
    name = 'Reg2Axi'
    inputs = ('ap_start', 'ap_reset', 'ap_done', 'load_outs', 'reg_in', 'tready')
    outputs = ('active', 'tvalid', 'tdata', 'tlast', 'tkeep', 'sent')

    def __init__(self, w):
        self.keep = (1 << ((w + 7) // 8)) - 1      # ceil(W/8) valid bytes, constant
        self.init = (0, (), False)

    def enabled(self, s, x):
        return (not x['ap_done']) or s[2]

    def settled(self, s, o):
        A, cap, _ = s
        bad = []
        if o['tlast'] != o['tvalid']:
            bad.append(('tlast_ne_tvalid', {'tlast': o['tlast'], 'tvalid': o['tvalid']}))
        if o['tkeep'] != self.keep:
            bad.append(('tkeep_not_constant_mask', {'tkeep': o['tkeep'], 'expected': self.keep}))
        if o['tvalid'] and o['tdata'] not in cap:
            bad.append(('tdata_not_latest_load', {'tdata': o['tdata'], 'admissible': list(cap)}))
        if o['active'] != A:
            bad.append(('active_port', {'active': o['active'], 'active_expected': A}))
        return bad

    def step(self, s, x, pre, post):
        A, cap, comp = s
        bad, notes = [], []
        accept = 1 if (pre['tvalid'] and x['tready']) else 0      # a beat is accepted in this cycle
        if pre['tvalid'] and not accept and not x['ap_reset'] and not post['tvalid']:
            bad.append(('valid_dropped_before_accept', {'tvalid_before': 1, 'tvalid_after': post['tvalid']}))
        if not pre['sent'] and post['sent'] and not (accept or comp):
            bad.append(('sent_without_accepted_beat', {'sent_before': 0, 'sent_after': 1}))
        if x['ap_reset'] and not x['load_outs'] and post['tvalid']:
            # "keeps VALID asserted until ... it is reset": a reset ends the offer (a load pulse in the reset cycle itself is
            # not ordered by the statement and is left open)
            bad.append(('valid_survives_reset', {'tvalid_before': pre['tvalid'], 'tvalid_after': post['tvalid']}))
        if x['load_outs']:
            if A:
                cap2 = (x['reg_in'],)
            else:
                cap2 = tuple(sorted(set(cap) | {x['reg_in']}))
        else:
            cap2 = cap
        clear = x['ap_reset'] or x['ap_done'] or (x['ap_start'] and not A)
        A2, _open = _next_active(A, x, post['active'])
        comp2 = False if clear else bool(comp or (A and accept))
        s2 = (A2, cap2, comp2)
        bad.extend(self.settled(s2, post))
        if post['tvalid'] and post['tdata'] in cap2:
            s2 = (A2, (post['tdata'],), comp2)
        # coverage of the statement's schedule classes (counted by the harness, vacuity guard)
        if pre['tvalid'] and not accept and not x['ap_reset']:
            notes.append('cov:valid_held_under_backpressure')
        if pre['tvalid'] and not accept and x['load_outs'] and A:
            notes.append('cov:load_while_beat_pending')
        if pre['tvalid'] and x['ap_reset']:
            notes.append('cov:reset_mid_transfer')
        if pre['tvalid'] and not accept and x['ap_done']:
            notes.append('cov:done_mid_transfer')
        if accept and x['load_outs'] and A:
            notes.append('cov:back_to_back_load_with_accept')
        if not pre['sent'] and post['sent']:
            notes.append('cov:sent_rises')
        if x['load_outs'] and not A:
            notes.append('cov:load_while_inactive')
        if not pre['tvalid'] and post['tvalid']:
            notes.append('cov:valid_raised')
        if _open:
            notes.append('cov:start_with_reset_or_done_open')
        # informational (not demanded by the statement)
        if accept and post['tvalid'] and not (x['load_outs'] and A):
            notes.append('accepted_beat_offered_again')
        if accept and A and x['load_outs'] and not post['tvalid']:
            notes.append('load_with_accept_never_offered')
        if pre['tvalid'] and not accept and post['tvalid'] and post['tdata'] != pre['tdata']:
            notes.append('tdata_changed_while_valid_pending')
        return s2, bad, notes
