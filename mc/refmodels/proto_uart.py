"""Reference monitors for C17 (UART link).  Plain Python, written from the property
statement and the 8N1 line format; nothing here imports or calls py4hw.

Time base: one call of `mon_step` per system clock cycle.  All observed wire values are the
values *going into* the clock edge of that cycle (they are outputs of clocked blocks, hence
stable during the cycle).  n = half bit period in system clocks (one bit lasts 2n cycles).

State is a hashable tuple so it can be part of an explored product state:

    ms = (prod, fifo, line, stall, live_line, live_dlv, rx)

    prod       byte the producer is currently offering (valid held high) or None
    fifo       bytes accepted by the serializer and not yet delivered by the deserializer
    line       bytes accepted by the serializer and not yet recovered from `tx` by the soft receiver
    stall      consecutive cycles the consumer has withheld ready while a byte was pending
    live_line  consecutive cycles (line idle high, soft receiver idle, `line` non-empty)
    live_dlv   cycles with ready = 1 and line high since a byte became pending, without a delivery
    rx         soft receiver state (prev_tx, t, acc), t = -1 when waiting for a falling edge

"pending on the receive side" := the soft receiver has completely recovered a frame (stop bit
sampled) whose byte has not been delivered yet, i.e. len(fifo) > len(line).
"""

CLAUSES = ('lost', 'duplicated', 'corrupted', 'reordered', 'spurious',
           'framing_start', 'framing_stop', 'framing_data')


# ---------------------------------------------------------------- soft 8N1 receiver
def rx_init():
    # the line is observed low at power-up; a start needs a 1 -> 0 transition
    return (0, -1, 0)


def rx_step(rx, tx, n):
    """One cycle of the independent receiver.  Waits for a falling edge (cycle t = 0 is the first
    cycle in which the line is seen low), samples at t = (2i+1)*n for i = 0..9: i = 0 start bit
    (0.5 bit periods, must be 0), i = 1..8 data bits LSB first (1.5 .. 8.5 bit periods),
    i = 9 stop bit (9.5 bit periods, must be 1).
    Returns (rx', event) with event None | ('byte', value) | ('err', clause)."""
    prev, t, acc = rx
    if t < 0:
        if prev == 1 and tx == 0:
            return (0, 0, 0), None
        return (tx, -1, 0), None
    t += 1
    if t % (2 * n) == n:
        i = t // (2 * n)
        if i == 0:
            if tx != 0:
                return (tx, -1, 0), ('err', 'framing_start')
        elif i <= 8:
            acc |= tx << (i - 1)
        else:
            if tx != 1:
                return (tx, -1, 0), ('err', 'framing_stop')
            return (1, -1, 0), ('byte', acc)
    return (tx, t, acc), None


# ---------------------------------------------------------------- link monitor
def mon_init():
    return (None, (), (), 0, 0, 0, rx_init())


def pending(ms):
    return len(ms[1]) > len(ms[2])


def mon_step(ms, obs, x, n, live_bound):
    """obs = (s_ready, d_valid, d_v, tx) going into the edge; x = (valid, v, ready) driven by the
    environment in this cycle.  Returns (ms', violation or None, events).
    violation = (base clause, detail dict); events = tuple of ('deliver', b) / ('accept', b) / ('line', b)."""
    prod, fifo, line, stall, ll, ld, rx = ms
    s_ready, d_valid, d_v, tx = obs
    valid, v, ready = x
    was_pending = len(fifo) > len(line)
    viol = None
    ev = ()
    delivered = False
    # delivery first: a byte accepted in this very cycle cannot legitimately be delivered in it
    if d_valid and ready:
        delivered = True
        ev += (('deliver', d_v),)
        if not fifo:
            viol = ('spurious', {'delivered': d_v, 'outstanding': []})
        elif fifo[0] != d_v:
            viol = ('corrupted', {'delivered': d_v, 'outstanding': list(fifo)})
        else:
            fifo = fifo[1:]
    if valid and s_ready:
        ev += (('accept', v),)
        fifo += (v,)
        line += (v,)
        prod = None
    else:
        prod = v if valid else None
    rx, e = rx_step(rx, tx, n)
    if e is not None:
        if e[0] == 'byte':
            ev += (('line', e[1]),)
            if not line:
                viol = viol or ('framing_start', {'line_byte': e[1], 'why': 'a frame was recovered from tx although no accepted byte was awaiting transmission'})
            elif line[0] != e[1]:
                viol = viol or ('framing_data', {'line_byte': e[1], 'accepted': line[0]})
            else:
                line = line[1:]
        else:
            viol = viol or (e[1], {'why': 'start bit not low at 0.5 bit periods' if e[1] == 'framing_start'
                                   else 'stop bit not high at 9.5 bit periods', 'accepted_awaiting_line': list(line)})
    if len(fifo) > 2 or len(line) > 2:
        viol = viol or ('lost', {'why': 'more than two bytes outstanding', 'outstanding': list(fifo), 'awaiting_line': list(line)})
    stall = stall + 1 if (was_pending and not ready) else 0
    if delivered or not was_pending:
        ld = 0
    elif ready and tx:
        ld += 1
    ll = ll + 1 if (line and rx[1] < 0 and tx) else 0
    if ld >= live_bound:
        viol = viol or ('lost', {'why': 'byte framed on the line, then %d cycles with ready = 1 and the line high, never delivered' % ld,
                                 'outstanding': list(fifo)})
    if ll >= live_bound:
        viol = viol or ('lost', {'why': 'byte accepted by the serializer, line idle for %d cycles, never transmitted' % ll,
                                 'awaiting_line': list(line)})
    return (prod, fifo, line, stall, ll, ld, rx), viol, ev


def classify(base, detail, delivered_hist):
    """Refine the base clause with the delivery history (labels only; the verdict is already made)."""
    if base == 'spurious':
        if delivered_hist and detail['delivered'] == delivered_hist[-1]:
            return 'duplicated'
        return 'spurious'
    if base == 'corrupted':
        out = detail['outstanding']
        if detail['delivered'] in out[1:]:
            return 'reordered'      # a later outstanding byte overtook (or replaced) the head
        if delivered_hist and detail['delivered'] == delivered_hist[-1]:
            return 'duplicated'
        return 'corrupted'
    return base
