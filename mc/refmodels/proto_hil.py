"""Reference codecs for the hardware-in-the-loop UART command protocol (C20).

Written from the property statement and the CMDRequest / CMDResponse docstrings, with
plain Python ints, strings and tuples; nothing from py4hw is used.

Command grammar (decoder side, upper-case hex only, one or more digits):
    'I' hex+ '='    select input  n      -> one set_index_in  pulse, index_in  == n
        hex+ '!'    store value   v      -> one set_v_in      pulse, v_in      == v
    'O' hex+ '?'    select output n      -> one set_index_out pulse, index_out == n, THEN one start_resp pulse
    'K' hex+ ';'    n clock pulses       -> exactly n clk_pulse pulses (none for n == 0)
Response (encoder side):  '=' + <size upper-case hex digits of vin, most significant first> + '!'.

Everything here is a pure function over hashable tuples so that the monitor state can be
part of an explicit-state product.
"""

HEX = '0123456789ABCDEF'
TERMINATOR = {'I': '=', 'V': '!', 'O': '?', 'K': ';'}
KIND_OF_TERMINATOR = {v: k for k, v in TERMINATOR.items()}


# ----------------------------------------------------------------------------- command text

def command_text(kind, digits):
    """The characters of one command. kind in I,V,O,K ; digits = non-empty upper-case hex string."""
    assert kind in TERMINATOR and digits and all(ch in HEX for ch in digits)
    return ('' if kind == 'V' else kind) + digits + TERMINATOR[kind]


def parse_stream(text):
    """Split a well-formed command stream into [(kind, number)]. Raises ValueError if ill-formed."""
    out = []
    i = 0
    while i < len(text):
        kind = 'V'
        if text[i] in 'IOK':
            kind = text[i]
            i += 1
        j = i
        while j < len(text) and text[j] in HEX:
            j += 1
        if j == i or j >= len(text) or text[j] != TERMINATOR[kind]:
            raise ValueError('ill-formed command at offset %d of %r' % (i, text))
        out.append((kind, int(text[i:j], 16)))
        i = j + 1
    return out


def all_commands(alphabet, maxdigits):
    """Every command text with 1..maxdigits digits from alphabet, in a fixed order."""
    out = []
    level = ['']
    for _ in range(maxdigits):
        level = [p + d for p in level for d in alphabet]
        for kind in 'IVOK':
            for n in level:
                out.append(command_text(kind, n))
    return out


# ----------------------------------------------------------------------------- decoder monitor
#
# Observation of one cycle = values of the decoder outputs after a clock edge:
#     obs = (set_index_in, set_v_in, set_index_out, start_resp, clk_pulse, index_in, v_in, index_out)
# Monitor state  m = (kind, n, main_seen, start_seen, clk_left)
#     kind None  = no command outstanding (nothing may pulse);  for 'K' n is kept as 0 and clk_left counts down from n
# A command becomes outstanding when its terminator is transferred (issue); everything that pulses
# from then until the next terminator is transferred belongs to it.

M_IDLE = (None, 0, 0, 0, 0)
M_K_DONE = ('K', 0, 0, 0, 0)
_STROBE_KIND = ('I', 'V', 'O')          # obs[0], obs[1], obs[2]
_STROBE_NAME = ('set_index_in', 'set_v_in', 'set_index_out')
_DATA_NAME = ('index_in', 'v_in', 'index_out')


def _cmd(kind, n):
    return 'none' if kind is None else ('a K command' if kind == 'K' else '%s<%X>' % (kind, n))


def mon_unsatisfied(m):
    """None if the outstanding command has produced everything it must, else (clause, text)."""
    kind, n, main, start, left = m
    if kind is None:
        return None
    if kind in 'IVO' and not main:
        return ('missing_pulse', 'no %s pulse for command %s<%X>' % (_STROBE_NAME['IVO'.index(kind)], kind, n))
    if kind == 'O' and not start:
        return ('missing_pulse', 'no start_resp pulse for command O<%X>' % n)
    if kind == 'K' and left:
        return ('clk_pulse_count', 'K command: %d clk_pulse pulse(s) still missing' % left)
    return None


def mon_issue(m, kind, n):
    """Terminator of command (kind, n) transferred.  Returns (m', error)."""
    err = mon_unsatisfied(m)
    if err:
        return m, err
    if kind == 'K':
        # only the number of pulses still due is kept, so that the count-downs of different K<n> share product states
        return ('K', 0, 0, 0, n), None
    return (kind, n, 0, 0, 0), None


def mon_observe(m, prev, cur, widths):
    """One clock edge: prev/cur = observations before/after it. widths = (index_in, v_in, index_out) widths.
    Returns (m', error) ; error = (clause, text) or None."""
    kind, n, main, start, left = m
    for i in range(3):
        if cur[i]:
            rise = not prev[i]
            if kind != _STROBE_KIND[i] or (rise and main):
                return m, ('extra_pulse', '%s pulses but the outstanding command is %s' % (
                    _STROBE_NAME[i], _cmd(kind, n) + (' (already pulsed)' if main else '')))
            if rise:
                main = 1
            want = n & ((1 << widths[i]) - 1)
            if cur[5 + i] != want:
                return m, ('wrong_number', '%s = 0x%X while %s is high, command carried 0x%X (expected 0x%X on a %d-bit wire)' % (
                    _DATA_NAME[i], cur[5 + i], _STROBE_NAME[i], n, want, widths[i]))
    if cur[3]:
        if not prev[3]:
            if kind != 'O' or start:
                return m, ('extra_pulse', 'start_resp pulses but the outstanding command is %s' % (
                    _cmd(kind, n) + (' (already started)' if start else '')))
            if not main:
                return m, ('order', 'start_resp pulses before set_index_out for O<%X>' % n)
            start = 1
        if cur[2]:
            return m, ('order', 'start_resp is high in the same cycle as set_index_out (not "select, then start")')
    if cur[4] and not prev[4]:
        if kind != 'K':
            return m, ('extra_pulse', 'clk_pulse pulses but the outstanding command is %s' % (
                _cmd(kind, n)))
        if left == 0:
            return m, ('clk_pulse_count', 'more clk_pulse pulses than the K command asked for')
        left -= 1
    m2 = (kind, n, main, start, left)
    # forget a command that is complete and whose strobes are all low again (merges product states)
    # (a finished K command stays recognisable so that one pulse too many is reported as a wrong count)
    if kind is not None and not (cur[0] or cur[1] or cur[2] or cur[3] or cur[4]) and mon_unsatisfied(m2) is None:
        m2 = M_K_DONE if kind == 'K' else M_IDLE
    return m2, None


def expected_actions(kind, n, widths):
    """Human-readable expected action list of one command (used in reports/replay)."""
    if kind == 'I':
        return [('set_index_in', n & ((1 << widths[0]) - 1))]
    if kind == 'V':
        return [('set_v_in', n & ((1 << widths[1]) - 1))]
    if kind == 'O':
        return [('set_index_out', n & ((1 << widths[2]) - 1)), ('start_resp', None)]
    return [('clk_pulse', None)] * n


# ----------------------------------------------------------------------------- encoder reference

def encode_response(vin, size):
    """'=' + exactly `size` upper-case hex digits of vin (most significant first; digits above the value are 0,
    digits that do not fit are dropped from the top) + '!'."""
    assert size >= 1
    digits = ''.join(HEX[(vin >> (4 * k)) & 0xF] for k in range(size - 1, -1, -1))
    return '=' + digits + '!'


def classify_char(expected, pos, got):
    """Clause for a transferred character `got` when expected[pos] was due."""
    if pos >= len(expected):
        return 'length'
    if got == expected[pos]:
        return None
    if pos > 0 and got == expected[pos - 1]:
        return 'repeated'
    if pos + 1 < len(expected) and got == expected[pos + 1]:
        return 'skipped'
    return 'wrong_char'
