"""Reference arithmetic for fixed-point formats (C14 blocks, C12 FixedPoint helper).

A format is (sign_bits, int_bits, frac_bits); width w = their sum.  A raw
encoding u in [0, 2^w) denotes  signed:  twos_complement(u) / 2^f
                                unsigned (sign_bits == 0):  u / 2^f.
Plain ints and fractions.Fraction only.
"""
from fractions import Fraction


def width(fmt):
    return fmt[0] + fmt[1] + fmt[2]


def raw_int(u, fmt):
    """The integer the w-bit pattern denotes before scaling."""
    w = width(fmt)
    u %= (1 << w)
    if fmt[0] and u >= (1 << (w - 1)):
        return u - (1 << w)
    return u


def decode(u, fmt):
    return Fraction(raw_int(u, fmt), 1 << fmt[2])


def floor_frac(q):
    return q.numerator // q.denominator


def toward_zero(q):
    n = abs(q.numerator) // q.denominator
    return -n if q < 0 else n


def encode(q, fmt, rounding='floor'):
    """Rescale rational q to fmt: drop what does not fit below (floor or toward zero), wrap what does not fit above."""
    scaled = q * (1 << fmt[2])
    n = floor_frac(scaled) if rounding == 'floor' else toward_zero(scaled)
    return n % (1 << width(fmt))


def representable(q, fmt):
    scaled = q * (1 << fmt[2])
    if scaled.denominator != 1:
        return False
    w = width(fmt)
    n = scaled.numerator
    if fmt[0]:
        return -(1 << (w - 1)) <= n < (1 << (w - 1))
    return 0 <= n < (1 << w)


def formats(max_width, signs=(1,), min_width=1):
    out = []
    for s in signs:
        for i in range(0, max_width + 1):
            for f in range(0, max_width + 1):
                if min_width <= s + i + f <= max_width:
                    out.append((s, i, f))
    return out
