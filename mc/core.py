"""Common machinery: discovery of a py4hw system's dynamic state, snapshot /
restore, explicit-state BFS over the live simulator, replay validation.

Nothing here knows about a particular property.
"""
import collections
import contextlib
import io
import os
import sys

import py4hw
from py4hw.base import Wire, Logic

_ABSENT = ('<absent>',)
_SCALAR = (int, bool, str, float, type(None))


class HarnessError(Exception):
    """The harness itself is broken (not a property violation)."""


@contextlib.contextmanager
def quiet():
    """Silence py4hw's print chatter."""
    old = sys.stdout
    sys.stdout = io.StringIO()
    try:
        yield
    finally:
        sys.stdout = old


_BYSTANDERS = []


def bystander():
    """A second, unrelated HWSystem that is built, given a simulator and clocked once AFTER the system under test got its
    simulator, and stays alive: whatever the simulator or the blocks keep must be per system, not per process.  The last
    few bystanders are kept referenced (two systems alive at once), older ones are dropped."""
    import py4hw
    from py4hw.base import HWSystem      # (the catalogue temporarily replaces py4hw.HWSystem while it builds wrapped designs)
    hw = HWSystem()
    a, b, r, q = hw.wire('by_a', 3), hw.wire('by_b', 3), hw.wire('by_r', 3), hw.wire('by_q', 3)
    py4hw.Constant(hw, 'by_ka', 5, a)
    py4hw.Constant(hw, 'by_kb', 6, b)
    py4hw.And2(hw, 'by_and', a, b, r)
    py4hw.Reg(hw, 'by_reg', r, q)
    sim = hw.getSimulator()
    sim.clk(1)
    if q.get() != 4 or Wire.prepared:
        raise HarnessError('the bystander system itself computes %r (expected 4)' % (q.get(),))
    _BYSTANDERS.append((hw, sim))
    del _BYSTANDERS[:-3]
    return hw


# CPU-time budget of ONE explored graph, seconds (the largest graph of the unchanged tree takes about 100 s in the thorough tier)
SHARD_BUDGET_S = float(os.environ.get('VERIF_GRAPH_BUDGET_S', '900'))      # the runner sets 45 (quick) / 1500 (thorough)


class InterferenceError(Exception):
    """the bystander system, which nobody but this harness touches, did not behave like a register"""


_LOCKSTEP = {}


def interleave(sim):
    """Patch THIS simulator object so that before each of its clk() calls another, unrelated system (one register) gets a
    new input written and is clocked once: two systems of one process driven in lockstep must not disturb each other."""
    from py4hw.base import HWSystem
    import py4hw
    if 'sys' not in _LOCKSTEP:
        hw = HWSystem()
        d, q = hw.wire('ls_d', 4), hw.wire('ls_q', 4)
        n = hw.wire('ls_n', 4)
        py4hw.Not(hw, 'ls_not', d, n)
        py4hw.Reg(hw, 'ls_reg', n, q)
        _LOCKSTEP.update(sys=hw, sim=hw.getSimulator(), d=d, q=q, v=0)
    orig = sim.clk

    def clk(cycles=1, *a, **k):
        L = _LOCKSTEP
        L['v'] = (L['v'] + 5) & 15
        L['d'].put(L['v'])
        L['sim'].clk(1)
        if L['q'].get() != (~L['v']) & 15:
            raise InterferenceError('bystander register shows %r after loading ~%r' % (L['q'].get(), L['v']))
        return orig(cycles, *a, **k)
    sim.clk = clk
    return sim


def all_logic(root):
    """Pre-order list of every Logic in the hierarchy."""
    out = [root]
    for c in root.children.values():
        out.extend(all_logic(c))
    return out


def all_wires(root):
    """Every wire reachable from the hierarchy (created wires + port wires),
    in a deterministic order, each once."""
    seen = {}
    for obj in all_logic(root):
        for w in obj._wires.values():
            seen.setdefault(id(w), w)
        for p in list(obj.inPorts) + list(obj.outPorts) + list(obj.inOutPorts):
            w = p.wire
            if w is not None and hasattr(w, 'value'):
                seen.setdefault(id(w), w)
    return list(seen.values())


def _freeze(v):
    if isinstance(v, _SCALAR):
        return v
    if isinstance(v, (list, tuple)):
        return ('L',) + tuple(_freeze(x) for x in v)
    if isinstance(v, dict):
        try:
            return ('D',) + tuple((k, _freeze(x)) for k, x in v.items())
        except HarnessError:
            raise
    raise TypeError(type(v))


def _is_state_value(v):
    if isinstance(v, _SCALAR):
        return True
    if isinstance(v, (list, tuple)):
        return all(_is_state_value(x) for x in v)
    if isinstance(v, dict):
        return all(isinstance(k, _SCALAR) and _is_state_value(x) for k, x in v.items())
    return False


def _thaw(v):
    if isinstance(v, tuple) and v and v[0] == 'L':
        return [_thaw(x) for x in v[1:]]
    if isinstance(v, tuple) and v and v[0] == 'D':
        return {k: _thaw(x) for k, x in v[1:]}
    return v


_STRUCT_ATTRS = {'name', 'parent', 'inPorts', 'outPorts', 'inOutPorts', 'sources', 'sinks',
                 'children', 'clockDriver', '_wires', 'parameters'}


class SysState:
    """Snapshot / restore of the dynamic state of a py4hw system.

    State = value of every wire + every int/bool/str/list/dict-of-those instance
    attribute of every leaf.  `free` = wires the harness pokes (excluded from
    the dedup key, still restored)."""

    def __init__(self, sys_, free=(), extra_objs=()):
        self.sys = sys_
        self.wires = all_wires(sys_)
        free_ids = {id(w) for w in free}
        self.key_idx = [i for i, w in enumerate(self.wires) if id(w) not in free_ids]
        self.leaves = [l for l in sys_.allLeaves() if l is not sys_] + list(extra_objs)
        self.slots = []      # (leaf, attrname)
        self._slotset = set()
        self._dictlen = {}
        # class-level state of the leaves' classes (a list / dict / counter declared on the class and mutated through
        # the instances is state too - and it is shared by every instance of the process)
        self.cslots = []     # (class, attrname)
        seen_cls = set()
        for leaf in self.leaves:
            for cls in type(leaf).__mro__:
                if cls in (Logic, object) or cls in seen_cls:
                    continue
                seen_cls.add(cls)
                for k, v in list(vars(cls).items()):
                    if k.startswith('__') or callable(v) or isinstance(v, (staticmethod, classmethod, property, Wire, Logic)):
                        continue
                    if isinstance(v, (list, dict, set)) and _is_state_value(list(v) if isinstance(v, set) else v):
                        self.cslots.append((cls, k))
        self._discover()

    def _discover(self):
        for leaf in self.leaves:
            d = leaf.__dict__
            self._dictlen[id(leaf)] = len(d)
            for k, v in d.items():
                if k in _STRUCT_ATTRS or (id(leaf), k) in self._slotset:
                    continue
                if isinstance(v, (Wire, Logic)) or callable(v):
                    continue
                if _is_state_value(v):
                    self._slotset.add((id(leaf), k))
                    self.slots.append((leaf, k))

    def snapshot(self):
        if Wire.prepared:
            raise HarnessError('Wire.prepared not empty at snapshot')
        for leaf in self.leaves:
            if len(leaf.__dict__) != self._dictlen[id(leaf)]:
                self._discover()
                break
        wv = tuple(w.value for w in self.wires)
        if self.cslots:
            wv += (('CLS',) + tuple(_freeze(sorted(v, key=repr)) if isinstance(v, set) else _freeze(v)
                                    for v in (vars(c).get(k) for c, k in self.cslots)),)
        av = []
        for leaf, k in self.slots:
            v = leaf.__dict__.get(k, _ABSENT)
            av.append(v if isinstance(v, _SCALAR) or v is _ABSENT else _freeze(v))
        return (wv, tuple(av))

    def key(self, snap):
        wv, av = snap
        return (tuple(wv[i] for i in self.key_idx) + tuple(wv[len(self.wires):]), av)

    def restore(self, snap):
        wv, av = snap
        for w, v in zip(self.wires, wv):
            w.value = v
        if self.cslots and len(wv) > len(self.wires):
            for (c, k), fv in zip(self.cslots, wv[len(self.wires)][1:]):
                cur, val = vars(c).get(k), _thaw(fv)
                if isinstance(cur, list):
                    cur[:] = val                 # in place: the instances keep sharing the one object
                elif isinstance(cur, dict):
                    cur.clear()
                    cur.update(val)
                elif isinstance(cur, set):
                    cur.clear()
                    cur.update(val)
        n = len(av)
        for i, (leaf, k) in enumerate(self.slots):
            v = av[i] if i < n else _ABSENT
            if v is _ABSENT:
                leaf.__dict__.pop(k, None)
            else:
                leaf.__dict__[k] = _thaw(v) if isinstance(v, tuple) else v
        reset_prepared()


def reset_prepared():
    """empty the simulator's global list of prepared wires without assuming its container type"""
    p = Wire.prepared
    if hasattr(p, 'clear'):
        p.clear()
    else:
        Wire.prepared = []


def undriven_inputs(sys_):
    """Wires of the hierarchy that no primitive drives (the harness pokes them).
    The HWSystem's own clk wire is excluded."""
    out = []
    for w in all_wires(sys_):
        if isinstance(w, py4hw.BidirWire):
            continue
        if w.source is None and not (w.parent is sys_ and w.name == 'clk'):
            out.append(w)
    return out


def vectors(widths):
    """All input vectors for the given list of widths (tuples), simplest first."""
    if not widths:
        yield ()
        return
    import itertools
    yield from itertools.product(*[range(1 << w) for w in widths])


def check_widths(sys_state_or_wires):
    """C06 monitor: returns list of (wire path, value, width) that violate 0<=v<2^w."""
    wires = sys_state_or_wires.wires if isinstance(sys_state_or_wires, SysState) else sys_state_or_wires
    bad = []
    for w in wires:
        v = w.value
        if type(v) is not int and type(v) is not bool or v < 0 or v >> w.width:
            bad.append((w.getFullPath(), repr(v), w.width))
    return bad


class Explorer:
    """Breadth-first explicit-state search over a live py4hw system.

    build()         -> context object `c` with attributes: sys, sim, free (list of poked wires);
                       anything else the callbacks need (reference model etc.)
    inputs(c)       -> iterable of input vectors enabled in the current state (tuple per free wire),
                       or of arbitrary hashable 'choices' if apply_choice is given
    step(c, x)      -> apply choice x (default: poke free wires, sim.clk(1))
    extra_state(c)  -> hashable: reference-model / monitor state that is part of the product state
    set_extra(c, e) -> restore that
    check(c, x)     -> None or a violation detail (dict) after the step
    """

    def __init__(self, build, inputs, check, step=None, extra_state=None, set_extra=None,
                 pre_check=None, max_states=200000, max_depth=None, validate_every=1,
                 monitor_widths=True, extra_objs=None, key_fn=None):
        self.build = build
        self.inputs = inputs
        self.check = check
        self.step = step or self._default_step
        self.extra_state = extra_state or (lambda c: None)
        self.set_extra = set_extra or (lambda c, e: None)
        self.pre_check = pre_check
        self.max_states = max_states
        self.max_depth = max_depth
        self.validate_every = max(1, validate_every)
        self.monitor_widths = monitor_widths
        self.extra_objs = extra_objs
        self.key_fn = key_fn
        # results
        self.states = 0
        self.transitions = 0
        self.validated = 0
        self.capped = False
        self.closed = False
        self.depth = 0
        self.violations = []     # (kind, trace, detail)
        self.width_violations = []
        self.outcomes = set()
        self.sample_traces = []

    @staticmethod
    def _default_step(c, x):
        for w, v in zip(c.free, x):
            w.put(v)
        c.sim.clk(1)

    def _mk(self):
        with quiet():
            c = self.build()
        eo = self.extra_objs(c) if self.extra_objs else ()
        st = SysState(c.sys, free=c.free, extra_objs=eo)
        return c, st

    def run(self, stop_on_first=True):
        c, st = self._mk()
        self.c, self.st = c, st
        if self.pre_check:
            d = self.pre_check(c)
            if d is not None:
                self.violations.append(('initial', [], d))
                if stop_on_first:
                    return self
        init = (st.snapshot(), self.extra_state(c))
        k0 = self._key(st, init)
        seen = {k0: None}            # key -> (parent key, choice)
        frontier = collections.deque([(init, k0, 0)])
        self.states = 1
        order = [k0]
        import time
        t_end = time.process_time() + SHARD_BUDGET_S
        while frontier:
            if self.states % 512 == 0 and time.process_time() > t_end:
                # CPU-time budget of one graph (a changed implementation with a hidden counter can make a graph that closes in
                # seconds practically infinite): stop, report what was found so far, evidence says capped.  CPU time of this
                # shard process, not wall-clock time: what is explored does not depend on how busy the machine is
                self.capped = True
                self.budget_exhausted = True
                break
            (snap, ex), k, depth = frontier.popleft()
            self.depth = max(self.depth, depth)
            if self.max_depth is not None and depth >= self.max_depth:
                self.capped = True
                continue
            st.restore(snap)
            self.set_extra(c, ex)
            choices = list(self.inputs(c))
            for x in choices:
                st.restore(snap)
                self.set_extra(c, ex)
                try:
                    with quiet():
                        self.step(c, x)
                except HarnessError:
                    raise
                except Exception as e:
                    # the code under test raised on a stimulus of the alphabet (the harness's own steps do not raise):
                    # nothing defined happened on this edge
                    import traceback
                    tb = traceback.extract_tb(e.__traceback__)
                    where = ['%s:%d %s' % (f.filename.split('/')[-1], f.lineno, f.name) for f in tb[-3:]]
                    if tb and '/mc/' in tb[-1].filename and not isinstance(e, InterferenceError):
                        raise
                    reset_prepared()
                    self.violations.append(('step', self._trace(seen, k) + [x],
                                            {'sigkey': 'raised', 'error': repr(e)[:200], 'where': where}))
                    if stop_on_first:
                        return self
                    continue
                self.transitions += 1
                if self.monitor_widths:
                    bad = check_widths(st)
                    if bad:
                        self.width_violations.append((self._trace(seen, k) + [x], bad))
                d = self.check(c, x)
                if d is not None:
                    self.violations.append(('step', self._trace(seen, k) + [x], d))
                    if stop_on_first:
                        return self
                    continue
                if getattr(c, 'skip', False):
                    # the check marked this transition as outside the property's domain: not expanded
                    c.skip = False
                    continue
                nxt = (st.snapshot(), self.extra_state(c))
                nk = self._key(st, nxt)
                if nk not in seen:
                    if self.states >= self.max_states:
                        self.capped = True
                        continue
                    seen[nk] = (k, x)
                    order.append(nk)
                    self.states += 1
                    frontier.append((nxt, nk, depth + 1))
        self.closed = not self.capped
        self._seen = seen
        self._order = order
        self._validate(seen, order)
        return self

    def _key(self, st, full):
        snap, ex = full
        if self.key_fn:
            return self.key_fn(self.c, st, snap, ex)
        return (st.key(snap), ex)

    def _trace(self, seen, k):
        tr = []
        while seen[k] is not None:
            k, x = seen[k]
            tr.append(x)
        tr.reverse()
        return tr

    def _validate(self, seen, order):
        """Replay BFS-tree paths on freshly built systems; the state key reached must match."""
        picks = order[::self.validate_every]
        if order and order[-1] not in picks:
            picks.append(order[-1])
        for k in picks:
            tr = self._trace(seen, k)
            c2, st2 = self._mk()
            if self.pre_check:
                self.pre_check(c2)
            rbad = None
            for i, x in enumerate(tr):
                with quiet():
                    self.step(c2, x)
                d = self.check(c2, x)
                if d is not None and rbad is None:
                    rbad = (tr[:i + 1], d)
            if rbad is not None:
                # the plain re-execution on fresh objects violates although the snapshot/restore walk did not: the code
                # under test keeps state the snapshot cannot see; the plain run is the reference -> report the violation
                rbad[1]['note'] = 'observed on the plain re-execution of this trace on a freshly built system'
                self.violations.append(('replay', rbad[0], rbad[1]))
                return
            saved_c = self.c
            self.c = c2
            try:
                k2 = self._key(st2, (st2.snapshot(), self.extra_state(c2)))
            finally:
                self.c = saved_c
            if k2 != k:
                # The walk (snapshot/restore of one system) and a plain run on a fresh system disagree.  Either the harness's
                # snapshot misses something (a harness fault), or the code under test keeps state OUTSIDE the system (class
                # attributes, shared default arguments, module tables), so that what a freshly built system does depends on
                # what other systems did before.  Decide by evidence: a second fresh system, built after the first one ran.
                c3, st3 = self._mk()
                init3 = st3.snapshot()
                c4, st4 = self._mk()
                init4 = st4.snapshot()
                for x in tr:
                    with quiet():
                        self.step(c3, x)
                self.c = c3
                try:
                    k3 = self._key(st3, (st3.snapshot(), self.extra_state(c3)))
                finally:
                    self.c = saved_c
                c5, st5 = self._mk()
                init5 = st5.snapshot()
                if k3 != k2 or init3 != init4 or init5 != init4:
                    self.violations.append(('replay', tr, {
                        'sigkey': 'history_dependent',
                        'note': 'two freshly built systems do not behave alike: the power-up state or the result of this '
                                'input sequence depends on what other systems in the process did before',
                        'fresh_runs_agree': k3 == k2, 'power_up_states_agree': init3 == init4 == init5}))
                    return
                raise HarnessError('replay on fresh system diverged from snapshot/restore for trace %r' % (tr,))
            self.validated += 1
            if len(self.sample_traces) < 3 and tr:
                self.sample_traces.append([list(x) if isinstance(x, tuple) else x for x in tr])


def replay_history_dependence(build, free_of, step, trace):
    """Plain replay for a 'history_dependent' violation: three systems are built one after the other, the trace is run on
    the first and the third; power-up snapshots and end states must be pairwise equal.
    build() -> context; free_of(c) -> (system, free wires); step(c, x)."""
    ctxs, inits, ends = [], [], []
    for i in range(3):
        with quiet():
            c = build()
        sys_, free = free_of(c)
        st = SysState(sys_, free=free)
        inits.append(st.snapshot())
        if i != 1:
            for x in trace:
                with quiet():
                    step(c, tuple(x) if isinstance(x, list) else x)
            ends.append(st.key(st.snapshot()))
        ctxs.append(c)
    same_init = inits[0] == inits[1] == inits[2]
    same_end = ends[0] == ends[1]
    return {'trace': trace, 'power_up_states_agree': same_init, 'fresh_runs_agree': same_end,
            'violates': not (same_init and same_end),
            'note': 'a freshly built system must not depend on what other systems in the process did before'}


def replay_trace(build, step, trace, observe):
    """Plain loop, no explorer: rebuild, apply trace, return observations after each step."""
    with quiet():
        c = build()
    obs = [observe(c)]
    for x in trace:
        with quiet():
            step(c, tuple(x) if isinstance(x, list) else x)
        obs.append(observe(c))
    return obs
