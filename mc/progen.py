"""Generator of behavioural py4hw classes for C02 (the transpiler's supported subset),
plus a small interpreter of the generated method bodies that is used ONLY to decide
whether an input sequence stays inside the domain the property states (all intermediate
values non-negative and below 2**32, no division by zero, no negative shift)."""
import ast
import fractions
import itertools

A, B, S, K, PAR = 'self.a.get()', 'self.b.get()', 'self.s', 'self.k', "self.getParameterValue('p')"
ARITH = ['+', '-', '*', '//', '%', '&', '|', '^', '<<', '>>']
CMP = ['==', '!=', '<', '<=', '>', '>=']
BOOL = ['and', 'or']


def exprs(tier, seq=True):
    """list of expression source strings"""
    s = S if seq else B
    pairs = [(A, B), (B, A), (A, K), (s, A), (A, '1'), (A, '2'), (A, PAR)]
    out = []
    for op in ARITH + CMP + BOOL:
        for x, y in pairs:
            out.append('(%s %s %s)' % (x, op, y))
    out += ['(~%s)' % A, '(not %s)' % A, '(not (%s == %s))' % (A, B), '((~%s) & 3)' % A]
    for c in ('%s == %s' % (A, B), A, '%s < 2' % A):
        for x, y in ((A, B), ('1', '0'), (s, K)):
            out.append('(%s if %s else %s)' % (x, c, y))
    # depth 2 in the quick tier: right-nested operand with the same non-associative operator, comparison against a
    # nested bitwise/arithmetic operator (precedence), three- and five-operand and/or chains
    for op in ['-', '//', '%', '<<', '>>']:
        out.append('(%s %s (%s %s 1))' % (B, op, A, op))
        out.append('((%s %s %s) %s 1)' % (B, op, A, op))
    for cmpop in ['==', '<', '>=']:
        for inner in ['&', '|', '+', '>>']:
            out.append('(%s %s (%s %s %s))' % (B, cmpop, A, inner, B))
            out.append('((%s %s %s) %s %s)' % (A, inner, B, cmpop, B))
    out.append('((%s & 2) or (%s + 1))' % (A, B))
    out.append('((%s + 1) and (%s | 2))' % (A, B))
    out.append('((%s >> 1) or (%s & 1) or (%s * 2))' % (A, B, A))
    out.append('(%s or %s or %s)' % (A, B, K))
    out.append('(%s and %s and %s)' % (A, B, K))
    out.append('(%s == 0 or %s == 0 or %s == 3 or %s == 1 or %s == 2)' % (A, B, A, B, A))
    if tier == 'thorough':
        # depth 2: every operator pair in both nesting positions
        inner_pairs = [(A, B), (s, '1')]
        for op1 in ARITH + CMP + BOOL:
            for op2 in ARITH + CMP:
                for x, y in inner_pairs:
                    out.append('((%s %s %s) %s %s)' % (x, op2, y, op1, K))
                    out.append('(%s %s (%s %s %s))' % (B, op1, x, op2, y))
    return out


# constructs outside the transpiler's subset: each must be refused, or - if text is returned - behave like the Python
PROBES = ['((%s + %s) / 2 > %s)' % (A, B, K), '(%s / 2)' % A, '((%s + 1) / (%s + 1) >= 1)' % (A, B), '(%s ** 2)' % A, '(2 ** %s)' % A,
          '(%s < %s < %s)' % (A, B, K), '(%s == %s == 1)' % (A, B), '(0 < %s <= %s)' % (A, B), '(1 != %s != %s)' % (A, B),
          'min(%s, %s)' % (A, B), 'max(%s, %s)' % (A, K), 'abs(%s)' % A, '(+%s)' % A, '(%s in (1, 2))' % A]

WIDE = [['self.q.prepare(self.a.get() & 0xFFFFFFFFF0)'],
        ['self.q.prepare(self.a.get() | 0x100000000)'],
        ['if (self.a.get() > 0x80000000):', '    self.q.prepare(self.b.get())', 'else:', '    self.q.prepare(0xABCDEF0123)'],
        ['self.q.prepare(self.b.get() ^ 0x80000000)'],
        ['self.q.prepare(4294967296)'],
        ['if (self.a.get() == 0xFFFFFFFFFF):', '    self.q.prepare(2147483648)', 'else:', '    self.q.prepare(2147483647)']]

CLOCK_TEMPLATES = {
    'T1': ['self.q.prepare({E})'],
    'T2': ['self.s = {E}', 'self.q.prepare(self.s)'],
    'T3': ['t = {E}', 'self.q.prepare(t + 1)'],
    'T5': ['if ({E} > 1):', '    self.q.prepare({E})', 'else:', '    self.q.prepare(self.b.get())'],
}
PROP_TEMPLATES = {
    'P1': ['self.q.put({E})'],
    'P3': ['t = {E}', 'self.q.put(t)'],
}

# statement-structure programs (state machines); bodies of clock()
STRUCT = {
    'aug': [['self.s %s= self.a.get()' % op, 'self.q.prepare(self.s)'] for op in ['+', '-', '*', '|', '&', '^', '<<', '>>', '//', '%']],
    'ifelif': [
        ['if (self.s == 0):', '    self.s = 1', '    self.q.prepare(1)', 'elif (self.s == 1):', '    if (self.a.get() == 1):',
         '        self.s = 2', '    else:', '        self.q.prepare(self.b.get())', 'else:', '    self.s = 0', '    self.q.prepare(0)'],
        ['if (self.a.get()):', '    if (self.b.get()):', '        self.s = self.s + 1', '    else:', '        self.s = 0',
         'self.q.prepare(self.s)'],
        ['if (self.a.get() == 1 and self.b.get() == 1):', '    self.q.prepare(3)', 'elif (self.a.get() == 1 or self.b.get() == 2):',
         '    self.q.prepare(2)', 'elif (not self.a.get()):', '    self.q.prepare(1)'],
        ['if (self.s < 3):', '    self.s += 1', 'else:', '    self.s = 0', 'if (self.s == 2):', '    self.q.prepare(self.a.get())'],
    ],
    'match': [
        ['match self.s:', '    case 0:', '        self.s = 1', '        self.q.prepare(1)', '    case 1:', '        self.s = 2',
         '        self.q.prepare(self.a.get())', '    case _:', '        self.s = 0', '        self.q.prepare(0)'],
        ['match self.a.get():', '    case 0:', '        self.q.prepare(self.b.get())', '    case 1:', '        self.q.prepare(2)',
         '    case _:', '        self.q.prepare(3)'],
        ['match self.s:', '    case 0:', '        self.s = 1', '    case 1:', '        self.s = 0', '        self.q.prepare(self.b.get())'],
        ['match self.s:', '    case 0 if self.a.get() == 1:', '        self.s = 1', '    case 0:', '        self.s = 2', '    case 1:',
         '        self.s = 0', '    case _:', '        self.s = 0', 'self.q.prepare(self.s)'],
        ['match self.s:', '    case 0 | 1:', '        self.s = self.s + 1', '    case _:', '        self.s = 0', 'self.q.prepare(self.s)'],
    ],
    'dangling': [
        # outer if with else whose then-branch is exactly one nested if without else (dangling-else shape)
        ['if (self.a.get() == 1):', '    if (self.b.get() == 1):', '        self.s = 1', 'else:', '    self.s = 2', 'self.q.prepare(self.s)'],
        ['if (self.a.get() > 1):', '    if (self.b.get() > 0):', '        self.q.prepare(1)', 'elif (self.a.get() == 1):', '    self.q.prepare(2)',
         'else:', '    self.q.prepare(3)'],
        ['if (self.s == 0):', '    if (self.a.get()):', '        if (self.b.get()):', '            self.s = 1', 'else:', '    self.s = 0',
         'self.q.prepare(self.s + 1)'],
    ],
    'namedcase': [
        # case values kept in attributes
        ['match self.s:', '    case self.c0 if self.a.get() == 1:', '        self.s = 1', '    case self.c0:', '        self.s = 2',
         '    case self.c1:', '        self.s = 0', '    case _:', '        self.s = 0', 'self.q.prepare(self.s)'],
        ['match self.s:', '    case self.c0:', '        self.s = self.c1', '    case self.c1:', '        self.s = self.c0',
         'self.q.prepare(self.s + self.a.get())'],
        ['match self.s:', '    case self.c1 if self.b.get() == 0:', '        self.s = 0', '    case self.c0:', '        self.s = 1',
         'self.q.prepare(self.s)'],
        # guarded case followed by an unguarded case for the same named value, no default
        ['match self.s:', '    case self.c0 if self.a.get() == 1:', '        self.s = 1', '    case self.c0:', '        self.s = 2',
         '    case self.c1:', '        self.s = 0', 'self.q.prepare(self.s)'],
        ['match self.s:', '    case 1 if self.a.get() > 0:', '        self.s = 0', '    case 1:', '        self.s = 2', '    case 0:',
         '        self.s = 1', '    case 2:', '        self.s = 1', 'self.q.prepare(self.s)'],
    ],
    'override': [
        # default first, override later: the LAST prepare of a port in one clock() wins (as the last non-blocking assignment does)
        ['self.q.prepare(0)', 'if (self.a.get() == 1):', '    self.q.prepare(1)'],
        ['self.q.prepare(self.b.get())', 'if (self.s == 1):', '    self.q.prepare(3)', 'self.s = self.a.get() & 1'],
        ['self.q.prepare(1)', 'self.q.prepare(self.a.get())'],
        ['self.q.prepare(self.a.get())', 'if (self.b.get() > 1):', '    self.q.prepare(self.s)', '    self.s = self.a.get()',
         'elif (self.b.get() == 1):', '    self.q.prepare(0)'],
        ['if (self.a.get() > 0):', '    self.q.prepare(2)', 'if (self.b.get() > 0):', '    self.q.prepare(self.b.get())'],
    ],
    'doc': [
        # a method that starts with a (multi-line) docstring
        ['\"\"\"accumulates a', 'second line; with begin end and other words that are no Verilog', '', 'last line\"\"\"',
         'self.s = self.s + self.a.get()', 'self.q.prepare(self.s & 7)'],
        ['\"\"\"one line only\"\"\"', 'self.q.prepare(self.a.get() + self.b.get())'],
    ],
    'boolstate': [
        # a state attribute initialised with False / True that later holds multi-bit values (a bool is an int in Python)
        ['self.f = self.a.get()', 'self.q.prepare(self.f + 1)'],
        ['if (self.f):', '    self.q.prepare(self.f)', 'else:', '    self.q.prepare(7)', 'self.f = self.b.get() & 3'],
        ['self.q.prepare(self.f + self.s)', 'self.f = self.f + self.a.get()', 'self.s = self.f & 1'],
    ],
    'ternary': [
        ['self.s = 1 if self.a.get() else 0', 'self.q.prepare(self.s)'],
        ['self.q.prepare(self.a.get() if self.b.get() == 1 else self.k)'],
        ['t = self.b.get() if self.a.get() > 1 else self.s', 'self.s = t', 'self.q.prepare(t)'],
        # a ternary as an OPERAND of an arithmetic / comparison / boolean operator, of another ternary and of an if condition
        ['t = 1 + (self.a.get() if self.b.get() == 1 else 0)', 'self.s = t & 3', 'self.q.prepare(t)'],
        ['t = (self.a.get() if self.b.get() == 1 else 0) + 1', 'self.q.prepare(t)'],
        ['if ((self.a.get() if self.a.get() else self.b.get()) > 1):', '    self.s = 2', 'else:', '    self.s = 0', 'self.q.prepare(self.s)'],
        ['t = (1 if self.a.get() else 2) * (2 if self.b.get() else 1)', 'self.q.prepare(t)'],
        ['t = 3 - (self.a.get() if self.b.get() > 1 else 1)', 'self.s = t', 'self.q.prepare(self.s)'],
        ['t = 1 if (self.a.get() if self.b.get() else 0) else 2', 'self.q.prepare(t)'],
        ['t = (self.s if self.a.get() == 0 else self.b.get()) == 1', 'self.s = self.a.get()', 'self.q.prepare(t)'],
        ['t = 4 | (self.a.get() if self.b.get() else self.s) & 1', 'self.s = self.b.get()', 'self.q.prepare(t)'],
        ['if (self.a.get() == 1 and (self.b.get() if self.s else 1) > 1):', '    self.s = 0', 'else:', '    self.s = 1', 'self.q.prepare(self.s)'],
    ],
    'tuple': [
        # tuple assignment (all right-hand sides are evaluated first): refused, or translated with that meaning
        ['self.s, t = self.a.get(), self.s', 'self.q.prepare(t)'],
        ['t = self.b.get()', 'self.s, t = t, self.s', 'self.q.prepare((t + self.s) & 7)'],
        ['t, u = self.a.get(), self.b.get()', 'u, t = t, u + t', 'self.q.prepare(u)', 'self.s = t & 3'],
    ],
    'capture': [
        # a capture pattern as the last case: the name is bound to the matched value
        ['match self.a.get():', '    case 0:', '        self.s = 1', '    case other:', '        self.s = (self.s + other) & 3', 'self.q.prepare(self.s)'],
        ['match self.s:', '    case 1:', '        self.s = 2', '    case rest:', '        self.s = 1', '        self.q.prepare(rest)'],
    ],
    'twoinst': [
        # a constructor argument kept in an attribute and used as a constant: two instances with different arguments in one design
        ['self.q.prepare(self.a.get() + self.k)'],
        ['self.s = (self.s + self.k) & 7', 'self.q.prepare(self.s)'],
        ['if (self.a.get() == self.k):', '    self.q.prepare(1)', 'else:', '    self.q.prepare(self.b.get() + self.k)'],
    ],
    'strstate': [
        # state kept in a string / None attribute (set in the constructor): refused, or text that is legal and behaves alike
        ["if (self.mode == 'off'):", "    self.mode = 'on'", '    self.q.prepare(1)', 'else:', "    self.mode = 'off'", '    self.q.prepare(self.a.get())'],
        ['if (self.last is None):', '    self.last = self.a.get()', 'self.q.prepare(self.last)'],
    ],
    'locals': [
        ['t = self.a.get() + self.b.get()', 'u = t * 2', 'self.q.prepare(u + self.s)', 'self.s = t'],
        ['t = self.a.get()', 't = t + 1', 'self.q.prepare(t)'],
    ],
}

WIDTHS_Q = [(2, 2, 3)]
WIDTHS_T = [(1, 1, 1), (2, 2, 3), (3, 2, 4), (2, 3, 2)]


def programs(tier):
    """-> list of program descriptors (dicts, JSON-able)"""
    out = []
    widths = WIDTHS_T if tier == 'thorough' else WIDTHS_Q
    for wa, wb, wq in widths:
        base = {'wa': wa, 'wb': wb, 'wq': wq, 's0': 1, 'k': 2, 'p': 3}
        first = (wa, wb, wq) == widths[0] or (wa, wb, wq) == (2, 2, 3)
        for tname, tmpl in CLOCK_TEMPLATES.items():
            for e in exprs(tier if first else 'quick', seq=True):
                out.append(dict(base, kind='clock', family=tname, body=[l.replace('{E}', e) for l in tmpl]))
        for tname, tmpl in PROP_TEMPLATES.items():
            for e in exprs(tier if first else 'quick', seq=False):
                out.append(dict(base, kind='propagate', family=tname, body=[l.replace('{E}', e) for l in tmpl]))
        for fam, bodies in STRUCT.items():
            for body in bodies:
                out.append(dict(base, kind='clock', family=fam, body=body))
        if first:
            # a behavioural class that shares ONE module name between its instances and reads a Verilog parameter: two instances
            # with different parameter values in one hierarchy (c02.build_gen builds the pair)
            out.append(dict(base, kind='clock', family='sharedparam', p=2, body=["self.q.prepare(self.a.get() + self.getParameterValue('p'))"]))
            out.append(dict(base, kind='clock', family='sharedparam', p=2,
                            body=["self.s = (self.s + self.getParameterValue('p')) & 7", 'self.q.prepare(self.s)']))
            # ports wider than 32 bits with constants of 32 bits and more (no local or state variable exceeds 32 bits)
            wide = dict(base, wa=40, wb=40, wq=40)
            for body in WIDE:
                out.append(dict(wide, kind='clock', family='wide', body=body))
            out.append(dict(wide, kind='propagate', family='wide', body=['self.q.put((self.a.get() & 0xFF00000000) | 0x80000001)']))
            for e in PROBES:
                for tname in ('T1', 'T5'):
                    out.append(dict(base, kind='clock', family='probe', body=[l.replace('{E}', e) for l in CLOCK_TEMPLATES[tname]]))
                out.append(dict(base, kind='propagate', family='probe', body=['self.q.put(%s)' % e.replace(S, B)]))
    return out


def source(p, cname):
    ind = '        '
    lines = ['class %s(Logic):' % cname,
             '    def __init__(self, parent, name, a, b, q, k):',
             '        super().__init__(parent, name)',
             "        self.a = self.addIn('a', a)",
             "        self.b = self.addIn('b', b)",
             "        self.q = self.addOut('q', q)",
             '        self.k = k',
             "        self.addParameter('p', %s)" % ('k' if p.get('family') == 'sharedparam' else '%d' % p['p'])]
    if p['kind'] == 'clock':
        lines.append('        self.s = %d' % p['s0'])
        if p.get('family') == 'boolstate':
            lines.append('        self.f = False')
        if p.get('family') == 'strstate':
            lines.append("        self.mode = 'off'")
            lines.append('        self.last = None')
        if p.get('family') == 'namedcase':
            lines.append('        self.c0 = 0')
            lines.append('        self.c1 = 1')
    if p.get('family') == 'sharedparam':
        lines.append('')
        lines.append('    def structureName(self):')
        lines.append("        return 'Shared_%s'" % cname)
    lines.append('')
    lines.append('    def %s(self):' % p['kind'])
    for l in p['body']:
        lines.append(ind + l)
    return '\n'.join(lines) + '\n'


# ------------------------------------------------------------------ domain interpreter

class OutOfDomain(Exception):
    pass


LIMIT = 1 << 32


def _chk(v):
    if isinstance(v, bool):
        return v
    if v < 0 or v >= LIMIT:
        raise OutOfDomain('value %d' % v)
    return v


class Interp:
    """Executes a generated method body with Python semantics on an environment
    {a, b, s, k, p} and decides domain membership: the property only speaks about input
    sequences 'whose intermediate values stay inside the domain Verilog gives them'.  Verilog
    gives every intermediate a width (IEEE 1364 5.4: the context width max(L(lhs), L(operands))
    for context-determined operands, the self-determined width for shift amounts, comparison
    operands and conditions; wires have their port width, integers / literals / parameters 32
    bits) and no sign.  OutOfDomain is raised when the Python value of any sub-expression is
    negative or does not fit the width Verilog evaluates it at, or an operation is undefined.
    Returns (new s, value written to q or None)."""

    def __init__(self, p):
        self.p = p
        self.tree = ast.parse('\n'.join(p['body']))
        self.wa, self.wb, self.wq = p['wa'], p['wb'], p['wq']

    def run(self, a, b, s, extra=None):
        self.env = {'a': a, 'b': b, 's': s, 'k': self.p['k'], 'p': self.p['p'], 'c0': 0, 'c1': 1}
        if extra:
            self.env.update(extra)
        self.loc = {}
        self.q = None
        try:
            self.block(self.tree.body)
        except NotImplementedError:
            if self.p.get('family') in ('probe', 'strstate'):
                raise OutOfDomain('construct not modelled by the domain interpreter')
            raise
        return self.env['s'], self.q

    def block(self, body):
        for st in body:
            self.stmt(st)

    # ---- widths (self-determined)
    def sw(self, e):
        if isinstance(e, (ast.Constant, ast.Name)):
            return 32
        if isinstance(e, ast.Attribute):
            return 32
        if isinstance(e, ast.Call):
            f = e.func
            if isinstance(f, ast.Name):
                return max([self.sw(x) for x in e.args] + [1])
            if f.attr == 'get':
                return {'a': self.wa, 'b': self.wb}[f.value.attr]
            return 32
        if isinstance(e, ast.BinOp):
            if isinstance(e.op, (ast.LShift, ast.RShift)):
                return self.sw(e.left)
            return max(self.sw(e.left), self.sw(e.right))
        if isinstance(e, ast.UnaryOp):
            return 1 if isinstance(e.op, ast.Not) else self.sw(e.operand)
        if isinstance(e, ast.Compare):
            return 1
        if isinstance(e, ast.BoolOp):
            return max(self.sw(x) for x in e.values)
        if isinstance(e, ast.IfExp):
            return max(self.sw(e.body), self.sw(e.orelse))
        raise NotImplementedError(ast.dump(e))

    def top(self, e, target_width):
        return self.ev(e, max(target_width, self.sw(e)))

    def stmt(self, st):
        if isinstance(st, ast.Assign) and isinstance(st.targets[0], ast.Tuple):
            # a, b = x, y: every right-hand side is evaluated before any target is written
            tg, val = st.targets[0], st.value
            if not isinstance(val, ast.Tuple) or len(val.elts) != len(tg.elts):
                raise NotImplementedError('unpacking')
            vs = [self.top(e, 32) for e in val.elts]
            for t, v in zip(tg.elts, vs):
                self.assign(t, v)
        elif isinstance(st, ast.Assign):
            v = self.top(st.value, 32)
            self.assign(st.targets[0], v)
        elif isinstance(st, ast.AugAssign):
            fake = ast.BinOp(left=st.target, op=st.op, right=st.value)
            v = self.top(fake, 32)
            self.assign(st.target, v)
        elif isinstance(st, ast.If):
            if self.top(st.test, 1):
                self.block(st.body)
            else:
                self.block(st.orelse)
        elif isinstance(st, ast.Match):
            subj = self.top(st.subject, 1)
            for case in st.cases:
                if self.match(case.pattern, subj) and (case.guard is None or self.top(case.guard, 1)):
                    self.block(case.body)
                    break
        elif isinstance(st, ast.Expr) and isinstance(st.value, ast.Constant):
            pass            # docstring
        elif isinstance(st, ast.Expr):
            call = st.value
            assert isinstance(call, ast.Call) and call.func.attr in ('prepare', 'put')
            v = self.top(call.args[0], self.wq)
            if isinstance(v, fractions.Fraction):
                raise OutOfDomain('a float (the result of /) cannot be put on a wire')
            self.q = int(v)
        else:
            raise NotImplementedError(ast.dump(st))

    def match(self, pat, subj):
        if isinstance(pat, ast.MatchValue):
            return subj == self.top(pat.value, 1)
        if isinstance(pat, ast.MatchAs) and pat.pattern is None:
            if pat.name is not None:
                self.loc[pat.name] = int(subj)       # capture pattern: the name is bound to the subject
            return True
        if isinstance(pat, ast.MatchOr):
            return any(self.match(q, subj) for q in pat.patterns)
        raise NotImplementedError(ast.dump(pat))

    def assign(self, tgt, v):
        if isinstance(v, fractions.Fraction):
            raise NotImplementedError('float in a variable')
        if isinstance(tgt, ast.Attribute):
            self.env[tgt.attr] = int(v)
        else:
            self.loc[tgt.id] = int(v)

    def fit(self, v, W):
        if isinstance(v, bool):
            return v
        if v != int(v):
            # a non-integer quotient: not a width question; non-negative and below 2**32 is all the statement asks
            if v < 0 or v >= LIMIT:
                raise OutOfDomain('value')
            return v
        if v < 0 or v >= (1 << min(W, 32)) or v >= LIMIT:
            raise OutOfDomain('value %d does not fit %d bits' % (v, W))
        return v

    def binop(self, op, x, y):
        if op is ast.Div:
            if y == 0:
                raise OutOfDomain('div0')
            return fractions.Fraction(x) / fractions.Fraction(y)
        if isinstance(x, fractions.Fraction) or isinstance(y, fractions.Fraction):
            raise NotImplementedError('float operand')
        x, y = int(x), int(y)
        if op is ast.Pow:
            if y > 40:
                raise OutOfDomain('pow')
            return x ** y
        if op is ast.Add:
            return x + y
        if op is ast.Sub:
            return x - y
        if op is ast.Mult:
            return x * y
        if op is ast.FloorDiv:
            if y == 0:
                raise OutOfDomain('div0')
            return x // y
        if op is ast.Mod:
            if y == 0:
                raise OutOfDomain('mod0')
            return x % y
        if op is ast.BitAnd:
            return x & y
        if op is ast.BitOr:
            return x | y
        if op is ast.BitXor:
            return x ^ y
        if op is ast.LShift:
            if y > 40:
                raise OutOfDomain('shift')
            return x << y
        if op is ast.RShift:
            return x >> y
        raise NotImplementedError(op)

    def ev(self, e, W):
        """value of e evaluated by Verilog at width W (>= its self-determined width)"""
        if isinstance(e, ast.Constant):
            return self.fit(e.value, W)
        if isinstance(e, ast.Name):
            return self.fit(self.loc[e.id], W)
        if isinstance(e, ast.Attribute):
            return self.fit(self.env[e.attr], W)
        if isinstance(e, ast.Call):
            f = e.func
            if isinstance(f, ast.Name) and f.id in ('min', 'max', 'abs'):
                return self.fit({'min': min, 'max': max, 'abs': abs}[f.id](*[self.ev(x, W) for x in e.args]), W)
            if isinstance(f, ast.Name):
                raise NotImplementedError(ast.dump(e))
            if f.attr == 'get':
                return self.env[f.value.attr]
            if f.attr == 'getParameterValue':
                return self.env['p']
            raise NotImplementedError(ast.dump(e))
        if isinstance(e, ast.BinOp):
            if isinstance(e.op, (ast.LShift, ast.RShift)):
                l = self.ev(e.left, W)
                r = self.ev(e.right, self.sw(e.right))
            else:
                l = self.ev(e.left, W)
                r = self.ev(e.right, W)
            return self.fit(self.binop(type(e.op), l, r), W)
        if isinstance(e, ast.UnaryOp):
            if isinstance(e.op, ast.Invert):
                return self.fit(~int(self.ev(e.operand, W)), W)
            if isinstance(e.op, ast.Not):
                return not self.ev(e.operand, self.sw(e.operand))
            if isinstance(e.op, ast.UAdd):
                return self.ev(e.operand, W)
            raise NotImplementedError(ast.dump(e))
        if isinstance(e, ast.Compare):
            # Python semantics of a (possibly chained) comparison: conjunction of the adjacent pairs
            res = True
            left = e.left
            for op, right in zip(e.ops, e.comparators):
                if isinstance(op, (ast.In, ast.NotIn)):
                    l = self.ev(left, self.sw(left))
                    inside = l in [self.ev(x, 32) for x in right.elts]
                    ok = inside if isinstance(op, ast.In) else not inside
                else:
                    w = max(self.sw(left), self.sw(right))
                    l = self.ev(left, w)
                    r = self.ev(right, w)
                    ok = {ast.Eq: l == r, ast.NotEq: l != r, ast.Lt: l < r, ast.LtE: l <= r, ast.Gt: l > r, ast.GtE: l >= r}[type(op)]
                res = res and ok
                left = right
            return res
        if isinstance(e, ast.BoolOp):
            # Python semantics: the selected operand.  The Verilog form is (x) ? (y) : (x): x is evaluated once as a
            # condition (self-determined width) and once as a value (context width), so it must fit both
            if isinstance(e.op, ast.And):
                v = True
                for x in e.values:
                    self.ev(x, self.sw(x))
                    v = self.ev(x, W)
                    if not v:
                        return v
                return v
            v = False
            for x in e.values:
                self.ev(x, self.sw(x))
                v = self.ev(x, W)
                if v:
                    return v
            return v
        if isinstance(e, ast.IfExp):
            c = self.ev(e.test, self.sw(e.test))
            return self.ev(e.body if c else e.orelse, W)
        raise NotImplementedError(ast.dump(e))
