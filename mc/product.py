"""Product exploration: a live py4hw design in lock-step with a reference state
machine (mc.refmodels.*).  All input vectors per step, BFS to closure."""
import types

import py4hw
from . import core


def make_ctx(sys_, ins, outs, model, **kw):
    """ins/outs: ordered lists of (name, wire)."""
    c = types.SimpleNamespace()
    c.sys = sys_
    c.sim = sys_.getSimulator()
    core.bystander()            # another system gets its simulator and runs in between: must not disturb this one
    if c.sim is not None:
        core.interleave(c.sim)  # ... and is clocked in lockstep, between this system's input writes and its clock edge
    c.in_names = [n for n, _ in ins]
    c.free = [w for _, w in ins]
    c.out_names = [n for n, _ in outs]
    c.outs = [w for _, w in outs]
    c.model = model
    c.ms = (False, model.init)      # (at least one edge happened, model state)
    for k, v in kw.items():
        setattr(c, k, v)
    return c


def explore_product(build, max_states=200000, validate_every=1, stop_on_first=True,
                    compare_pre_edge=True, extra_inputs_filter=None, corner=False, max_depth=None):
    """Returns the finished Explorer. build() -> ctx from make_ctx."""

    def all_vectors(c):
        widths = [w.getWidth() for w in c.free]
        if not corner:
            return core.vectors(widths)
        import itertools
        from . import comb
        # wide ports: boundary values only (ports of <= 6 bits keep their full range)
        return itertools.product(*[comb.corner_values(w)[::2] + comb.corner_values(w)[-1:] if w > 6 else range(1 << w) for w in widths])

    def inputs(c):
        started, s = c.ms
        for x in all_vectors(c):
            xd = dict(zip(c.in_names, x))
            if not c.model.enabled(s, xd):
                c.pruned = getattr(c, 'pruned', 0) + 1
                continue
            if extra_inputs_filter and not extra_inputs_filter(c, xd):
                continue
            yield x

    def step(c, x):
        xd = dict(zip(c.in_names, x))
        for w, v in zip(c.free, x):
            w.put(v)
        started, s = c.ms
        c.pre_mismatch = None
        c.pre_got = None
        if compare_pre_edge and started:
            c.sim.propagateAll()
            exp = c.model.out(s, xd)
            got = tuple(w.get() for w in c.outs)
            c.pre_got = got
            if any(e is not None and e != g for e, g in zip(exp, got)):
                c.pre_mismatch = {'when': 'before edge (inputs applied, settled)', 'inputs': xd,
                                  'expected': exp, 'got': got, 'model_state': repr(s)}
        c.sim.clk(1)
        c.ms = (True, c.model.nxt(s, xd))

    def check(c, x):
        if c.pre_mismatch:
            return c.pre_mismatch
        xd = dict(zip(c.in_names, x))
        exp = c.model.out(c.ms[1], xd)
        got = tuple(w.get() for w in c.outs)
        ex.outcomes.add((c.pre_got, got))
        if any(e is not None and e != g for e, g in zip(exp, got)):
            return {'when': 'after edge', 'inputs': xd, 'expected': exp, 'got': got,
                    'outputs': c.out_names, 'model_state': repr(c.ms[1])}
        return None

    ex = core.Explorer(build, inputs, check, step=step,
                       extra_state=lambda c: c.ms,
                       set_extra=lambda c, e: setattr(c, 'ms', e),
                       max_states=max_states, validate_every=validate_every, max_depth=max_depth)
    ex.run(stop_on_first=stop_on_first)
    return ex


def result_from(ex, desc, sig_prefix):
    """Standard shard result dict from a finished Explorer."""
    res = {
        'states': ex.states, 'transitions': ex.transitions,
        'traces_validated_against_impl': ex.validated,
        'configs': 1,
        'capped': ex.capped,
        'closed_graphs': 1 if ex.closed else 0,
        'distinct_outcomes': len(ex.outcomes),
        'pruned': getattr(ex.c, 'pruned', 0),
        'samples': [{'config': desc, 'input_sequence': t} for t in ex.sample_traces[:1]],
        'violations': [],
        'width_violations': [{'trace': [list(x) for x in t], 'bad': b} for t, b in ex.width_violations[:3]],
    }
    for kind, trace, detail in ex.violations:
        res['violations'].append({
            'sig': '%s:%s' % (sig_prefix, detail.get('sigkey', 'mismatch')),
            'shard': desc,
            'trace': [list(x) if isinstance(x, tuple) else x for x in trace],
            'detail': detail,
        })
    return res
