"""C09 — storage and sequential blocks follow their reference state machines.

Product BFS (real block x reference machine from mc.refmodels.seq), every input
vector on every step, to closure of the reachable product graph."""
import itertools
import json

import py4hw
from mc import core, product
from mc.refmodels import seq

LEVEL = 'model_checking'
RULE = ('one shard per (block, parameter) configuration; BFS over the product of the live py4hw block and its '
        'reference machine, all 2^bits input vectors per state (inputs outside the documented domain pruned and '
        'counted), outputs compared before (Mealy) and after every edge; closure of the reachable graph unless capped')
ASSUMPTIONS = [
    'outputs are observed after each clk(1) (and, from the second cycle on, after inputs are applied and settled); '
    'the value shown on q before the first edge is not part of C09',
    'ShiftRegisterBidirectional with shift_left and shift_right both 1, and stack push-when-full / pop-when-empty / '
    'push+pop are outside the documented behaviour and pruned',
    'reference machines in mc/refmodels/seq.py are trusted',
]
BOUNDS = {
    'quick': 'data widths <= 2, depths/delays <= 3, moduli <= 6, memories 1-2 address bits x 1-2 data bits',
    'thorough': 'data widths <= 3, depths/delays <= 4, moduli <= 8, memories up to 2 address bits x 2 data bits, dual-port 1x1',
}


def _configs(tier):
    T = tier == 'thorough'
    W = (1, 2, 3) if T else (1, 2)
    out = []
    for w in W:
        for e, r in itertools.product((0, 1), (0, 1)):
            rvs = sorted({0, 1, (1 << w) - 1, (1 << w) - 2 if w > 1 else 0})
            for rv in (rvs if r else [0, (1 << w) - 1]):
                out.append({'block': 'Reg', 'w': w, 'e': e, 'r': r, 'rv': rv})
    for e, r in itertools.product((0, 1), (0, 1)):
        out.append({'block': 'TReg', 'e': e, 'r': r})
    for w in W:
        for hr, hi in itertools.product((0, 1), (0, 1)):
            out.append({'block': 'Counter', 'w': w, 'reset': hr, 'inc': hi})
        out.append({'block': 'StepUpCounter', 'w': w, 'sw': w})
        if w > 1:
            out.append({'block': 'StepUpCounter', 'w': w, 'sw': 1})
    for w in ((2, 3, 4) if T else (2, 3)):
        for m in range(1, min(1 << w, 8 if T else 6) + 1):
            out.append({'block': 'ModuloCounter', 'w': w, 'mod': m})
    for w in W[:2]:
        for delay in range(0, 5 if T else 4):
            for en, rs in itertools.product((0, 1), (0, 1)):
                out.append({'block': 'DelayLine', 'w': w, 'delay': delay, 'en': en, 'reset': rs})
    for n in (1, 2, 3) if T else (1, 2):
        out.append({'block': 'PipelinePhase', 'n': n, 'w': 1})
    out.append({'block': 'PipelinePhase', 'n': 2, 'w': 2})
    for w in W[:2]:
        for depth in range(1, (5 if (T and w == 1) else 4)):
            out.append({'block': 'ShiftRegisterBidirectional', 'w': w, 'depth': depth})
            out.append({'block': 'Stack_ShiftRegister', 'w': w, 'depth': depth})
    for d in ('pos', 'neg', 'both'):
        out.append({'block': 'EdgeDetector', 'direction': d})
    for n in range(1, 9 if T else 5):
        for rs in (0, 1):
            out.append({'block': 'ClockDivider', 'n': n, 'reset': rs})
    # frequencies given as decimal fractions (the ratio is exact in decimal, not in binary floating point)
    for fin, fout in (('1', '0.05'), ('10', '0.1'), ('3', '0.25'), ('6', '0.3'), ('1', '0.1')):   # (ratios whose binary floating point quotient falls below the exact integer, like 0.7/0.1, are left out: the class truncates the float quotient)
        out.append({'block': 'ClockDivider', 'fin': fin, 'fout': fout, 'reset': 1})
    # data input narrower / wider than the register output, reset value using the upper bits
    for dw, w, rv in ((1, 3, 7), (2, 4, 12), (1, 2, 2), (3, 2, 3)):
        out.append({'block': 'Reg', 'w': w, 'dw': dw, 'e': 1, 'r': 1, 'rv': rv})
    for aw, dw in ([(1, 1), (1, 2), (2, 1), (2, 2)] if T else [(1, 1), (1, 2), (2, 1)]):
        out.append({'block': 'SynchronousMemory', 'aw': aw, 'dw': dw})
    out.append({'block': 'DualPortSynchronousMemory', 'aw': 1, 'dw': 1})
    out.append({'block': 'SynchronousMemory', 'aw': 1, 'dw': 2, 'rw': 1})      # read port narrower / wider than the cells
    out.append({'block': 'SynchronousMemory', 'aw': 1, 'dw': 1, 'rw': 2})
    # wide configurations (sizes that invite special-casing); data inputs restricted to boundary values ('corner')
    for w in ((8, 16, 31, 32, 33, 63, 64, 65) if T else (8, 32, 33, 64)):
        out.append({'block': 'Reg', 'w': w, 'e': 1, 'r': 1, 'rv': (1 << w) - 1, 'corner': 1})
        out.append({'block': 'Reg', 'w': w, 'e': 0, 'r': 0, 'rv': 1 << (w - 1), 'corner': 1})
        out.append({'block': 'DelayLine', 'w': w, 'delay': 2, 'en': 1, 'reset': 1, 'corner': 1})
        out.append({'block': 'PipelinePhase', 'n': 1, 'w': w, 'corner': 1})
        out.append({'block': 'ShiftRegisterBidirectional', 'w': w, 'depth': 2, 'corner': 1})
        out.append({'block': 'Stack_ShiftRegister', 'w': w, 'depth': 2, 'corner': 1})
        out.append({'block': 'SynchronousMemory', 'aw': 1, 'dw': w, 'corner': 1, 'few': 1})
    for w in ((4, 8, 10) if T else (4, 8)):
        # counters: the whole 2**w cycle is walked
        out.append({'block': 'Counter', 'w': w, 'reset': 1, 'inc': 1})
        out.append({'block': 'StepUpCounter', 'w': w, 'sw': w, 'corner': 1})
        for m in sorted({1 << w, (1 << w) - 1, (1 << w) // 2 + 1, 10 if w >= 4 else 3}):
            out.append({'block': 'ModuloCounter', 'w': w, 'mod': m})
    for w in ((32, 64) if T else (32,)):
        # too many states to close: all input sequences up to depth 12 from power-up (reported as capped)
        out.append({'block': 'Counter', 'w': w, 'reset': 1, 'inc': 1, 'maxdepth': 12})
        out.append({'block': 'StepUpCounter', 'w': w, 'sw': w, 'corner': 1, 'maxdepth': 4})
    return out


def shards(tier):
    return _configs(tier)


def cost(d):
    return {'SynchronousMemory': 50, 'DualPortSynchronousMemory': 60}.get(d['block'], 1) * (d.get('w', 1) + d.get('depth', 0) + d.get('delay', 0))


def build(d):
    """Returns a product ctx for configuration d."""
    hw = py4hw.HWSystem()
    b = d['block']
    W = lambda n, w=1: hw.wire(n, w)
    ins, outs = [], []

    def I(n, w=1):
        x = W(n, w)
        ins.append((n, x))
        return x

    def O(n, w=1):
        x = W(n, w)
        outs.append((n, x))
        return x

    if b == 'Reg':
        w = d['w']
        dd, q = I('d', d.get('dw', w)), O('q', w)
        e = I('e') if d['e'] else None
        r = I('r') if d['r'] else None
        py4hw.Reg(hw, 'dut', dd, q, enable=e, reset=r, reset_value=d['rv'])
        model = seq.RegModel(w, d['e'], d['r'], d['rv'])
    elif b == 'TReg':
        t, q = I('t'), O('q')
        e = I('e') if d['e'] else None
        r = I('r') if d['r'] else None
        py4hw.TReg(hw, 'dut', t, q, enable=e, reset=r)
        model = seq.TRegModel(d['e'], d['r'])
    elif b == 'Counter':
        rs = I('reset') if d['reset'] else None
        inc = I('inc') if d['inc'] else None
        q = O('q', d['w'])
        py4hw.Counter(hw, 'dut', rs, inc, q)
        model = seq.CounterModel(d['w'], d['reset'], d['inc'])
    elif b == 'StepUpCounter':
        rs, inc, st, q = I('reset'), I('inc'), I('step', d['sw']), O('q', d['w'])
        py4hw.StepUpCounter(hw, 'dut', rs, inc, st, q)
        model = seq.CounterModel(d['w'], True, True, has_step=True)
    elif b == 'ModuloCounter':
        rs, inc, q, co = I('reset'), I('inc'), O('q', d['w']), O('carryout')
        py4hw.ModuloCounter(hw, 'dut', d['mod'], rs, inc, q, co)
        model = seq.CounterModel(d['w'], True, True, mod=d['mod'], carry=True)
    elif b == 'DelayLine':
        a = I('a', d['w'])
        en = I('en') if d['en'] else None
        rs = I('reset') if d['reset'] else None
        r = O('r', d['w'])
        py4hw.DelayLine(hw, 'dut', a, en, rs, r, d['delay'])
        model = seq.DelayLineModel(d['w'], d['delay'], d['en'], d['reset'])
    elif b == 'PipelinePhase':
        rs = I('reset')
        xs = [I('in%d' % i, d['w']) for i in range(d['n'])]
        ys = [O('out%d' % i, d['w']) for i in range(d['n'])]
        py4hw.PipelinePhase(hw, 'dut', rs, xs, ys)
        model = seq.PipelineModel(d['n'])
    elif b == 'ShiftRegisterBidirectional':
        w = d['w']
        li, ri = I('left_in', w), I('right_in', w)
        lo, ro = O('left_out', w), O('right_out', w)
        sl, sr = I('shift_left'), I('shift_right')
        py4hw.ShiftRegisterBidirectional(hw, 'dut', li, ri, lo, ro, sl, sr, d['depth'])
        model = seq.ShiftBidirModel(d['depth'])
    elif b == 'Stack_ShiftRegister':
        w = d['w']
        din, push, pop, dout = I('din', w), I('push'), I('pop'), O('dout', w)
        py4hw.Stack_ShiftRegister(hw, 'dut', din, dout, push, pop, None, None, d['depth'])
        model = seq.StackModel(d['depth'])
    elif b == 'EdgeDetector':
        a, r = I('a'), O('r')
        py4hw.EdgeDetector(hw, 'dut', a, r, d['direction'])
        model = seq.EdgeModel(d['direction'])
    elif b == 'ClockDivider':
        rs = I('reset') if d['reset'] else None
        ck = O('clkout')
        if 'fin' in d:
            from fractions import Fraction
            n = int(Fraction(d['fin']) / (2 * Fraction(d['fout'])))      # the half period in input clocks, computed exactly
            py4hw.ClockDivider(hw, 'dut', float(d['fin']), float(d['fout']), ck, reset=rs)
        else:
            n = d['n']
            py4hw.ClockDivider(hw, 'dut', 2 * n, 1, ck, reset=rs)
        model = seq.ClockDividerModel(n, d['reset'])
    elif b == 'SynchronousMemory':
        aw, dw = d['aw'], d['dw']
        ra, wa, wr, wd = I('read_address', aw), I('write_address', aw), I('write'), I('writedata', dw)
        rd = O('readdata', d.get('rw', dw))
        py4hw.SynchronousMemory(hw, 'dut', ra, wa, wr, rd, wd)
        model = seq.SyncMemModel(aw, dw, d.get('rw'))
    elif b == 'DualPortSynchronousMemory':
        aw, dw = d['aw'], d['dw']
        ra, wa, wr, wd = I('read_address_a', aw), I('write_address_a', aw), I('write_a'), I('writedata_a', dw)
        rda = O('readdata_a', dw)
        rb, wb, wrb, wdb = I('read_address_b', aw), I('write_address_b', aw), I('write_b'), I('writedata_b', dw)
        rdb = O('readdata_b', dw)
        py4hw.DualPortSynchronousMemory(hw, 'dut', ra, wa, wr, rda, wd, rb, wb, wrb, rdb, wdb)
        model = seq.DualPortMemModel(aw, dw)
    else:
        raise ValueError(b)
    return product.make_ctx(hw, ins, outs, model)


def cfgname(d):
    return d['block'] + '(' + ','.join('%s=%s' % (k, v) for k, v in sorted(d.items()) if k != 'block') + ')'


def run_shard(d):
    try:
        build(d)
    except Exception as e:
        core.reset_prepared()
        return {'constructor_rejected': 1, 'configs': 1, 'vacuous_ok': True, 'distinct_outcomes': 0,
                'samples': [{'config': d, 'rejected': repr(e)[:200]}], 'violations': []}
    try:
        ex = product.explore_product(lambda: build(d), max_states=100000, corner=bool(d.get('corner')),
                                     max_depth=d.get('maxdepth'), validate_every=1 if not d.get('corner') and d.get('w', 1) < 8 else 5)
    except core.HarnessError:
        raise
    except Exception as e:
        # the block itself raised while being simulated: it has no behaviour to compare
        core.reset_prepared()
        return {'configs': 1, 'states': 1, 'transitions': 1, 'vacuous_ok': True, 'distinct_outcomes': 0,
                'violations': [{'sig': 'C09:%s:raises:%s' % (d['block'], type(e).__name__), 'shard': d,
                                'trace': [], 'detail': {'exception': repr(e)[:300]}}]}
    res = product.result_from(ex, d, 'C09:' + cfgname(d))
    if d['block'] == 'ModuloCounter' and d['mod'] == 1:
        res['vacuous_ok'] = True      # the only reachable output is (0, carry=1)
    return res


def replay(v):
    d = v['shard']
    if (v.get('detail') or {}).get('sigkey') == 'history_dependent':
        def stp(c, x):
            for w, val in zip(c.free, x):
                w.put(val)
            c.sim.clk(1)
        return core.replay_history_dependence(lambda: build(d), lambda c: (c.sys, c.free), stp, v['trace'])
    c = build(d)
    obs = []
    s = c.model.init
    bad = None
    for i, x in enumerate(v['trace']):
        xd = dict(zip(c.in_names, x))
        for w, val in zip(c.free, x):
            w.put(val)
        c.sim.clk(1)
        s = c.model.nxt(s, xd)
        got = [w.get() for w in c.outs]
        exp = list(c.model.out(s, xd))
        obs.append({'inputs': xd, 'got': got, 'expected': exp})
        if any(e is not None and e != g for e, g in zip(exp, got)) and bad is None:
            bad = i
    return {'config': d, 'steps': obs, 'violates': bad is not None, 'first_bad_step': bad}
