"""C20 — the hardware-in-the-loop UART command codec decodes and encodes exactly.

Two product explorations of the real blocks (each alone in an HWSystem, inputs poked by the
harness) with the reference codecs of mc/refmodels/proto_hil.py.

CMDRequest.  Environment = a ready/valid character producer: every cycle in which it is not
already offering a character it either stays silent or starts offering the next character of
the command it is sending (its choice — so every idle gap 0, 1, 2, ... between characters is
explored; the search still closes because a decoder waiting in READY with valid = 0 does not
change state); once offered, a character is held until the edge at which valid and ready are
both 1 (the transfer).  The commands themselves are chosen by the environment too: at every
command boundary any command of the grammar (digit alphabet / digit count of the tier), up to
N commands per stream (or without a bound for the narrow-wire configuration, where the product
graph is closed under arbitrarily long streams).  The monitor attributes every rising edge of
set_index_in / set_v_in / set_index_out / start_resp / clk_pulse to the command whose
terminator was transferred last and demands exactly the statement's pulses with the
transmitted number on the data wire while the strobe is high.

CMDResponse.  vin/size held, a one-cycle start_resp pulse while idle, the consumer's ready
chosen freely every cycle; the characters transferred (valid & ready going into an edge) must
spell '=' + size upper-case hex digits of vin, MSB first + '!'; then a second response with any
other (vin, size) of the grid is started at any later cycle (including the very next one).

thorough: additionally the two blocks wired back to back through UARTSerializer ->
UARTDeserializer (divider n = 2, i.e. 4 system clocks per bit) as a closed loop: the response
text is what the decoder receives, and its '<digits>!' part is decoded as one store-value command.
"""
import types

import py4hw
from mc import core
from mc.refmodels import proto_hil as ref

LEVEL = 'model_checking'
RULE = ('CMDRequest: one shard per (wire-width configuration, first command or first-command prefix); BFS over the product (live '
        'block snapshot, environment position in the command being sent, character being offered, monitor state, commands sent); '
        'per state the choices are "valid=0" or "start offering <each character the grammar allows next>", a held character is '
        'the only choice until transferred. CMDResponse: one shard per first (vin,size); BFS with choices (start_resp, ready, '
        'vin, size); the second (vin,size) ranges over the whole grid. Non-trivial = the command carries a non-zero number / '
        'the response has a non-zero digit.')
FINAL_QUIET = 3      # cycles with ready = 1 after the last command of a bounded stream before "everything pulsed" is demanded
STUCK = 24           # consecutive cycles with ready = 0 and no action pulse = stuck
RESP_STALL = 8       # cycles with ready = 1 and no transfer during a response = the response stopped
ASSUMPTIONS = [
    'a character transfer is an edge entered with valid = 1 and ready = 1 (CMDRequest.clock reads valid only while it drives ready = 1)',
    'only upper-case hex digits are commands (the host side formats with :X); lower case and other characters (e.g. the newline '
    'the host appends) are outside "well-formed" and are not sent',
    'a pulse belongs to the command whose terminator was transferred last; a command must have pulsed everything by the time the '
    'next terminator is transferred (for the last command of a bounded stream: by the time ready has been 1 for %d cycles)' % FINAL_QUIET,
    '"selects output n and then starts a response" is read as: start_resp rises after set_index_out has risen and the two are '
    'never high in the same cycle',
    'stuck = ready stays 0 for %d consecutive cycles without any action pulse' % STUCK,
    'numbers wider than a data wire are compared modulo 2^width (Wire semantics); the wide configuration (12/32/12 bits) avoids this',
    'the producer may keep valid low for any number of cycles (not only 0..2): the graph closes because a decoder waiting with '
    'valid = 0 does not change state',
    'CMDResponse: size = number of hex digits (class comment and code say nibbles; the Args line says bits); vin and size are held '
    'from the start pulse to the end of the response, except in the "live" shards where they change freely after the start pulse (the '
    'class samples them: "the idea is to sample a value and size"); start_resp is pulsed only while the block is idle; a response has stopped '
    '(length / not_idle_after) if %d cycles with ready = 1 pass without a transfer' % RESP_STALL,
    'closed loop (thorough): 4 system clocks per UART bit; only the text handed to the decoder and the resulting set_v_in pulse are checked '
    '(the leading "=" of a response is not a well-formed command)',
    'reference codecs in mc/refmodels/proto_hil.py are trusted',
]

QUICK_ALPHA = '019AF'
BOUNDS = {
    'quick': 'CMDRequest, wide wires (12/32/12): every stream of <= 3 commands with 1-2 digits from {0,1,9,A,F} (120 commands), every '
             'producer timing; 10 fixed long commands (up to 9 digits) each followed by <= 1 one-digit command; narrow wires (1/2/1): '
             'streams of unbounded length over 1-2 digits from {0,9,F} (closed graph). CMDResponse: vin in {0,1,0xA5,0xFEDCBA98,'
             '0xFFFFFFFF,0x0F0F0F0F} x size 1..8, 9, 12, two consecutive responses (second over the whole grid), every ready pacing.',
    'thorough': 'CMDRequest, wide wires: every stream of <= 3 commands with 1-2 digits from {0,1,9,A,F}; <= 4 commands with 1-2 digits from '
                '{0,9,F} or 1 digit from {0,1,9,A,F}; <= 5 commands with 1 digit from {0,9,F}; every command with 1-3 digits from all 16 '
                'followed by <= 1 command with 1-2 digits from {0,9,F}; every command with 1 digit from {0,9,F} followed by <= 1 command '
                'with 1-3 digits from all 16; the 10 fixed long commands; narrow wires (1/2/1 and 2/4/2 bits): unbounded streams over '
                '{0,1,9,A,F} x 1-2 digits. CMDResponse: 12 vin values x size 1..8, 9, 12, two consecutive responses. Closed loop CMDResponse -> '
                'UARTSerializer -> UARTDeserializer -> CMDRequest (4 clocks/bit), 6 values x 4 sizes x 8 start phases.',
}

HEX = ref.HEX
WIDTHS = {'wide': (12, 32, 12), 'narrow': (1, 2, 1), 'narrow2': (2, 4, 2), 'wide40': (12, 40, 12)}
LONG_COMMANDS = ['FEDCBA98!', '0000000A!', '123456789!', '7FFFFFFF!', 'I0123=', 'IFFF=', 'O00FFF?', 'O8A5?', 'K0010;', 'K100;']
SIZES = [1, 2, 3, 4, 5, 6, 7, 8, 9, 12]       # 9 and 12: more digits than the 32-bit value has (leading zeros)
VINS_Q = [0, 1, 0xA5, 0xFEDCBA98, 0xFFFFFFFF, 0x0F0F0F0F]
VINS_T = VINS_Q + [0x12345678, 0x89ABCDEF, 0x80000000, 0x9, 0xA, 0x0000F000]


# ============================================================================= shards

def _req(cfg, alpha, maxdig, ncmd, first=None, alpha2=None, maxdig2=None):
    """alpha/maxdig: grammar of the first command (and of all commands unless alpha2/maxdig2 give the grammar of the later
    ones); ncmd: maximum number of commands in a stream (None = unbounded); first: fixed first command, or a prefix of it."""
    d = {'blk': 'req', 'cfg': cfg, 'alpha': alpha, 'maxdig': maxdig, 'ncmd': ncmd}
    if first is not None:
        d['first'] = first
    if alpha2 is not None:
        d['alpha2'] = alpha2
        d['maxdig2'] = maxdig2
    return d


def shards(tier):
    out = []
    T = tier == 'thorough'
    for cmd in ref.all_commands(QUICK_ALPHA, 2):
        out.append(_req('wide', QUICK_ALPHA, 2, 3, first=cmd))
    if not T:
        out.append(_req('narrow', '09F', 2, None))
    else:
        for cmd in ref.all_commands('09F', 2):
            out.append(_req('wide', '09F', 2, 4, first=cmd))
        for cmd in ref.all_commands(QUICK_ALPHA, 1):
            out.append(_req('wide', QUICK_ALPHA, 1, 4, first=cmd))
        for cmd in ref.all_commands('09F', 1):
            out.append(_req('wide', '09F', 1, 5, first=cmd))
        # long numbers: first command = 1-3 digits from all 16 (shard = kind + first digit), then <= 1 small command ...
        for kind in 'IVOK':
            for d0 in HEX:
                out.append(_req('wide', HEX, 3, 2, first=('' if kind == 'V' else kind) + d0, alpha2='09F', maxdig2=2))
        # ... and a small first command followed by any command with 1-3 digits from all 16
        for cmd in ref.all_commands('09F', 1):
            out.append(_req('wide', '09F', 1, 2, first=cmd, alpha2=HEX, maxdig2=3))
        out.append(_req('narrow', QUICK_ALPHA, 2, None))
        out.append(_req('narrow2', QUICK_ALPHA, 2, None))
    # a few long numbers (up to 9 digits: one more than the 32-bit value wire holds), each followed by <= 1 small command
    for cmd in LONG_COMMANDS:
        out.append(_req('wide', '09F', 1, 2, first=cmd))
    # a value wire of 40 bits: numbers of more than 8 digits arrive whole
    for cmd in ('123456789!', 'FEDCBA9876!', '100000000!', '0FFFFFFFFFF!', 'I0123=', 'K100;'):
        out.append(_req('wide40', '09F', 1, 2, first=cmd))
    # very long pauses (70000 cycles, more than 2**16) between the characters of a command
    for text, after in (('I12=', (2,)), ('CAFE1234!', (4,)), ('O2B?', (2,)), ('K13;', (1, 2)), ('I0F=', (1, 2, 3))):
        out.append({'blk': 'reqdir', 'cfg': 'wide', 'text': text, 'pause': 70000, 'pause_after': list(after),
                    'alpha': HEX, 'maxdig': 9})
    for vin in (VINS_T if T else VINS_Q):
        for size in SIZES:
            out.append({'blk': 'resp', 'vin': vin, 'size': size, 'grid': 'T' if T else 'Q'})
    for vin, size in ((0xA5, 2), (0xFEDCBA98, 8), (0x0F0F0F0F, 5)) + (((1, 1), (0x12345678, 7)) if T else ()):
        out.append({'blk': 'resp', 'vin': vin, 'size': size, 'grid': 'T' if T else 'Q', 'live': 1})
    if T:
        for vin in VINS_Q:
            out.append({'blk': 'loop', 'vin': vin, 'sizes': [1, 2, 3, 8]})
    return out


def _ncommands(alpha, maxdig):
    return 4 * sum(len(alpha) ** k for k in range(1, maxdig + 1))


def cost(d):
    if d['blk'] == 'req':
        if d['ncmd'] is None:
            return 10 ** 9
        f = d.get('first', '')
        n1 = 1 if (f and f[-1] in ref.KIND_OF_TERMINATOR) else _ncommands(d['alpha'], d['maxdig']) // (4 * len(d['alpha']))
        n2 = _ncommands(d.get('alpha2', d['alpha']), d.get('maxdig2', d['maxdig']))
        return n1 * n2 ** (d['ncmd'] - 1)
    if d['blk'] == 'reqdir':
        return 10 ** 8
    if d['blk'] == 'loop':
        return 2000
    return 1


# ============================================================================= CMDRequest

OBS = ('set_index_in', 'set_v_in', 'set_index_out', 'start_resp', 'clk_pulse', 'index_in', 'v_in', 'index_out')


def build_req(d):
    from py4hw.emulation.HILWrapperUART import CMDRequest
    wi, wv, wo = WIDTHS[d['cfg']]
    hw = py4hw.HWSystem()
    ready, valid, ch = hw.wire('ready'), hw.wire('valid'), hw.wire('c', 8)
    w = {'index_in': hw.wire('index_in', wi), 'v_in': hw.wire('v_in', wv), 'index_out': hw.wire('index_out', wo)}
    for n in OBS[:5]:
        w[n] = hw.wire(n)
    CMDRequest(hw, 'cmd_req', ready, valid, ch, w['index_in'], w['v_in'], w['index_out'], w['set_index_in'], w['set_v_in'],
               w['set_index_out'], w['clk_pulse'], w['start_resp'])
    c = types.SimpleNamespace(sys=hw, free=[valid, ch], ready=ready, valid=valid, ch=ch, outs=[w[n] for n in OBS],
                              widths=(wi, wv, wo), d=d)
    c.sim = hw.getSimulator()
    # environment: (commands whose terminator was transferred, kind of the command being sent, digits sent, number so far,
    #               character being offered and not yet taken)
    c.env = (0, None, 0, 0, None)
    c.mon = ref.M_IDLE
    c.busy = 0
    c.quiet = 0
    c.problem = None
    c.issued = None
    return c


def req_choices(d, env):
    """Characters the producer may start to offer now ('' = keep valid low)."""
    ncmd, kind, ndig, num, off = env
    if off is not None:
        return [off]
    out = ['']
    N = d['ncmd']
    if kind is None and N is not None and ncmd >= N:
        return out
    if ncmd == 0 and 'first' in d:
        sent = ndig + (1 if kind in ('I', 'O', 'K') else 0)
        f = d['first']
        if sent < len(f):
            return out + [f[sent]]
        # the shard fixed only a prefix of the first command: continue with the first command's grammar
    alpha, maxdig = d['alpha'], d['maxdig']
    if ncmd > 0 and 'alpha2' in d:
        alpha, maxdig = d['alpha2'], d['maxdig2']
    if kind is None:
        return out + ['I', 'O', 'K'] + list(alpha)
    if ndig < maxdig:
        out += list(alpha)
    if ndig >= 1:
        out.append(ref.TERMINATOR[kind])
    return out


def req_step(c, x):
    """One cycle: drive valid/c from choice x, clock, update environment and monitor. Sets c.problem."""
    ncmd, kind, ndig, num, off = c.env
    outs = c.outs
    prev = tuple([w.value for w in outs])
    if x:
        c.valid.put(1)
        c.ch.put(ord(x))
    else:
        c.valid.put(0)
        c.ch.put(0)
    xfer = bool(x) and c.ready.get() == 1
    c.sim.clk(1)
    cur = tuple([w.value for w in outs])
    m = c.mon
    err = None
    c.issued = None
    if xfer:
        off = None
        if x in 'IOK':
            kind, ndig, num = x, 0, 0
        elif x in HEX:
            if kind is None:
                kind = 'V'
            num = num * 16 + HEX.index(x)
            ndig += 1
        else:
            m, err = ref.mon_issue(m, kind, num)
            c.issued = (kind, ndig, num)
            # (streams of unbounded length: the count is not part of the state, otherwise the graph could not close)
            ncmd, kind, ndig, num = (ncmd + 1 if c.d['ncmd'] is not None else 0), None, 0, 0
    elif x:
        off = x
    if err is None:
        m, err = ref.mon_observe(m, prev, cur, c.widths)
    rdy = c.ready.get()
    rise = (cur[0] and not prev[0]) or (cur[1] and not prev[1]) or (cur[2] and not prev[2]) or (cur[3] and not prev[3]) or \
        (cur[4] and not prev[4])
    busy = 0 if (rdy or rise) else c.busy + 1
    if err is None and busy >= STUCK:
        err = ('stuck', 'ready has been 0 for %d cycles without any action pulse' % busy)
    quiet = c.quiet
    N = c.d['ncmd']
    if N is not None and ncmd == N:
        quiet = min(quiet + 1, FINAL_QUIET) if rdy else 0
        if err is None and quiet >= FINAL_QUIET:
            err = ref.mon_unsatisfied(m)
    c.env = (ncmd, kind, ndig, num, off)
    c.mon, c.busy, c.quiet = m, busy, quiet
    c.cur = cur
    c.problem = None
    if err is not None:
        c.problem = {'sigkey': err[0], 'what': err[1], 'outputs_after_edge': dict(zip(OBS, cur)), 'ready': rdy,
                     'commands_transferred': ncmd, 'wire_widths(index_in,v_in,index_out)': list(c.widths)}


def text_of_trace(trace):
    """Display form of a per-cycle choice list: the character driven with valid = 1 in each cycle, '.' for valid = 0."""
    return ''.join(x if x else '.' for x in trace)


def run_req(d):
    outcomes = set()
    stats = {'issued': 0, 'nontrivial': set(), 'all': set(), 'main': None}

    def mk():
        c = build_req(d)
        if stats['main'] is None:
            stats['main'] = c
        return c

    def check(c, x):
        if c.problem:
            return c.problem
        if c is stats['main']:
            outcomes.add(c.cur)
            if c.issued is not None:
                stats['issued'] += 1
                stats['all'].add(c.issued)
                if c.issued[2]:
                    stats['nontrivial'].add(c.issued)
        return None

    def get_extra(c):
        return (c.env, c.mon, c.busy, c.quiet)

    def set_extra(c, e):
        c.env, c.mon, c.busy, c.quiet = e

    ex = core.Explorer(mk, lambda c: req_choices(d, c.env), check, step=req_step, extra_state=get_extra, set_extra=set_extra,
                       max_states=2000000 if d['ncmd'] is None else 3000000, validate_every=2503, monitor_widths=False)
    ex.run()
    res = {'configs': 1, 'states': ex.states, 'transitions': ex.transitions, 'traces_validated_against_impl': ex.validated,
           'capped': ex.capped, 'closed_graphs': 1 if ex.closed else 0, 'evaluations': stats['issued'],
           'distinct_nontrivial': len(stats['nontrivial']), 'distinct_outcomes': len(outcomes),
           'distinct_commands_issued': len(stats['all']), 'violations': [], 'samples': []}
    for kind, trace, detail in ex.violations:
        detail = dict(detail)
        detail['offered_per_cycle'] = text_of_trace(trace)
        res['violations'].append({'sig': 'C20:CMDRequest:%s' % detail['sigkey'], 'shard': d, 'trace': list(trace), 'detail': detail})
    if ex.sample_traces:
        res['samples'].append({'config': d, 'offered_per_cycle ("."=valid low)': text_of_trace(ex.sample_traces[-1])})
    if not ex.violations and ex.closed:
        # every command of the shard's grammar must actually have been issued (anti-vacuity)
        want = expected_command_count(d)
        if len(stats['all']) != want:
            raise core.HarnessError('shard %r issued %d distinct commands, grammar has %d' % (d, len(stats['all']), want))
    return res


def expected_command_count(d):
    """Number of distinct (kind, digit count, number) the environment of shard d can send."""
    seen = set()

    def grammar(alpha, maxdig):
        lvl = ['']
        for _ in range(maxdig):
            lvl = [p + a for p in lvl for a in alpha]
            for s in lvl:
                for k in 'IVOK':
                    yield (k, len(s), int(s, 16))
    N = d['ncmd']
    first = d.get('first')
    if first is not None:
        k0 = first[0] if first[0] in 'IOK' else 'V'
        body = first[1:] if first[0] in 'IOK' else first
        if body and body[-1] in ref.KIND_OF_TERMINATOR:
            seen.add((k0, len(body) - 1, int(body[:-1], 16)))
        else:
            for (k, n, v) in grammar(d['alpha'], d['maxdig']):
                s = ('%0' + str(n) + 'X') % v
                if k == k0 and s.startswith(body):
                    seen.add((k, n, v))
        if N is None or N > 1:
            seen.update(grammar(d.get('alpha2', d['alpha']), d.get('maxdig2', d['maxdig'])))
    else:
        seen.update(grammar(d['alpha'], d['maxdig']))
    return len(seen)


def replay_req(v):
    d = v['shard']
    c = build_req(d)
    steps = []
    bad = None
    for i, x in enumerate(v['trace']):
        req_step(c, x)
        steps.append({'cycle': i, 'valid': 1 if x else 0, 'c': x, 'ready_after': c.ready.get(), 'outputs': dict(zip(OBS, c.cur))})
        if c.problem is not None:
            bad = {'cycle': i, 'clause': c.problem['sigkey'], 'what': c.problem['what']}
            break
    return {'config': d, 'violates': bad is not None, 'first_bad': bad, 'steps': steps[-12:]}


# ============================================================================= CMDResponse

def build_resp(d):
    from py4hw.emulation.HILWrapperUART import CMDResponse
    hw = py4hw.HWSystem()
    vin, size, start, ready = hw.wire('vin', 32), hw.wire('size', 8), hw.wire('start_resp'), hw.wire('ready')
    valid, v = hw.wire('valid'), hw.wire('v', 8)
    CMDResponse(hw, 'cmd_resp', vin, size, start, ready, valid, v)
    c = types.SimpleNamespace(sys=hw, free=[start, ready, vin, size], valid=valid, v=v, d=d)
    c.sim = hw.getSimulator()
    # environment: (phase 0 idle / 1 response running / 2 both done, response number, characters received,
    #               vin, size of the running response, ready-cycles without transfer)
    c.env = (0, 0, 0, d['vin'], d['size'], 0)
    c.problem = None
    c.got = None
    return c


def resp_choices(d, env):
    phase, k, pos, vin, size, stall = env
    if phase == 1:
        if d.get('live'):
            # the value and size wires move on while the response is going out: the response is the value sampled at the start
            v2, s2 = vin ^ 0xFFFFFFFF, (size % 8) + 1
            return [(0, 0, vin, size), (0, 1, vin, size), (0, 0, v2, s2), (0, 1, v2, s2), (0, 1, v2, size)]
        return [(0, 0, vin, size), (0, 1, vin, size)]
    out = [(0, 0, vin, size), (0, 1, vin, size)]
    if phase == 0:
        if k == 0:
            out += [(1, 0, vin, size), (1, 1, vin, size)]
        else:
            for v2 in (VINS_T if d['grid'] == 'T' else VINS_Q):
                for s2 in SIZES:
                    out += [(1, 0, v2, s2), (1, 1, v2, s2)]
    return out


def resp_step(c, x):
    start, ready, vin, size = x
    phase, k, pos, cvin, csize, stall = c.env
    xfer = c.valid.get() == 1 and ready == 1
    ch = c.v.get()
    for w, val in zip(c.free, x):
        w.put(val)
    c.sim.clk(1)
    err = None
    c.got = None
    if start:
        # (only offered by resp_choices while idle)
        phase, pos, cvin, csize, stall = 1, 0, vin, size, 0
        if xfer:
            err = ('length', 'a character (%r) is transferred while the encoder should be idle' % chr(ch))
    elif xfer:
        c.got = ch
        if phase != 1:
            err = ('length', 'a character (%r) is transferred outside a response (%s)' % (
                chr(ch), 'before the first start' if (phase == 0 and k == 0) else 'after the closing "!"'))
        else:
            exp = ref.encode_response(cvin, csize)
            clause = ref.classify_char(exp, pos, chr(ch))
            if clause:
                err = (clause, 'character %d of the response to vin=0x%X size=%d is %r, expected %r (full response %r)' % (
                    pos, cvin, csize, chr(ch), exp[pos] if pos < len(exp) else None, exp))
            pos += 1
            stall = 0
            if pos == len(exp):
                phase, k, pos = (0, 1, 0) if k == 0 else (2, 2, 0)
    elif phase == 1 and ready:
        stall += 1
        if stall >= RESP_STALL:
            exp = ref.encode_response(cvin, csize)
            if k == 1 and pos == 0:
                err = ('not_idle_after', 'second response (started after the first one\'s "!") never begins: %d ready cycles without a transfer' % stall)
            else:
                err = ('length', 'response stops after %d of %d characters (%d ready cycles without a transfer)' % (pos, len(exp), stall))
    c.env = (phase, k, pos, cvin, csize, stall)
    c.problem = None
    if err is not None:
        c.problem = {'sigkey': err[0], 'what': err[1], 'valid_after': c.valid.get(), 'v_after': c.v.get(), 'response_number': k}


def run_resp(d):
    outcomes = set()
    stats = {'chars': 0, 'responses': set(), 'main': None}

    def mk():
        c = build_resp(d)
        if stats['main'] is None:
            stats['main'] = c
        return c

    def check(c, x):
        if c.problem:
            return c.problem
        if c is stats['main']:
            if c.got is not None:
                stats['chars'] += 1
                outcomes.add(c.got)
            if x[0]:
                stats['responses'].add((x[2], x[3]))
        return None

    ex = core.Explorer(mk, lambda c: resp_choices(d, c.env), check, step=resp_step,
                       extra_state=lambda c: c.env, set_extra=lambda c, e: setattr(c, 'env', e),
                       max_states=500000, validate_every=7, monitor_widths=True)
    ex.run()
    nontriv = sum(1 for (vin, size) in stats['responses'] if vin & ((1 << (4 * size)) - 1))
    res = {'configs': 1, 'states': ex.states, 'transitions': ex.transitions, 'traces_validated_against_impl': ex.validated,
           'capped': ex.capped, 'closed_graphs': 1 if ex.closed else 0, 'evaluations': stats['chars'],
           'distinct_nontrivial': nontriv, 'distinct_outcomes': len(outcomes), 'violations': [], 'samples': [],
           'width_violations': [{'trace': [list(t) for t in tr], 'bad': b} for tr, b in ex.width_violations[:3]]}
    for kind, trace, detail in ex.violations:
        res['violations'].append({'sig': 'C20:CMDResponse:%s' % detail['sigkey'], 'shard': d, 'trace': [list(t) for t in trace],
                                  'detail': detail})
    if ex.sample_traces:
        res['samples'].append({'config': d, 'inputs(start_resp,ready,vin,size) per cycle': ex.sample_traces[-1]})
    if not ex.violations and ex.closed:
        want = len(SIZES) * len(VINS_T if d['grid'] == 'T' else VINS_Q)
        if len(stats['responses']) != want:
            raise core.HarnessError('response shard %r started %d distinct responses, grid has %d' % (d, len(stats['responses']), want))
    return res


def replay_resp(v):
    d = v['shard']
    c = build_resp(d)
    text = ''
    bad = None
    steps = []
    for i, x in enumerate(v['trace']):
        resp_step(c, tuple(x))
        if c.got is not None:
            text += chr(c.got)
        steps.append({'cycle': i, 'start_resp,ready,vin,size': list(x), 'valid_after': c.valid.get(), 'v_after': c.v.get()})
        if c.problem is not None:
            bad = {'cycle': i, 'clause': c.problem['sigkey'], 'what': c.problem['what']}
            break
    return {'config': d, 'violates': bad is not None, 'first_bad': bad, 'characters_received': text, 'steps': steps[-12:]}


# ============================================================================= closed loop (thorough)

def build_loop(d):
    """CMDResponse -> UARTSerializer -> (tx=rx) -> UARTDeserializer -> CMDRequest, divider n = 2 (4 system clocks per bit)."""
    from py4hw.emulation.HILWrapperUART import CMDRequest, CMDResponse
    from py4hw.logic.protocol.uart.serdes import UARTSerializer, UARTDeserializer
    from py4hw.logic.protocol.uart.clock import ClockGenerationAndRecovery
    hw = py4hw.HWSystem()
    vin, size, start = hw.wire('vin', 32), hw.wire('size', 8), hw.wire('start')
    s_ready, s_valid, s_v = hw.wire('s_ready'), hw.wire('s_valid'), hw.wire('s_v', 8)
    line, desync, txp, rxs = hw.wire('line'), hw.wire('desync'), hw.wire('tx_clk_pulse'), hw.wire('rx_sample')
    r_ready, r_valid, r_c = hw.wire('r_ready'), hw.wire('r_valid'), hw.wire('r_c', 8)
    wi, wv, wo = WIDTHS['wide']
    w = {'index_in': hw.wire('index_in', wi), 'v_in': hw.wire('v_in', wv), 'index_out': hw.wire('index_out', wo)}
    for n in OBS[:5]:
        w[n] = hw.wire(n)
    CMDResponse(hw, 'cmd_resp', vin, size, start, s_ready, s_valid, s_v)
    ClockGenerationAndRecovery(hw, 'uart_clock', line, desync, txp, rxs, 4, 1)
    UARTSerializer(hw, 'ser', s_ready, s_valid, s_v, txp, line)
    UARTDeserializer(hw, 'des', line, rxs, r_ready, r_valid, r_c, desync)
    CMDRequest(hw, 'cmd_req', r_ready, r_valid, r_c, w['index_in'], w['v_in'], w['index_out'], w['set_index_in'], w['set_v_in'],
               w['set_index_out'], w['clk_pulse'], w['start_resp'])
    c = types.SimpleNamespace(sys=hw, free=[start, vin, size], outs=[w[n] for n in OBS], widths=(wi, wv, wo), d=d,
                              r_ready=r_ready, r_valid=r_valid, r_c=r_c)
    c.sim = hw.getSimulator()
    return c


def run_loop_case(d, vin, size, delay, horizon=None):
    """Response text '=<digits>!' reaches the decoder as: '=' (a terminator with no command: the decoder docstring has no
    such command, so the stream is made well-formed by what the statement defines: '<digits>!' is the store-value command;
    the leading '=' arrives while no 'I' command is open).  The statement only covers well-formed command streams, so the
    oracle here is limited to: the characters handed to the decoder are exactly the response text, and after them the
    decoder has pulsed set_v_in exactly once with v_in == the digits' value."""
    c = build_loop(d)
    exp = ref.encode_response(vin, size)
    got = ''
    pulses = 0
    vseen = None
    prev = 0
    n = horizon or (delay + 40 * len(exp) + 80)
    for t in range(n):
        c.free[0].put(1 if t == delay else 0)
        c.free[1].put(vin)
        c.free[2].put(size)
        xfer = c.r_valid.get() == 1 and c.r_ready.get() == 1
        ch = c.r_c.get()
        c.sim.clk(1)
        if xfer:
            got += chr(ch)
        sv = c.outs[1].get()
        if sv and not prev:
            pulses += 1
            vseen = c.outs[6].get()
        prev = sv
    return exp, got, pulses, vseen


def run_loop(d):
    res = {'configs': 1, 'evaluations': 0, 'distinct_nontrivial': 0, 'violations': [], 'samples': [], 'distinct_outcomes': 0}
    outs = set()
    for size in d['sizes']:
        for delay in range(3, 11):
            exp, got, pulses, vseen = run_loop_case(d, d['vin'], size, delay)
            res['evaluations'] += 1
            want = int(exp[1:-1], 16)
            outs.add((got, vseen))
            if want:
                res['distinct_nontrivial'] += 1
            bad = None
            if got != exp:
                bad = ('loop_text', 'decoder received %r, encoder should have sent %r' % (got, exp))
            elif pulses != 1 or vseen != want:
                bad = ('loop_decode', 'set_v_in pulsed %d time(s), v_in=%r, expected one pulse with 0x%X' % (pulses, vseen, want))
            if bad and len(res['violations']) < 1:
                res['violations'].append({'sig': 'C20:loop:%s' % bad[0], 'shard': {'blk': 'loop', 'vin': d['vin'], 'sizes': [size]},
                                          'trace': [delay], 'detail': {'what': bad[1], 'vin': d['vin'], 'size': size, 'start_cycle': delay}})
            if len(res['samples']) < 1:
                res['samples'].append({'closed_loop': {'vin': d['vin'], 'size': size, 'start_cycle': delay}, 'text_received_by_decoder': got})
    res['distinct_outcomes'] = len(outs)
    return res


def replay_loop(v):
    d = v['shard']
    exp, got, pulses, vseen = run_loop_case(d, d['vin'], d['sizes'][0], v['trace'][0])
    want = int(exp[1:-1], 16)
    return {'config': d, 'expected_text': exp, 'received_text': got, 'set_v_in_pulses': pulses, 'v_in': vseen,
            'violates': got != exp or pulses != 1 or vseen != want}


# ============================================================================= entry points

def run_reqdir(d):
    """directed run of the decoder: one command whose characters are separated by very long pauses (a person typing): the
    pauses are simulated cycle by cycle; the monitor is the one of the explored graphs"""
    with core.quiet():
        c = build_req(dict(d, ncmd=1))
    todo = list(d['text'])
    cycles = 0
    sent = 0
    wait = 0
    problem = None
    while cycles < d['pause'] * (len(todo) + 1) + 400:
        ncmd, kind, ndig, num, off = c.env
        if off is not None:
            x = off
        elif sent < len(todo) and wait <= 0:
            x = todo[sent]
        else:
            x = ''
        before = c.env
        req_step(c, x)
        cycles += 1
        wait -= 1
        if x and c.env[4] is None and x == (todo[sent] if sent < len(todo) else None):
            sent += 1                      # transferred
            wait = d['pause'] if sent in d['pause_after'] else 0
        if c.problem:
            problem = dict(c.problem, cycle=cycles, characters_transferred=sent)
            break
        if sent == len(todo) and c.quiet >= FINAL_QUIET + 2:
            break
    res = {'configs': 1, 'states': 0, 'transitions': cycles, 'traces_validated_against_impl': 1, 'evaluations': 1, 'distinct_nontrivial': 1,
           'distinct_outcomes': 2, 'vacuous_ok': True, 'violations': [], 'samples': [{'config': d, 'cycles': cycles}], 'closed_graphs': 1}
    if problem is None and sent != len(todo):
        problem = {'sigkey': 'stuck', 'what': 'only %d of %d characters were taken in %d cycles' % (sent, len(todo), cycles)}
    if problem:
        res['violations'].append({'sig': 'C20:CMDRequest:%s' % problem['sigkey'], 'shard': d, 'trace': [], 'detail': problem})
    return res


def run_shard(d):
    if d['blk'] == 'reqdir':
        return run_reqdir(d)
    if d['blk'] == 'req':
        return run_req(d)
    if d['blk'] == 'resp':
        return run_resp(d)
    return run_loop(d)


def replay(v):
    b = v['shard']['blk']
    if b == 'reqdir':
        r = run_reqdir(v['shard'])
        return {'shard': v['shard'], 'violates': bool(r['violations']), 'detail': [x['detail'] for x in r['violations']][:1]}
    if b == 'req':
        return replay_req(v)
    if b == 'resp':
        return replay_resp(v)
    return replay_loop(v)


def finish(cov, results, tier):
    cov['by_block'] = {}
    for b in ('req', 'resp', 'loop'):
        rs = [r for r in results if r['shard']['blk'] == b]
        if rs:
            cov['by_block'][b] = {'shards': len(rs), 'states': sum(r.get('states', 0) for r in rs),
                                  'transitions': sum(r.get('transitions', 0) for r in rs),
                                  'evaluations': sum(r.get('evaluations', 0) for r in rs),
                                  'closed': sum(r.get('closed_graphs', 0) for r in rs)}
