"""C07 — integer arithmetic blocks compute their mathematical function for all inputs.

Exhaustive truth tables (mc.comb.run_comb) of every arithmetic block against the
plain-integer reference functions of mc.refmodels.arith, for every combination of
port widths in 1..W (each port independently) and every constructor option.

One *configuration* = (block, options, width of every port[, constant n]).
One *shard* = a small family of configurations (all widths of the second port, or
all result widths / constants of a unary block) so that the shard count stays in the
hundreds; violations carry the single configuration they belong to."""
import itertools

import py4hw
from mc import core
from mc import comb
from mc.refmodels import arith as A

LEVEL = 'exploration'
RULE = ('for each block, each constructor option and each combination of port widths in the bound (every port '
        'independently, so results wider and narrower than the operands occur) ALL input vectors are applied to a '
        'fresh instance and every output is compared with the Python-integer reference reduced modulo 2**(output '
        'width); a vector is non-trivial when some expected output is non-zero; vectors outside the statement '
        '(zero divisor, rotation amount above the data width) are skipped and counted; width combinations refused '
        'by a constructor assertion are counted as constructor_rejected')
ASSUMPTIONS = [
    'unsigned blocks read their operands as the non-negative wire value; Signed* blocks, Abs, Sign, SignExtend and '
    'the arithmetic ShiftRight decode each operand as two\'s complement at that operand\'s own width',
    'Add co = bit of weight 2**width(r) of a+b+ci (i.e. floor(sum / 2**rw) mod 2); SignedAdd co = carry of the unsigned '
    'addition of the two rw-bit two\'s-complement patterns',
    'Neg is not a signed variant: r = (-a) mod 2**rw with a the unsigned wire value (identical to the signed reading '
    'whenever width(r) <= width(a))',
    'rotations rotate within the width of a, then the pattern is reduced modulo 2**width(r); amounts above width(a) '
    'are outside the statement ("all rotation amounts up to the data width") and skipped; Rotate*Constant with '
    'n = width(a)+1 is therefore counted as skipped, not run',
    'CountLeadingZeros: r = number of leading zeros of the width(a)-bit pattern (width(a) when a == 0) mod 2**width(r), '
    'z = 1 iff a == 0; BinaryToBCD: packed BCD digits of a, low width(r)/4 digits',
    'an exception raised while simulating an accepted configuration on an in-domain input is a violation '
    '(sig ...:raises:<type>); an exception raised by the constructor is a rejected configuration',
    'a configuration whose reference output is constant over its whole domain (e.g. ShiftRightConstant with n >= width) '
    'is exempt from the one-outcome vacuity guard',
]
BOUNDS = {
    'quick': 'plus boundary-value (corner) alphabets at port widths 8, 32, 33, 64 for every block; ' + 'every port width 1..3 (shift/rotate amount wires 1..3 bits: amounts 0..7); constant shifts n in '
             '0..max(aw,rw)+1, constant rotates n in 0..aw; CountLeadingZeros a 1..9 bits x r 1..5 bits; BinaryToBCD '
             'a 1..8 bits x r in {3,4,6,8,12}',
    'thorough': 'binary blocks every port width 1..6 (amount wires up to 6 bits: amounts 0..63), unary blocks and '
                'constant shift/rotate every port width 1..8 (same n rule); CountLeadingZeros a 1..12 x r 1..5; '
                'BinaryToBCD a 1..11 bits x r in {3,4,6,8,12}',
}

BINARY = {
    'Add': [{'ci': ci, 'co': co} for ci in (0, 1) for co in (0, 1)],
    'SignedAdd': [{'ci': ci, 'co': co} for ci in (0, 1) for co in (0, 1)],
    'AddCarryIn': [{}],
    'Sub': [{}],
    'SignedSub': [{}],
    'SubBorrowIn': [{}],
    'Mul': [{}],
    'SignedMul': [{}],
    'Div': [{}],
    'Mod': [{}],
    'SignedDiv': [{}],
    'ShiftLeft': [{}],
    'ShiftRight': [{'arith': 0}, {'arith': 1}, {'arith': 'wire'}],
    'RotateLeft': [{}],
    'RotateRight': [{}],
}
UNARY = {
    'Neg': [{}],
    'Abs': [{'inv': 0}, {'inv': 1}],
    'Sign': [{}],
    'SignExtend': [{}],
    'ZeroExtend': [{}],
}
SHIFT_CONST = ('ShiftLeftConstant', 'ShiftRightConstant')
ROT_CONST = ('RotateLeftConstant', 'RotateRightConstant')
CONST = SHIFT_CONST + ROT_CONST


# ---------------------------------------------------------------------------- shards
def shards(tier):
    T = tier == 'thorough'
    Wb = 6 if T else 3
    Wu = 8 if T else 3
    out = []
    for blk, opts in BINARY.items():
        for o in opts:
            for aw in range(1, Wb + 1):
                for rw in range(1, Wb + 1):
                    d = {'block': blk}
                    d.update(o)
                    d.update({'aw': aw, 'rw': rw, 'bws': list(range(1, Wb + 1))})
                    out.append(d)
    for blk, opts in UNARY.items():
        for o in opts:
            for aw in range(1, Wu + 1):
                d = {'block': blk}
                d.update(o)
                d.update({'aw': aw, 'rws': list(range(1, Wu + 1))})
                out.append(d)
    for blk in CONST:
        for aw in range(1, Wu + 1):
            out.append({'block': blk, 'aw': aw, 'rws': list(range(1, Wu + 1))})
    # wide configurations (sizes that invite special-casing): boundary-value alphabet on every wide port
    import math
    for W in ((7, 8, 9, 15, 16, 17, 31, 32, 33, 63, 64, 65) if T else (8, 32, 33, 64)):
        sh = int(math.ceil(math.log2(W))) + 1
        for blk, opts in BINARY.items():
            for o in opts:
                bw = sh if blk in ('ShiftLeft', 'ShiftRight', 'RotateLeft', 'RotateRight') else W
                for rw in (W, W + 1) + ((2 * W,) if blk in ('Mul', 'SignedMul') else ()):
                    d = {'block': blk}
                    d.update(o)
                    d.update({'aw': W, 'rw': rw, 'bws': [bw], 'corner': 1})
                    out.append(d)
        for blk, opts in UNARY.items():
            for o in opts:
                d = {'block': blk}
                d.update(o)
                d.update({'aw': W, 'rws': [1, W - 1, W, W + 1, 2 * W], 'corner': 1})
                out.append(d)
        for blk in CONST:
            out.append({'block': blk, 'aw': W, 'rws': [W, W + 1], 'corner': 1})
        out.append({'block': 'CountLeadingZeros', 'aw': W, 'rws': [sh], 'corner': 1})
    # life cycle: the simulator is first obtained on the empty system, then the block is added and it is obtained again
    for blk, opts in BINARY.items():
        d = {'block': blk}
        d.update(opts[0])
        d.update({'aw': 2, 'rw': 2, 'bws': [2], 'early': 1})
        out.append(d)
    for blk, opts in UNARY.items():
        d = {'block': blk}
        d.update(opts[0])
        d.update({'aw': 2, 'rws': [2, 3], 'early': 1})
        out.append(d)
    for blk in CONST:
        out.append({'block': blk, 'aw': 2, 'rws': [2], 'early': 1})
    # ... and the simulator class constructed directly (Simulator(hw)) instead of hw.getSimulator()
    for sh in [x for x in out if x.get('early')]:
        out.append(dict({k: v for k, v in sh.items() if k != 'early'}, directsim=1, aw=3))
    for aw in range(1, (12 if T else 9) + 1):
        out.append({'block': 'CountLeadingZeros', 'aw': aw, 'rws': [1, 2, 3, 4, 5]})
    for aw in range(1, (11 if T else 8) + 1):
        out.append({'block': 'BinaryToBCD', 'aw': aw, 'rws': [3, 4, 6, 8, 12]})
    return out


def expand(desc):
    """The configurations of one shard."""
    base = {k: v for k, v in desc.items() if k not in ('bws', 'rws')}
    out = []
    for bw in desc.get('bws', [None]):
        for rw in desc.get('rws', [None]):
            c = dict(base)
            if bw is not None:
                c['bw'] = bw
            if rw is not None:
                c['rw'] = rw
            if c['block'] in SHIFT_CONST:
                for n in range(0, max(c['aw'], c['rw']) + 2):
                    out.append(dict(c, n=n))
            elif c['block'] in ROT_CONST:
                for n in range(0, c['aw'] + 2):
                    out.append(dict(c, n=n))
            else:
                out.append(c)
    return out


def cost(desc):
    n = 0
    for c in expand(desc):
        bits = c['aw'] + c.get('bw', 0) + (1 if c.get('ci') else 0) + (1 if c.get('arith') == 'wire' else 0)
        n += 1 << bits
    return n


# ---------------------------------------------------------------------------- building
def build(c):
    """(hw, ins, outs) for one configuration; raises if the constructor refuses it.
    Does not create the simulator (py4hw propagates once while creating it)."""
    hw = py4hw.HWSystem()
    ins, outs = [], []

    def I(n, w=1):
        x = hw.wire(n, w)
        ins.append((n, x))
        return x

    def O(n, w=1):
        x = hw.wire(n, w)
        outs.append((n, x))
        return x

    blk = c['block']
    aw, rw = c['aw'], c['rw']
    a = I('a', aw)
    if blk in BINARY:
        b = I('b', c['bw'])
        r = O('r', rw)
        if blk in ('Add', 'SignedAdd'):
            ci = I('ci') if c['ci'] else None
            co = O('co') if c['co'] else None
            getattr(py4hw, blk)(hw, 'dut', a, b, r, ci=ci, co=co)
        elif blk == 'AddCarryIn':
            py4hw.AddCarryIn(hw, 'dut', a, b, r, I('ci'))
        elif blk == 'SubBorrowIn':
            py4hw.SubBorrowIn(hw, 'dut', a, b, r, I('bi'))
        elif blk == 'ShiftRight':
            ar = c['arith']
            if ar == 'wire':
                py4hw.ShiftRight(hw, 'dut', a, b, r, arithmetic=I('arith'))
            else:
                py4hw.ShiftRight(hw, 'dut', a, b, r, arithmetic=bool(ar))
        else:
            getattr(py4hw, blk)(hw, 'dut', a, b, r)
    elif blk == 'Abs':
        r = O('r', rw)
        py4hw.Abs(hw, 'dut', a, r, inverted=O('inverted') if c['inv'] else None)
    elif blk in UNARY:
        getattr(py4hw, blk)(hw, 'dut', a, O('r', rw))
    elif blk in CONST:
        getattr(py4hw, blk)(hw, 'dut', a, c['n'], O('r', rw))
    elif blk == 'CountLeadingZeros':
        r = O('r', rw)
        py4hw.CountLeadingZeros(hw, 'dut', a, r, O('z'))
    elif blk == 'BinaryToBCD':
        py4hw.BinaryToBCD(hw, 'dut', a, O('r', rw))
    else:
        raise ValueError(blk)
    return hw, ins, outs


# ---------------------------------------------------------------------------- oracle
def ref(c, x):
    """Expected outputs (dict) or None when the input is outside the statement's domain."""
    blk = c['block']
    aw, rw = c['aw'], c['rw']
    bw = c.get('bw')
    a = x['a']
    b = x.get('b')
    if blk == 'Add':
        ci = x.get('ci', 0)
        out = {'r': A.add(a, b, ci, rw)}
        if c['co']:
            out['co'] = A.carry_out(a, b, ci, rw)
        return out
    if blk == 'SignedAdd':
        ci = x.get('ci', 0)
        out = {'r': A.signed_add(a, aw, b, bw, ci, rw)}
        if c['co']:
            out['co'] = A.signed_carry_out(a, aw, b, bw, ci, rw)
        return out
    if blk == 'AddCarryIn':
        r = A.add(a, b, x['ci'], rw)
    elif blk == 'Sub':
        r = A.sub(a, b, rw)
    elif blk == 'SignedSub':
        r = A.signed_sub(a, aw, b, bw, rw)
    elif blk == 'SubBorrowIn':
        r = A.sub_borrow(a, b, x['bi'], rw)
    elif blk == 'Mul':
        r = A.mul(a, b, rw)
    elif blk == 'SignedMul':
        r = A.signed_mul(a, aw, b, bw, rw)
    elif blk == 'Div':
        r = A.div(a, b, rw)
    elif blk == 'Mod':
        r = A.mod(a, b, rw)
    elif blk == 'SignedDiv':
        r = A.signed_div(a, aw, b, bw, rw)
    elif blk == 'ShiftLeft':
        r = A.shl(a, b, rw)
    elif blk == 'ShiftRight':
        ar = x['arith'] if c['arith'] == 'wire' else c['arith']
        r = A.sar(a, aw, b, rw) if ar else A.shr(a, b, rw)
    elif blk == 'RotateLeft':
        r = A.rotl(a, aw, b, rw)
    elif blk == 'RotateRight':
        r = A.rotr(a, aw, b, rw)
    elif blk == 'Neg':
        r = A.neg(a, rw)
    elif blk == 'Abs':
        out = {'r': A.absolute(a, aw, rw)}
        if c['inv']:
            out['inverted'] = A.is_negative(a, aw)
        return out
    elif blk == 'Sign':
        r = A.is_negative(a, aw)
    elif blk == 'SignExtend':
        r = A.sign_extend(a, aw, rw)
    elif blk == 'ZeroExtend':
        r = A.zero_extend(a, rw)
    elif blk == 'ShiftLeftConstant':
        r = A.shl(a, c['n'], rw)
    elif blk == 'ShiftRightConstant':
        r = A.shr(a, c['n'], rw)
    elif blk == 'RotateLeftConstant':
        r = A.rotl(a, aw, c['n'], rw)
    elif blk == 'RotateRightConstant':
        r = A.rotr(a, aw, c['n'], rw)
    elif blk == 'CountLeadingZeros':
        return {'r': A.clz(a, aw, rw), 'z': A.is_zero(a)}
    elif blk == 'BinaryToBCD':
        r = A.bcd(a, rw)
    else:
        raise ValueError(blk)
    if r is None:
        return None
    return {'r': r}


# ---------------------------------------------------------------------------- running
def _probe_raise(c):
    """Plain loop on a fresh instance: first in-domain input vector on which simulating the block raises.
    Returns (vector, phase, exception) or None."""
    hw, ins, outs = build(c)
    names = [n for n, _ in ins]
    vecs = [x for x in comb.enumerate_vectors(ins) if ref(c, dict(zip(names, x))) is not None]
    try:
        sim = hw.getSimulator()
    except Exception as e:
        core.reset_prepared()
        return (vecs[0] if vecs else None), 'getSimulator', e
    for x in vecs:
        for (n, w), v in zip(ins, x):
            w.put(v)
        try:
            sim.propagateAll()
        except Exception as e:
            core.reset_prepared()
            return x, 'propagateAll', e
    return None


def run_config(c):
    if c['block'] in ROT_CONST and c['n'] > c['aw']:
        # rotation amount above the data width: outside the statement for every input
        return {'configs': 1, 'evaluations': 0, 'distinct_nontrivial': 0,
                'skipped_precondition': len(comb.corner_values(c['aw'])) if c.get('corner') and c['aw'] > 6 else 1 << c['aw'],
                'distinct_outcomes': 0, 'vacuous_ok': True, 'violations': [], 'samples': []}
    expected = set()

    def ref_rec(d, xd):
        e = ref(d, xd)
        if e is not None:
            expected.add(tuple(sorted(e.items())))
        return e

    try:
        res = comb.run_comb(c, build, ref_rec, 'C07', alphabets='corner' if c.get('corner') else None)
    except Exception as e0:
        core.reset_prepared()
        pr = _probe_raise(c)
        x, phase, e = pr if pr is not None else (None, 'unknown', e0)
        if x is None and pr is not None:
            # raises, but no input of this configuration is inside the statement's domain
            return {'configs': 1, 'evaluations': 0, 'distinct_nontrivial': 0, 'distinct_outcomes': 0,
                    'vacuous_ok': True, 'violations': [], 'samples': []}
        return {'configs': 1, 'evaluations': 1, 'distinct_nontrivial': 0, 'distinct_outcomes': 0, 'vacuous_ok': True,
                'samples': [],
                'violations': [{'sig': 'C07:%s:raises:%s' % (comb.cfgname(c), type(e).__name__), 'shard': c,
                                'trace': [list(x)] if x is not None else [],
                                'detail': {'exception': repr(e)[:300], 'phase': phase,
                                           'inputs_in_port_order': list(x) if x is not None else None}}]}
    if len(expected) < 2 or res['violations']:
        res['vacuous_ok'] = True
    return res


_SUM = ('configs', 'evaluations', 'distinct_nontrivial', 'skipped_precondition', 'constructor_rejected')


def run_shard(desc):
    out = {k: 0 for k in _SUM}
    out.update({'violations': [], 'samples': [], 'width_violations': [], 'width_monitor_checks': 0})
    nonvac = []
    rejected_sample = None
    for c in expand(desc):
        r = run_config(c)
        for k in _SUM:
            out[k] += int(r.get(k, 0))
        out['width_monitor_checks'] += int(r.get('evaluations', 0))
        out['violations'].extend(r.get('violations', []))
        out['width_violations'].extend(r.get('width_violations', [])[:1])
        for s in r.get('samples', []):
            if 'rejected' in s:
                rejected_sample = rejected_sample or s
            elif len(out['samples']) < 2:
                out['samples'].append(s)
        if not r.get('vacuous_ok'):
            nonvac.append(r.get('distinct_outcomes', 0))
    if not out['samples'] and rejected_sample:
        out['samples'].append(rejected_sample)
    out['width_violations'] = out['width_violations'][:3]
    out['distinct_outcomes'] = min(nonvac) if nonvac else 0
    out['vacuous_ok'] = not nonvac
    return out


# ---------------------------------------------------------------------------- replay
def replay(v):
    """Plain re-execution of one violating vector on a fresh instance."""
    c = v['shard']
    try:
        hw, ins, outs = build(c)
    except Exception as e:
        core.reset_prepared()
        return {'config': c, 'constructor_rejected': repr(e)[:200], 'violates': False}
    x = v['trace'][0] if v.get('trace') else [0] * len(ins)
    xd = dict(zip([n for n, _ in ins], x))
    exp = ref(c, xd)
    if exp is None:
        return {'config': c, 'inputs': xd, 'outside_domain': True, 'violates': False}
    try:
        sim = hw.getSimulator()
        for (n, w), val in zip(ins, x):
            w.put(val)
        sim.propagateAll()
    except Exception as e:
        core.reset_prepared()
        return {'config': c, 'inputs': xd, 'expected': exp, 'raised': repr(e)[:300], 'violates': True}
    got = {n: w.get() for n, w in outs}
    bad = [n for n in exp if exp[n] is not None and got.get(n) != exp[n]]
    return {'config': c, 'inputs': xd, 'got': got, 'expected': exp, 'violates': bool(bad), 'wrong_outputs': bad}
