"""C08 — logic, selection and comparison blocks implement their truth tables exactly.

One configuration = one (block, parameters) instance built alone in a HWSystem with
undriven input wires; ALL input vectors are applied (mc.comb.run_comb) and every
output is compared with the reference function of mc.refmodels.logic wherever the
documentation defines it."""
import itertools

import py4hw
from mc import core
from mc import comb
from mc.refmodels import logic

LEVEL = 'exploration'
RULE = ('one shard per (block, parameter) configuration of py4hw/logic/bitwise.py and relational.py; every input '
        'vector of the configuration is enumerated (2^(sum of input widths)), the block is settled with '
        'propagateAll() and every output wire is compared with the reference truth table; vectors outside the '
        'documented domain (non-one-hot selects, PriorityEncoder with no active input, SelectDefault with several '
        'selects high) are enumerated but not compared and counted as skipped_precondition; a vector is non-trivial '
        'when some expected output is non-zero')
ASSUMPTIONS = [
    'reference truth tables in mc/refmodels/logic.py are trusted (written from the docstrings)',
    'Demux / OneHotDemux: outputs that are not selected are expected to be 0 (conventional demultiplexer; the '
    'docstrings only say the input is routed to ONE of the outputs)',
    'Swap: swap=1 exchanges a and b, swap=0 passes them straight (the docstring only names the control wire)',
    'PriorityEncoder: one output per input, 1 on the winning input and 0 elsewhere; direction taken from the '
    'inc_priority parameter text of the docstring; no active input is undocumented and skipped',
    'Select/OneHotMux/OneHotDemux compared only for exactly one select high; SelectDefault for none or exactly one',
    'constructor exceptions/assertions (Xor with one input, AnyEqual with one input, SumOfMinterms with no minterm, '
    'Comparator family with different a/b widths) are refusals, counted as constructor_rejected',
    'constant shift/rotate blocks belong to C07, FP / fixed-point comparators to C13/C14; BidirBuf, Digit7Segment '
    'and Constant are not in the statement',
]
BOUNDS = {
    'quick': 'data widths 1..2; n-ary gates arity 1..4; AndBits/OrBits/Bits* widths 1..4; Mux/Demux/'
             'Decoder k 1..2; one-hot selectors / SelectDefault / PriorityEncoder 1..3 ways; Minterm 1..3 bits, '
             'EqualConstant/NotEqualConstant widths 1..3, every constant; SumOfMinterms every subset at w<=2; '
             'Bit/Range every index (pair) at w<=3, Range also into results 1 and 2 bits wider than the field; Concatenate* every split of <=3 bits into <=3 parts; '
             'comparators widths 1..2 (+ mixed 1/2); AnyEqual 1..3 inputs',
    'thorough': 'data widths 1..3; n-ary gates arity 1..5; AndBits/OrBits/Bits* widths 1..5; Mux k 1..3 (k=3 only '
                'for w<=2: 2^19 vectors), Demux/Decoder k 1..3 (Decoder also k=4); one-hot selectors / SelectDefault '
                '1..4 ways, PriorityEncoder 1..5 ways x both directions; Minterm 1..4 bits, EqualConstant/'
                'NotEqualConstant widths 1..4, every constant; SumOfMinterms every subset at w<=3; Bit/Range every '
                'index (pair) at w<=4; Concatenate* every split of <=5 bits into <=3 parts (result width exact and '
                '+1); comparators widths 1..4 (Equal also every mixed pair of widths 1..3); AnyEqual 1..4 inputs '
                '(5 at w=1)',
}
for k in ('quick', 'thorough'):
    BOUNDS[k] += '; also Bit above the most significant bit, every ordered pair of constant-comparison helpers on one wire, AnyEqual with 11..13 inputs; n-ary And/Or/Xor/Nor with inputs of different widths (14 width lists of 2..4 inputs of 1..3 bits, result as wide as the widest, narrower, wider)'


class Rejected(Exception):
    """The py4hw constructor refused the configuration."""


def _compositions(total, maxparts):
    out = []
    for n in range(1, maxparts + 1):
        for cuts in itertools.combinations(range(1, total), n - 1):
            b = (0,) + cuts + (total,)
            out.append([b[i + 1] - b[i] for i in range(n)])
    return out


def _configs(tier):
    T = tier == 'thorough'
    W3 = (1, 2, 3) if T else (1, 2)
    W4 = (1, 2, 3, 4) if T else (1, 2)
    out = []
    A = out.append
    # n-ary gates
    for b in ('And', 'Or', 'Xor', 'Nor'):
        for n in range(1, 6 if T else 5):
            for w in W3:
                A({'block': b, 'n': n, 'w': w})
    # n-ary gates whose inputs differ in width (operands are zero-extended / cut to the width of the result): every
    # position of the narrowest and of the widest operand, result as wide as the widest operand, narrower, wider
    for b in ('And', 'Or', 'Xor', 'Nor'):
        for ws, rw in (('1+2', 2), ('2+1', 2), ('2+3', 3), ('1+3+3', 3), ('3+1+2', 3), ('1+2+3', 3), ('3+2+1', 3),
                       ('2+2+1', 2), ('1+1+2', 2), ('1+2+2', 3), ('2+2+2', 3), ('2+2+2', 1), ('2+1+1+2', 2), ('1+2+1+2', 2)):
            A({'block': b, 'ws': ws, 'w': rw})
    for b in ('And2', 'Or2', 'Xor2', 'Nand2', 'Nor2', 'BufEnable', 'Swap'):
        for w in W3:
            A({'block': b, 'w': w})
    for b in ('Not', 'Buf', 'Repeat'):
        for w in W4:
            A({'block': b, 'w': w})
    for b in ('AndBits', 'OrBits', 'BitsLSBF', 'BitsMSBF'):
        for w in range(1, 6 if T else 5):
            A({'block': b, 'w': w})
    for w in range(1, 5 if T else 4):
        for bit in range(w):
            A({'block': 'Bit', 'w': w, 'bit': bit})
        for bit in (w, w + 1):
            A({'block': 'Bit', 'w': w, 'bit': bit})          # a position above the most significant bit reads 0
        for low in range(w):
            for high in range(low, w):
                A({'block': 'Range', 'w': w, 'high': high, 'low': low})
                # the result wire is wider than the extracted field (the field is right aligned, the bits above it are 0)
                for rx in (1, 2):
                    A({'block': 'Range', 'w': w, 'high': high, 'low': low, 'rx': rx})
    for b in ('ConcatenateLSBF', 'ConcatenateMSBF'):
        for total in range(1, 6 if T else 4):
            for parts in _compositions(total, 3):
                for extra in (0, 1):
                    A({'block': b, 'parts': '+'.join(map(str, parts)), 'extra': extra})
        # the same wire more than once in the list (manual sign extension {s,s,s,x}, duplication {n,n})
        for parts, rep in (('1+2', '0+0+1'), ('1+2', '0+1+0'), ('1+2', '1+1'), ('1+2', '0+0+0+0+1'), ('1', '0+0'), ('2', '0+0+0')):
            A({'block': b, 'parts': parts, 'rep': rep, 'extra': 0})
    for w in W3:
        for selw in (1, 2):
            A({'block': 'Mux2', 'w': w, 'selw': selw})
    for k in range(1, 4 if T else 3):
        for w in W3:
            if (1 << k) * w + k <= 19:
                A({'block': 'Mux', 'k': k, 'w': w})
            A({'block': 'Demux', 'k': k, 'w': w})
        A({'block': 'Decoder', 'k': k})
    if T:
        A({'block': 'Decoder', 'k': 4})
    for n in range(1, 5 if T else 4):
        for w in W3:
            for b in ('Select', 'OneHotMux', 'OneHotDemux', 'SelectDefault'):
                A({'block': b, 'n': n, 'w': w})
    for n in range(1, 6 if T else 4):
        for inc in (1, 0):
            A({'block': 'PriorityEncoder', 'n': n, 'inc': inc})
    for n in range(1, 5 if T else 4):
        for v in range(1 << n):
            A({'block': 'Minterm', 'n': n, 'value': v})
    for w in range(1, 4 if T else 3):
        for m in range(1 << (1 << w)):
            A({'block': 'SumOfMinterms', 'w': w, 'minterms': '+'.join(str(i) for i in range(1 << w) if (m >> i) & 1)})
    # the helper functions (py4hw.helper.LogicHelper.hw_*): an alternative way to the same blocks
    for fn, (sig, _) in sorted(logic.HELPERS.items()):
        for w in ((1, 2, 3) if T else (1, 2)):
            if sig == 'ak':
                signed = 'signed' in fn
                ks = range(-(1 << (w - 1)), 1 << (w - 1)) if signed else range(0, 1 << w)
                for k in ks:
                    A({'block': 'Helper', 'fn': fn, 'w': w, 'k': k})
            elif sig == 'list':
                for n in (1, 2, 3, 5):
                    A({'block': 'Helper', 'fn': fn, 'w': w, 'n': n})
            elif sig == 'aud':
                for down in range(w):
                    for up in range(down, w):
                        A({'block': 'Helper', 'fn': fn, 'w': w, 'up': up, 'down': down})
            else:
                A({'block': 'Helper', 'fn': fn, 'w': w})
    # two constant-comparison helpers of ONE LogicHelper on the same wire with the same constant, every ordered pair
    akf = sorted(fn for fn, (sig, _) in logic.HELPERS.items() if sig == 'ak')
    for f1, f2 in itertools.permutations(akf, 2):
        for w in ((2, 3) if T else (2,)):
            for k in range(0, 1 << (w - 1)):
                A({'block': 'HelperPair', 'fn1': f1, 'fn2': f2, 'w': w, 'k': k})
    for w in range(1, 5 if T else 4):
        # negative constants denote their two's-complement pattern (the convention of Wire.put and Constant)
        for v in list(range(1 << w)) + [-1, -(1 << (w - 1))] + ([-2] if w > 1 else []):
            A({'block': 'EqualConstant', 'w': w, 'v': v})
            A({'block': 'NotEqualConstant', 'w': w, 'v': v})
    for n in range(2, 5 if T else 4):
        for v in (-1, -(1 << (n - 1))):
            A({'block': 'Minterm', 'n': n, 'value': v})
    # comparators
    mixed_all = [(a, b) for a in W3 for b in W3 if a != b]
    mixed_few = [(1, 2), (2, 1)] + ([(2, 3), (3, 1)] if T else [])
    for b in ('Equal', 'Comparator', 'ComparatorSignedUnsigned', 'Min2', 'Max2', 'SignedMin2', 'SignedMax2'):
        for w in W4:
            A({'block': b, 'wa': w, 'wb': w})
        for wa, wb in (mixed_all if b == 'Equal' else mixed_few):
            A({'block': b, 'wa': wa, 'wb': wb})
    for n in range(1, 5 if T else 4):
        for w in W3:
            A({'block': 'AnyEqual', 'n': n, 'w': w})
    # scale: more inputs than any pairwise / tree / halving construction treats specially
    for n in (4, 5, 6):
        A({'block': 'AnyEqual', 'n': n, 'w': 2})
    A({'block': 'AnyEqual', 'n': 5, 'w': 3})
    for n in (11, 12, 13):
        A({'block': 'AnyEqual', 'n': n, 'w': 1})
    for b in ('And', 'Or', 'Xor', 'Nor'):
        for n in (6, 7, 9, 17):
            A({'block': b, 'n': n, 'w': 1})
    for n in (5, 6):
        A({'block': 'Minterm', 'n': n, 'value': (1 << n) - 2})
        A({'block': 'Minterm', 'n': n, 'value': 21 & ((1 << n) - 1)})
    if T:
        A({'block': 'AnyEqual', 'n': 5, 'w': 1})
    # wide configurations (sizes that invite special-casing), boundary-value alphabet on the wide ports
    for w in ((7, 8, 9, 16, 31, 32, 33, 63, 64, 65) if T else (8, 32, 33, 64)):
        for b in ('And2', 'Or2', 'Xor2', 'Nand2', 'Nor2', 'BufEnable', 'Swap', 'Not', 'Buf', 'Repeat', 'AndBits', 'OrBits'):
            A({'block': b, 'w': w, 'corner': 1})
        for b in ('And', 'Or', 'Xor', 'Nor'):
            A({'block': b, 'n': 3, 'w': w, 'corner': 1})
        A({'block': 'Mux2', 'w': w, 'selw': 1, 'corner': 1})
        A({'block': 'Mux', 'k': 1, 'w': w, 'corner': 1})
        for bit in (0, w // 2, w - 1):
            A({'block': 'Bit', 'w': w, 'bit': bit, 'corner': 1})
        for high, low in ((w - 1, 0), (w - 1, w - 1), (w // 2, 1), (w - 2, w // 2)):
            A({'block': 'Range', 'w': w, 'high': high, 'low': low, 'corner': 1})
        for v in (0, 1, (1 << w) - 1, 1 << (w - 1), (1 << w) // 3):
            A({'block': 'EqualConstant', 'w': w, 'v': v, 'corner': 1})
            A({'block': 'NotEqualConstant', 'w': w, 'v': v, 'corner': 1})
        for b in ('Equal', 'Comparator', 'ComparatorSignedUnsigned', 'Min2', 'Max2', 'SignedMin2', 'SignedMax2'):
            A({'block': b, 'wa': w, 'wb': w, 'corner': 1})
        A({'block': 'AnyEqual', 'n': 2, 'w': w, 'corner': 1})
        for b in ('Select', 'OneHotMux', 'SelectDefault'):
            A({'block': b, 'n': 2, 'w': w, 'corner': 1})
    return out


def shards(tier):
    out = list(_configs(tier))
    # life cycle: the simulator is first obtained on the empty system, then the block is added and it is obtained again
    seen = set()
    for c in _configs(tier):
        if c['block'] not in seen and not c.get('corner'):
            seen.add(c['block'])
            out.append(dict(c, early=1))
            out.append(dict(c, directsim=1))     # the simulator class constructed directly instead of hw.getSimulator()
    return out


def _inbits(d):
    b = d['block']
    w = d.get('w', 1)
    n = d.get('n', 1)
    if d.get('ws'):
        return sum(logic.ints(d['ws']))
    if b in ('And', 'Or', 'Xor', 'Nor', 'AnyEqual'):
        return n * w
    if b in ('And2', 'Or2', 'Xor2', 'Nand2', 'Nor2'):
        return 2 * w
    if b in ('Swap', 'Mux2'):
        return 2 * w + d.get('selw', 1)
    if b == 'BufEnable':
        return w + 1
    if b in ('ConcatenateLSBF', 'ConcatenateMSBF'):
        pws = logic.ints(d['parts'])
        return sum(pws[i] for i in set(logic.ints(d['rep']))) if d.get('rep') else sum(pws)
    if b == 'Mux':
        return (1 << d['k']) * w + d['k']
    if b == 'Demux':
        return w + d['k']
    if b == 'Decoder':
        return d['k']
    if b in ('Select', 'OneHotMux'):
        return n * (w + 1)
    if b == 'OneHotDemux':
        return n + w
    if b == 'SelectDefault':
        return n * (w + 1) + w
    if b == 'HelperPair':
        return w
    if b == 'Helper':
        sig = logic.HELPERS[d['fn']][0]
        return {'a': w, 'ak': w, 'aud': w, 'ab': 2 * w, 'abc': 3 * w, 'abcd': 4 * w, 'sab': 2 * w + 1, 'list': n * w}[sig]
    if b in ('PriorityEncoder', 'Minterm'):
        return n
    if 'wa' in d:
        return d['wa'] + d['wb']
    return w


def cost(d):
    return 1 << _inbits(d)


def build(d):
    """-> (hw, ins, outs); raises Rejected when the py4hw constructor refuses the configuration."""
    hw = py4hw.HWSystem()
    b = d['block']
    ins, outs = [], []

    def I(n, w=1):
        x = hw.wire(n, w)
        ins.append((n, x))
        return x

    def O(n, w=1):
        x = hw.wire(n, w)
        outs.append((n, x))
        return x

    def IL(p, n, w=1):
        return [I('%s%d' % (p, i), w) for i in range(n)]

    def OL(p, n, w=1):
        return [O('%s%d' % (p, i), w) for i in range(n)]

    w = d.get('w', 1)
    n = d.get('n', 1)
    if b == 'HelperPair':
        from py4hw.helper import LogicHelper
        hlp = LogicHelper(hw)
        a = I('a', w)
        try:
            r1 = getattr(hlp, d['fn1'])(a, d['k'])
            r2 = getattr(hlp, d['fn2'])(a, d['k'])
        except Exception as e:
            core.reset_prepared()
            raise Rejected('%s: %s' % (type(e).__name__, e))
        d['_rw1'], d['_rw2'] = r1.getWidth(), r2.getWidth()
        outs.append(('r1', r1))
        outs.append(('r2', r2))
        return hw, ins, outs
    if b == 'Helper':
        # the same functionality reached through the convenience functions of py4hw.helper.LogicHelper
        from py4hw.helper import LogicHelper
        hlp = LogicHelper(hw)
        fn, k = d['fn'], d.get('k')
        sig = logic.HELPERS[fn][0]
        try:
            if sig == 'a':
                r = getattr(hlp, fn)(I('a', w))
            elif sig == 'ab':
                r = getattr(hlp, fn)(I('a', w), I('b', w))
            elif sig == 'ak':
                r = getattr(hlp, fn)(I('a', w), k)
            elif sig == 'abc':
                r = getattr(hlp, fn)(I('a', w), I('b', w), I('c', w))
            elif sig == 'abcd':
                r = getattr(hlp, fn)(I('a', w), I('b', w), I('c', w), I('d', w))
            elif sig == 'list':
                r = getattr(hlp, fn)(IL('in', n, w))
            elif sig == 'sab':
                r = getattr(hlp, fn)(I('sel'), I('a', w), I('b', w))
            elif sig == 'aud':
                r = getattr(hlp, fn)(I('a', w), d['up'], d['down'])
            else:
                raise ValueError(sig)
        except Exception as e:
            core.reset_prepared()
            raise Rejected('%s: %s' % (type(e).__name__, e))
        d['_rw'] = r.getWidth()
        outs.append(('r', r))
        return hw, ins, outs
    cls = getattr(py4hw, b)
    if b in ('And', 'Or', 'Xor', 'Nor') and d.get('ws'):
        args = ([I('in%d' % i, wi) for i, wi in enumerate(logic.ints(d['ws']))], O('r', w))
    elif b in ('And', 'Or', 'Xor', 'Nor'):
        args = (IL('in', n, w), O('r', w))
    elif b in ('And2', 'Or2', 'Xor2', 'Nand2', 'Nor2'):
        args = (I('a', w), I('b', w), O('r', w))
    elif b in ('Not', 'Buf'):
        args = (I('a', w), O('r', w))
    elif b == 'BufEnable':
        args = (I('a', w), I('en'), O('r', w))
    elif b in ('AndBits', 'OrBits'):
        args = (I('a', w), O('r'))
    elif b == 'Bit':
        args = (I('a', w), d['bit'], O('r'))
    elif b == 'Range':
        args = (I('a', w), d['high'], d['low'], O('r', d['high'] - d['low'] + 1 + d.get('rx', 0)))
    elif b in ('BitsLSBF', 'BitsMSBF'):
        args = (I('a', w), OL('b', w))
    elif b in ('ConcatenateLSBF', 'ConcatenateMSBF'):
        pws = logic.ints(d['parts'])
        if d.get('rep'):
            idx = logic.ints(d['rep'])
            ws = {i: I('in%d' % i, pws[i]) for i in sorted(set(idx))}      # only the wires that appear in the list
            args = ([ws[i] for i in idx], O('r', sum(pws[i] for i in idx) + d['extra']))
        else:
            args = ([I('in%d' % i, pw) for i, pw in enumerate(pws)], O('r', sum(pws) + d['extra']))
    elif b == 'Repeat':
        args = (I('i'), O('r', w))
    elif b == 'Mux2':
        args = (I('sel', d['selw']), I('sel0', w), I('sel1', w), O('r', w))
    elif b == 'Mux':
        args = (I('sel', d['k']), IL('in', 1 << d['k'], w), O('r', w))
    elif b == 'Demux':
        args = (I('a', w), I('sel', d['k']), OL('r', 1 << d['k'], w))
    elif b == 'Decoder':
        args = (I('a', d['k']), OL('b', 1 << d['k']))
    elif b in ('Select', 'OneHotMux'):
        args = (IL('s', n), IL('in', n, w), O('r', w))
    elif b == 'OneHotDemux':
        args = (IL('s', n), I('a', w), OL('out', n, w))
    elif b == 'SelectDefault':
        args = (IL('s', n), IL('in', n, w), I('default', w), O('r', w))
    elif b == 'PriorityEncoder':
        args = (IL('a', n), OL('r', n), bool(d['inc']))
    elif b == 'Minterm':
        args = (IL('b', n), d['value'], O('r'))
    elif b == 'SumOfMinterms':
        args = (I('a', w), logic.ints(d['minterms']), O('r'))
    elif b in ('EqualConstant', 'NotEqualConstant'):
        args = (I('a', w), d['v'], O('r'))
    elif b == 'Equal':
        args = (I('a', d['wa']), I('b', d['wb']), O('r'))
    elif b == 'Comparator':
        args = (I('a', d['wa']), I('b', d['wb']), O('gt'), O('eq'), O('lt'))
    elif b == 'ComparatorSignedUnsigned':
        args = (I('a', d['wa']), I('b', d['wb']), O('gtu'), O('eq'), O('ltu'), O('gt'), O('lt'))
    elif b in ('Min2', 'Max2', 'SignedMin2', 'SignedMax2'):
        args = (I('a', d['wa']), I('b', d['wb']), O('r', max(d['wa'], d['wb'])))
    elif b == 'Swap':
        args = (I('a', w), I('b', w), I('swap'), O('ra', w), O('rb', w))
    elif b == 'AnyEqual':
        args = (IL('in', n, w), O('r'))
    else:
        raise ValueError('unknown block ' + b)
    # A user addresses the inputs/outputs of a block through the very lists he passed: the port-name -> wire map the
    # check uses is rebuilt from those list objects AFTER construction, so a constructor that reorders its caller's
    # lists shows up as a wrong truth table.
    wire_id = {id(wr): nm for nm, wr in ins + outs}
    lists = [(a, [wire_id[id(x)] for x in a]) for a in args if isinstance(a, list) and a and all(id(x) in wire_id for x in a)]
    try:
        cls(hw, 'dut', *args)
    except Exception as e:                      # includes AssertionError
        core.reset_prepared()
        raise Rejected('%s: %s' % (type(e).__name__, e))
    remap = {}
    for lst, names in lists:
        for nm, wr in zip(names, lst):
            remap[nm] = wr
    ins = [(nm, remap.get(nm, wr)) for nm, wr in ins]
    outs = [(nm, remap.get(nm, wr)) for nm, wr in outs]
    return hw, ins, outs


def expected_refusal(d):
    """Configurations of the grid that the unchanged library is known to refuse (all other refusals are
    reported by the runner as vacuous shards = harness error, so a constructor that starts to raise
    cannot silently empty the check)."""
    b = d['block']
    if b in ('Xor', 'AnyEqual') and d['n'] == 1:
        return True          # Xor: 'List should be > 2'; AnyEqual: no pair to compare (IndexError in Or([]))
    if b == 'SumOfMinterms' and not d['minterms']:
        return True          # Or([]) -> IndexError
    if b in ('Comparator', 'ComparatorSignedUnsigned', 'Min2', 'Max2', 'SignedMin2', 'SignedMax2'):
        return d['wa'] != d['wb']      # 'a and b must have equal width'
    return False


def run_shard(d):
    # a bug of the harness in build() must not be booked as "constructor rejected" by run_comb
    try:
        build(d)
    except Rejected:
        pass
    expected = set()

    def ref(dd, xd):
        e = logic.ref(dd, xd)
        if e is not None:
            expected.add(tuple(sorted(e.items())))
        return e

    res = comb.run_comb(d, build, ref, 'C08', alphabets='corner' if d.get('corner') else None)
    if res.get('constructor_rejected'):
        # a refusal of a configuration outside the documented domain is not a violation; a configuration inside it
        # ("any number of inputs and any width it accepts" - the grid is what the documented API accepts) that cannot even be
        # built computes nothing: reported as a violation
        res['vacuous_ok'] = True
        if not expected_refusal(d):
            res['violations'].append({'sig': 'C08:%s:refused' % comb.cfgname(d), 'shard': d, 'trace': [],
                                      'detail': {'problem': 'the constructor refused a configuration of the documented domain',
                                                 'refusal': res['samples'][0].get('rejected') if res.get('samples') else None}})
    elif res['violations']:
        res['vacuous_ok'] = True      # a constant (stuck) output that is wrong is a violation, not vacuity
    elif len(expected) < 2:
        # the reference table itself is constant over the compared vectors (e.g. SumOfMinterms with all minterms)
        res['vacuous_ok'] = True
    return res


def finish(cov, results, tier):
    """Per-block coverage table and one sample per block family in the evidence."""
    per = {}
    samples = []
    seen = set()
    for r in results:
        b = r['shard']['block']
        p = per.setdefault(b, {'configs': 0, 'evaluations': 0, 'skipped_precondition': 0, 'constructor_rejected': 0})
        for k in p:
            p[k] += int(r.get(k, 0))
        for s in r.get('samples', []):
            if b not in seen and 'inputs' in s:
                seen.add(b)
                samples.append(s)
    cov['per_block'] = per
    cov['blocks'] = len(per)
    cov['blocks_without_evaluations'] = sorted(b for b, p in per.items() if not p['evaluations'])
    if samples:
        step = max(1, len(samples) // 12)
        cov['samples'] = samples[::step][:12]


def replay(v):
    return comb.replay_comb(v, build, logic.ref)
