"""C06 — wire values always fit their declared width.

Invariant 0 <= v < 2**width (and type int) on EVERY wire reachable from the HWSystem,
evaluated (a) after simulator creation, (b) after every clk / propagate, (c) inside a
simulator listener, (d) in Waveform samples, over: the whole design catalogue with all
input vectors; constants / stimulus / reset values / memory contents / direct put and
prepare with negative and oversized values; BFS over the sequential catalogue designs."""
import itertools
import types

import py4hw
from py4hw.base import Wire
from mc import core, catalog
from mc.props import c01

LEVEL = 'exploration'
RULE = ('family "catalog": every catalogue design (C07/C08/C09/C14 grids + extras) x all input vectors (corner alphabet above 8 input '
        'bits), 2 clk per vector for sequential designs, every wire of the hierarchy checked after simulator creation and after each '
        'clk, inside a listener and in a Waveform watching all wires; family "extremes": Constant / Sequence / Reg.reset_value / '
        'memory data / Wire.put / Wire.prepare / BidirWire with every value in [-2**w-1, 2**w+1] for w <= W and with boundary values at the '
        'special widths 8,16,31..33,63..65,128 (thorough: also 7,9,15,17,127,129). non-trivial = '
        'evaluation in which some wire is non-zero')
ASSUMPTIONS = ['the observation points are those of the statement: after simulator creation, after any clock call, inside listeners, waveform samples',
               'values poked by the harness itself go through Wire.put (the public way to drive an undriven wire)']
BOUNDS = {'quick': 'catalogue at the quick grids; extremes for widths 0..3 and the special widths (incl. one operand wider than the result for 10 two-operand primitives, Mux2 and Mux, either position / selection); numpy integer scalars of every dtype as stimulus',
          'thorough': 'catalogue at the thorough grids; extremes for widths 0..6 and the special widths; numpy scalars'}
for k in ('quick', 'thorough'):
    BOUNDS[k] += '; also every one-operand primitive with a result narrower than its operand and a constant shift whose amount parameter changes after the simulator exists'
CHUNK = 60


def shards(tier):
    n = len([d for d in c01._designs(tier) if d[2] == 'top'])
    out = [{'tier': tier, 'family': 'catalog', 'lo': i, 'hi': min(n, i + CHUNK)} for i in range(0, n, CHUNK)]
    for w in range(0, (6 if tier == 'thorough' else 3) + 1):        # width 0: a legal wire that can only carry 0
        out.append({'tier': tier, 'family': 'extremes', 'w': w})
    # widths around the sizes that invite special-casing (bytes, machine words): boundary values only
    for w in ([7, 8, 9, 15, 16, 17, 31, 32, 33, 63, 64, 65, 127, 128, 129] if tier == 'thorough' else [8, 16, 31, 32, 33, 63, 64, 65, 128]):
        out.append({'tier': tier, 'family': 'extremes', 'w': w, 'boundary': True})
    return out


def bad_wires(wires):
    out = []
    for w in wires:
        v = w.value
        if type(v) is not int or v < 0 or (v >> w.width):
            out.append((w.getFullPath(), repr(v), w.width))
    return out


class Listener:
    def __init__(self, wires):
        self.wires = wires
        self.bad = []
        self.calls = 0

    def simulatorUpdated(self):
        self.calls += 1
        b = bad_wires(self.wires)
        if b and not self.bad:
            self.bad = b


def run_catalog(d, res):
    designs = [x for x in c01._designs(d['tier']) if x[2] == 'top'][d['lo']:d['hi']]
    for source, cfg, place in designs:
        label = '%s:%s' % (source, cfg.get('block'))
        desc = {'family': 'catalog', 'source': source, 'cfg': cfg}

        def viol(where, bad, x=None):
            sig = 'C06:%s:%s' % (label, where)
            if sum(1 for v in res['violations'] if v['sig'] == sig) < 2:
                res['violations'].append({'sig': sig, 'shard': desc, 'trace': [list(x)] if x is not None else [],
                                          'detail': {'where': where, 'wires(path,value,width)': bad[:4]}})
        try:
            dd = catalog.build(source, cfg, place)
            wires = core.all_wires(dd.sys)
            wf = None
            plain = [w for w in wires if not isinstance(w, py4hw.BidirWire)]
            try:
                wf = py4hw.Waveform(dd.sys, 'c06_wvf', plain)
            except Exception:
                wf = None
            sim = dd.sys.getSimulator()
        except Exception:
            core.reset_prepared()
            res['constructor_rejected'] += 1
            continue
        res['configs'] += 1
        lst = Listener(wires)
        sim.addListener(lst)
        b = bad_wires(wires)
        if b:
            viol('after_simulator_creation', b)
        alpha, full = c01.alphabet(dd.ins)
        seq = any(l.isClockable() and not isinstance(l, py4hw.Waveform) for l in dd.sys.allLeaves())
        for x in alpha:
            for (n, w), v in zip(dd.ins, x):
                w.put(v)
            for k in range(2 if seq else 1):
                try:
                    sim.clk(1)
                except Exception:
                    core.reset_prepared()
                    break
                res['evaluations'] += 1
                b = bad_wires(wires)
                if b:
                    viol('after_clk', b, x)
            if any(w.value for w in wires):
                res['distinct_nontrivial'] += 1
        if lst.bad:
            viol('inside_listener', lst.bad)
        res['listener_calls'] += lst.calls
        if wf is not None:
            for w, samples in wf.data.items():
                for s in samples:
                    res['waveform_samples'] += 1
                    if type(s) is not int or s < 0 or (s >> w.getWidth()):
                        viol('waveform_sample', [(w.getFullPath(), repr(s), w.getWidth())])
                        break
        res['_outcomes'].add(tuple(w.value for w in wires))


class PutBlock(py4hw.Logic):
    """harness leaf that drives a constant (possibly out-of-range) value through put / prepare"""
    def __init__(self, parent, name, r, value, seq, twice=False):
        super().__init__(parent, name)
        self.twice = twice
        self.r = self.addOut('r', r)
        self.value = value
        if seq:
            self.clock = self._clock
        else:
            self.propagate = self._propagate

    def _clock(self):
        if self.twice:
            self.r.prepare(0)          # a default that is then overridden in the same edge
        self.r.prepare(self.value)

    def _propagate(self):
        self.r.put(self.value)


def _kw(hw, v):
    x = hw.wire('selk', 1)
    py4hw.Constant(hw, 'kselk', v, x)
    return x


def run_extremes(d, res):
    w = d['w']
    if d.get('boundary'):
        M = 1 << w
        vals = sorted({-M - 1, -M, -M + 1, -(M >> 1) - 1, -(M >> 1), -2, -1, 0, 1, 2, (M >> 1) - 1, M >> 1, M - 2, M - 1, M, M + 1,
                       (M << 4) - 1, (M << 4), M | 1, M * 3 + 5})
    else:
        vals = list(range(-(1 << w) - 1, (1 << w) + 2))
    desc0 = {'family': 'extremes', 'w': w, 'boundary': bool(d.get('boundary'))}

    def run(kind, v, build, post=None):
        desc = dict(desc0, kind=kind, value=v)
        try:
            hw = py4hw.HWSystem()
            built = build(hw)
            wires = core.all_wires(hw)
            wf = py4hw.Waveform(hw, 'wvf', [x for x in wires])
            sim = hw.getSimulator()
        except Exception as e:
            core.reset_prepared()
            res['constructor_rejected'] += 1
            return
        lst = Listener(wires)
        sim.addListener(lst)
        where = None
        if post:
            post(built)
        b = bad_wires(wires)
        if b:
            where = 'after_simulator_creation'
        for k in range(3):
            if where:
                break
            sim.clk(1)
            res['evaluations'] += 1
            b = bad_wires(wires)
            if b:
                where = 'after_clk'
        if not where and lst.bad:
            where, b = 'inside_listener', lst.bad
        if not where:
            for ww, samples in wf.data.items():
                if any(type(s) is not int or s < 0 or (s >> ww.getWidth()) for s in samples):
                    where, b = 'waveform_sample', [(ww.getFullPath(), repr(samples), ww.getWidth())]
        if any(x.value for x in wires):
            res['distinct_nontrivial'] += 1
        res['_outcomes'].add((kind, tuple(x.value for x in wires)))
        if where:
            sig = 'C06:extremes:%s:%s' % (kind, where)
            if sum(1 for vv in res['violations'] if vv['sig'] == sig) < 2:
                res['violations'].append({'sig': sig, 'shard': desc, 'trace': [], 'detail': {'where': where, 'wires': b[:3], 'value': v}})

    for v in vals:
        run('Constant', v, lambda hw: py4hw.Constant(hw, 'k', v, hw.wire('r', w)))
        run('Sequence', v, lambda hw: py4hw.Sequence(hw, 's', [v, 0, v], hw.wire('r', w)))
        # the test-bench idiom of the repository: a Constant built with a placeholder whose value attribute is set afterwards
        run('Constant.value_reassigned', v, lambda hw: py4hw.Constant(hw, 'k', 0, hw.wire('r', w)), post=lambda k: setattr(k, 'value', v))
        run('Constant.value_reassigned_from_max', v, lambda hw: py4hw.Constant(hw, 'k', (1 << w) - 1, hw.wire('r', w)), post=lambda k: setattr(k, 'value', v))
        run('Reg.reset_value', v, lambda hw: py4hw.Reg(hw, 'r', hw.wire('d', w), hw.wire('q', w), reset=hw.wire('rst'), reset_value=v))
        run('put_in_propagate', v, lambda hw: PutBlock(hw, 'p', hw.wire('r', w), v, False))
        run('prepare_in_clock', v, lambda hw: PutBlock(hw, 'p', hw.wire('r', w), v, True))
        run('prepare_twice_in_clock', v, lambda hw: PutBlock(hw, 'p', hw.wire('r', w), v, True, twice=True))

        def mem(hw):
            ra, wa, wr, rd, wd = hw.wire('ra'), hw.wire('wa'), hw.wire('wr'), hw.wire('rd', w), hw.wire('wd', w + 1)
            py4hw.Constant(hw, 'kwr', 1, wr)
            py4hw.Constant(hw, 'kwd', v, wd)
            py4hw.SynchronousMemory(hw, 'm', ra, wa, wr, rd, wd)
        run('memory_wider_writedata', v, mem)

        def comb_ops(hw):
            a, b = hw.wire('a', w), hw.wire('b', w)
            py4hw.Constant(hw, 'ka', v, a)
            py4hw.Constant(hw, 'kb', 1, b)
            py4hw.Not(hw, 'n', a, hw.wire('nr', w))
            py4hw.Sub(hw, 's', b, a, hw.wire('sr', w))
            py4hw.Add(hw, 'ad', a, a, hw.wire('ar', w))
            py4hw.Mul(hw, 'm', a, a, hw.wire('mr', w))
            py4hw.ShiftLeftConstant(hw, 'sl', a, 3, hw.wire('slr', w))
            py4hw.Neg(hw, 'g', a, hw.wire('gr', w))
        run('comb_ops', v, comb_ops)

        def wide_to_narrow(hw):
            a = hw.wire('a', w + 2)
            py4hw.Constant(hw, 'ka', v, a)
            py4hw.Buf(hw, 'b', a, hw.wire('r', w))
            py4hw.Not(hw, 'n', a, hw.wire('nr', w))
            py4hw.Neg(hw, 'g', a, hw.wire('gr', w))
            py4hw.Reg(hw, 'rg', a, hw.wire('q', w))
        run('wide_into_narrow', v, wide_to_narrow)

        # every one-operand primitive with an operand wider than its result, each in its own system
        def one_op(cls, *extra):
            def build(hw):
                a = hw.wire('a', w + 2)
                py4hw.Constant(hw, 'ka', v, a)
                getattr(py4hw, cls)(hw, 'dut', a, *(list(extra) + [hw.wire('r', w)]))
            return build
        for cls, extra in (('SignExtend', ()), ('ZeroExtend', ()), ('Abs', ()), ('RotateLeftConstant', (1,)), ('RotateRightConstant', (1,)),
                           ('RotateLeftConstant', (w + 1,)), ('ShiftLeftConstant', (1,)), ('ShiftRightConstant', (1,)), ('ShiftLeftConstant', (w + 3,))):
            if hasattr(py4hw, cls):
                run('wide_into_narrow:%s%s' % (cls, ''.join(':%d' % e for e in extra) if extra and extra[0] != 1 else ''), v, one_op(cls, *extra))

        # a constant shift whose amount is a parameter of the enclosing block; the parameter is given another value after the
        # simulator exists (the shifted word then no longer fits the result)
        def param_shift(hw):
            blk = py4hw.Logic(hw, 'blk')
            blk.addParameter('SHIFT', 0)
            a = hw.wire('a', max(w, 1))
            py4hw.Constant(hw, 'ka', v, a)
            py4hw.ShiftLeftConstant(blk, 'sl', a, blk.getParameter('SHIFT'), hw.wire('r', max(w, 1)))
            return blk
        run('shift_amount_parameter_changed', v, param_shift, post=lambda blk: blk.addParameter('SHIFT', 2))

        # two-operand and selecting primitives with ONE operand wider than the result, in either position and for either
        # selection (each in its own system so that a constructor that refuses the shape only removes that one case)
        def mixed(cls, pos, selv=None):
            def build(hw):
                ops = [hw.wire('a', w), hw.wire('b', w)]
                ops[pos] = hw.wire('wide', w + 2)
                py4hw.Constant(hw, 'k0', v, ops[pos])
                py4hw.Constant(hw, 'k1', 1, ops[1 - pos])
                r = hw.wire('r', w)
                if selv is None:
                    getattr(py4hw, cls)(hw, 'dut', ops[0], ops[1], r)
                elif cls == 'Mux2':
                    py4hw.Mux2(hw, 'dut', _kw(hw, selv), ops[0], ops[1], r)
                else:
                    py4hw.Mux(hw, 'dut', _kw(hw, selv), ops, r)
            return build
        for pos in (0, 1):
            for cls in ('And2', 'Or2', 'Xor2', 'Nand2', 'Nor2', 'Add', 'Sub', 'Mul', 'Max2', 'Min2'):
                if hasattr(py4hw, cls):
                    run('mixed_widths:%s:wide_operand_%d' % (cls, pos), v, mixed(cls, pos))
            for selv in (0, 1):
                for cls in ('Mux2', 'Mux'):
                    run('mixed_widths:%s:wide_operand_%d:sel_%d' % (cls, pos, selv), v, mixed(cls, pos, selv))
        # direct API
        for cls, mk in (('Wire', lambda hw: hw.wire('x', w)), ('BidirWire', lambda hw: hw.bidir_wire('x', w))):
            hw = py4hw.HWSystem()
            x = mk(hw)
            x.put(v)
            res['evaluations'] += 1
            ok1 = type(x.get()) is int and 0 <= x.get() < (1 << w)
            x.prepare(v)
            Wire.settleAll()
            ok2 = type(x.get()) is int and 0 <= x.get() < (1 << w)
            res['_outcomes'].add((cls, x.get()))
            if not (ok1 and ok2):
                sig = 'C06:extremes:%s.%s' % (cls, 'put' if not ok1 else 'prepare')
                if sum(1 for vv in res['violations'] if vv['sig'] == sig) < 2:
                    res['violations'].append({'sig': sig, 'shard': dict(desc0, kind=cls, value=v), 'trace': [],
                                              'detail': {'value': v, 'width': w, 'got': x.get()}})


def run_numpy(d, res):
    """stimulus given as numpy integer scalars (what a test bench that computes its vectors with numpy pokes): the call may be
    refused (exception), but a wire never ends up outside its range"""
    try:
        import numpy as np
    except Exception:
        return
    import numbers
    w = d['w']
    desc0 = {'family': 'extremes', 'w': w, 'boundary': bool(d.get('boundary')), 'numpy': 1}
    for tname in ('int8', 'int16', 'int32', 'int64', 'uint8', 'uint16', 'uint32', 'uint64'):
        t = getattr(np, tname)
        info = np.iinfo(t)
        for v in sorted({info.min, info.min + 1, -6, -1, 0, 1, 5, info.max - 1, info.max, (1 << w) - 1, 1 << w, -(1 << w)}):
            if not (info.min <= v <= info.max):
                continue
            for how in ('put', 'prepare'):
                for cls, mk in (('Wire', lambda hw: hw.wire('x', w)), ('BidirWire', lambda hw: hw.bidir_wire('x', w))):
                    hw = py4hw.HWSystem()
                    x = mk(hw)
                    try:
                        with np.errstate(all='ignore'):
                            if how == 'put':
                                x.put(t(v))
                            else:
                                x.prepare(t(v))
                                Wire.settleAll()
                    except Exception:
                        core.reset_prepared()
                        res['refused_numpy'] = res.get('refused_numpy', 0) + 1
                        continue
                    res['evaluations'] += 1
                    g = x.get()
                    ok = isinstance(g, numbers.Integral) and 0 <= int(g) < (1 << w)
                    res['_outcomes'].add((cls, tname, int(g) if isinstance(g, numbers.Integral) else repr(g)))
                    if not ok:
                        sig = 'C06:extremes:%s.%s:numpy' % (cls, how)
                        if sum(1 for vv in res['violations'] if vv['sig'] == sig) < 2:
                            res['violations'].append({'sig': sig, 'shard': dict(desc0, kind=cls, value=int(v), dtype=tname), 'trace': [],
                                                      'detail': {'value': int(v), 'dtype': tname, 'width': w, 'got': repr(g)}})


def run_shard(d):
    res = {'evaluations': 0, 'distinct_nontrivial': 0, 'configs': 0, 'constructor_rejected': 0, 'listener_calls': 0,
           'waveform_samples': 0, 'violations': [], 'samples': [], '_outcomes': set()}
    if d['family'] == 'catalog':
        run_catalog(d, res)
    else:
        run_extremes(d, res)
        run_numpy(d, res)
    res['samples'].append({'shard': d})
    res['distinct_outcomes'] = len(res.pop('_outcomes'))
    res['vacuous_ok'] = True
    return res


def finish(cov, results, tier):
    cov['listener_calls'] = sum(r.get('listener_calls', 0) for r in results)
    cov['waveform_samples'] = sum(r.get('waveform_samples', 0) for r in results)


def replay(v):
    d = v['shard']
    res = {'evaluations': 0, 'distinct_nontrivial': 0, 'configs': 0, 'constructor_rejected': 0, 'listener_calls': 0,
           'waveform_samples': 0, 'violations': [], 'samples': [], '_outcomes': set()}
    if d['family'] == 'catalog':
        dd = catalog.build(d['source'], d['cfg'], 'top')
        wires = core.all_wires(dd.sys)
        sim = dd.sys.getSimulator()
        bad = bad_wires(wires)
        for x in v.get('trace', []):
            for (n, w), val in zip(dd.ins, x):
                w.put(val)
            sim.clk(1)
            bad = bad or bad_wires(wires)
        return {'design': d, 'violates': bool(bad), 'bad': bad[:4]}
    run_extremes({'w': d['w'], 'boundary': d.get('boundary')}, res)
    run_numpy({'w': d['w'], 'boundary': d.get('boundary')}, res)
    hit = [x for x in res['violations'] if x['sig'] == v['sig']]
    return {'design': d, 'violates': bool(hit), 'detail': hit[:1]}
