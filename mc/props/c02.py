"""C02 — Python-to-Verilog transpilation preserves the behaviour of behavioural blocks.

Programs: (a) every behavioural library block the generator transpiles, (b) a generated
family of behavioural classes over the supported subset (mc/progen.py).  For each program:
generate Verilog; a raised exception is a refusal (allowed).  Returned text must parse and
elaborate (otherwise it was "silently turned into something that is not the program") and
the product machine (py4hw simulation x Verilog interpreter) is explored breadth-first with
all input vectors per step; outputs and state variables are compared after every cycle.
Transitions on which the Python execution leaves the stated domain are pruned."""
import importlib
import os
import shutil
import sys
import tempfile
import types
import re

import py4hw
from mc import core, progen
from mc.props.c19 import normalise as c19norm
from mc.props import c01
from mc.vlog import sim as V
from mc.vlog.lexer import VlogError, ParseError

LEVEL = 'model_checking'
RULE = ('program = behavioural class (library block or generated from the grammar in mc/progen.py: every operator of the statement in '
        'every template position, if/elif/else nests, match/case with literals/default/guards/or-patterns, ternaries, and/or/not, '
        'locals, integer state, constructor argument, parameter; clock and propagate variants; several port-width combinations); '
        'product BFS over (py4hw state, Verilog-interpreter state) with all input vectors per step; outputs and same-named state '
        'variables compared after every cycle; out-of-domain transitions (negative / >= 2**32 intermediate, division by zero) pruned')
ASSUMPTIONS = ['same Verilog engine assumptions as C01',
               'domain membership is decided by an interpreter of the generated Python body (mc/progen.Interp), cross-checked against the py4hw run',
               'library blocks are assumed in-domain while all their integer attributes stay in [0, 2**32)',
               'a refusal is any exception raised by the generator',
               'text requested from an instance that has already been simulated (4 cycles) must still describe the block from power-up: when it '
               'differs from the first text beyond instance ids it is compared with a fresh py4hw block over every input sequence of length <= 3',
               'probe programs use constructs outside the subset (/, **, chained comparisons, min/max/abs, unary +, in): refusal is the expected '
               'answer; if text is returned it must behave like the Python (floats only flow into comparisons)']
BOUNDS = {'quick': 'library blocks + depth-1 expressions in 6 templates + 39 statement-structure programs (incl. ternaries as operands) + 42 must-refuse probes at one width combination; state cap 400 per program',
          'thorough': 'adds depth-2 expressions (every operator pair in both nesting positions) and 4 width combinations; state cap 2000'}
for k in ('quick', 'thorough'):
    BOUNDS[k] += '; also tuple assignments, capture patterns, two instances of one class with different constructor constants, string / None state (refused or equivalent)'
CHUNK = 30


# ------------------------------------------------------------------ library blocks

def lib_blocks():
    return ['ClockSyncFSM', 'AutoReset', 'UARTSerializer', 'UARTDeserializer', 'Axi2ClkFSM', 'VitisKernelFSM', 'CMDRequest',
            'CMDResponse', 'Latch', 'RotateLeftConstant', 'RotateRightConstant', 'Sequence', 'SequenceOnce']


def build_lib(name):
    hw = py4hw.HWSystem()
    ins, outs = [], []

    def I(n, w=1):
        x = hw.wire(n, w)
        ins.append((n, x))
        return x

    def O(n, w=1):
        x = hw.wire(n, w)
        outs.append((n, x))
        return x
    if name == 'ClockSyncFSM':
        from py4hw.logic.protocol.uart.clock import ClockSyncFSM
        dut = ClockSyncFSM(hw, 'dut', I('start'), I('stop'), O('sync'), O('active'))
    elif name == 'AutoReset':
        dut = py4hw.AutoReset(hw, 'dut', O('reset'))
    elif name == 'UARTSerializer':
        from py4hw.logic.protocol.uart.serdes import UARTSerializer
        dut = UARTSerializer(hw, 'dut', O('ready'), I('valid'), I('v', 8), I('pulse'), O('tx'))
    elif name == 'UARTDeserializer':
        from py4hw.logic.protocol.uart.serdes import UARTDeserializer
        dut = UARTDeserializer(hw, 'dut', I('rx'), I('rx_sample'), I('ready'), O('valid'), O('v', 8), O('desync'))
    elif name == 'Axi2ClkFSM':
        from py4hw.emulation.vitiswrapping import Axi2ClkFSM
        dut = Axi2ClkFSM(hw, 'dut', I('active_handshake'), I('clk_target', 2), I('reset_clk_count'), O('clk_count', 2), O('clk_out'), O('load_outs'))
    elif name == 'VitisKernelFSM':
        from py4hw.emulation.vitiswrapping import VitisKernelFSM
        dut = VitisKernelFSM(hw, 'dut', I('ap_start'), I('ap_reset'), O('ap_done'), O('ap_idle'), O('ap_ready'), I('load_outs'), I('all_sent'))
    elif name == 'CMDRequest':
        from py4hw.emulation.HILWrapperUART import CMDRequest
        dut = CMDRequest(hw, 'dut', O('ready'), I('valid'), I('c', 8), O('index_in', 8), O('v_in', 8), O('index_out', 8),
                         O('set_index_in'), O('set_v_in'), O('set_index_out'), O('clk_pulse'), O('start_resp'))
    elif name == 'CMDResponse':
        from py4hw.emulation.HILWrapperUART import CMDResponse
        dut = CMDResponse(hw, 'dut', I('vin', 8), I('size', 2), I('start_resp'), I('ready'), O('valid'), O('v', 8))
    elif name == 'Latch':
        dut = py4hw.Latch(hw, 'dut', I('d', 2), O('q', 2), I('e'))
    elif name in ('RotateLeftConstant', 'RotateRightConstant'):
        dut = getattr(py4hw, name)(hw, 'dut', I('a', 3), 1, O('r', 3))
    elif name == 'Sequence':
        dut = py4hw.Sequence(hw, 'dut', [1, 2, 3], O('r', 2))
    elif name == 'SequenceOnce':
        dut = py4hw.Sequence(hw, 'dut', [1, 2, 3], O('r', 2), once=True)
    else:
        raise ValueError(name)
    return hw, ins, outs, dut


LIB_ALPHABET = {
    # byte-wide character / data inputs: values that drive every branch of the block
    'CMDRequest': {'c': [ord(x) for x in 'IOK=!?;01A9Ff'] + [0, 0x20]},
    'UARTSerializer': {'v': [0x00, 0xFF, 0xA5]},
    'CMDResponse': {'vin': [0x00, 0xA5, 0xFF]},
}


# ------------------------------------------------------------------ generated programs

# A block whose PORTS carry the names the generated programs use for state attributes, locals and constructor
# arguments.  It is transpiled first in every shard: what the transpiler learns about one class must not leak into the next.
DECOY = '''
class Decoy(Logic):
    def __init__(self, parent, name, s, t, u, k, c0):
        super().__init__(parent, name)
        self.s = self.addIn('s', s)
        self.t = self.addIn('t', t)
        self.u = self.addOut('u', u)
        self.k = self.addOut('k', k)
        self.c0 = self.addOut('c0', c0)

    def clock(self):
        self.u.prepare(self.s.get())
        self.k.prepare(self.t.get())
        self.c0.prepare(self.s.get() ^ self.t.get())
'''


def transpile_decoy(gm):
    try:
        with core.quiet():
            hw = py4hw.HWSystem()
            gm.mod.Decoy(hw, 'decoy', hw.wire('s', 2), hw.wire('t', 2), hw.wire('u', 2), hw.wire('k', 2), hw.wire('c0', 2))
            c01.generate(hw)
    except Exception:
        core.reset_prepared()


class GenModule:
    """writes generated classes into a scratch module so that inspect.getsource works"""

    def __init__(self, progs, tag):
        self.dir = tempfile.mkdtemp(prefix='c02gen_')
        self.name = 'c02gen_%s_%d' % (tag, os.getpid())
        src = ['from py4hw.base import Logic', '']
        for i, p in enumerate(progs):
            src.append(progen.source(p, 'P%d' % i))
        src.append(DECOY)
        with open(os.path.join(self.dir, self.name + '.py'), 'w') as fh:
            fh.write('\n'.join(src))
        sys.path.insert(0, self.dir)
        importlib.invalidate_caches()
        self.mod = importlib.import_module(self.name)

    def cls(self, i):
        return getattr(self.mod, 'P%d' % i)

    def close(self):
        sys.path.remove(self.dir)
        sys.modules.pop(self.name, None)
        shutil.rmtree(self.dir, ignore_errors=True)


def build_gen(cls, p):
    hw = py4hw.HWSystem()
    a, b, q = hw.wire('a', p['wa']), hw.wire('b', p['wb']), hw.wire('q', p['wq'])
    dut = cls(hw, 'dut', a, b, q, p['k'])
    if p.get('family') in ('sharedparam', 'twoinst'):
        # a second instance of the same class with another parameter value / constructor argument
        q2 = hw.wire('q2', p['wq'])
        cls(hw, 'dut2', a, b, q2, p['k'] + 1)
        return hw, [('a', a), ('b', b)], [('q', q), ('q2', q2)], dut
    return hw, [('a', a), ('b', b)], [('q', q)], dut


# ------------------------------------------------------------------ exploration

def shards(tier):
    progs = progen.programs(tier)
    out = [{'tier': tier, 'family': 'lib', 'names': [n]} for n in lib_blocks()]
    for lo in range(0, len(progs), CHUNK):
        out.append({'tier': tier, 'family': 'gen', 'lo': lo, 'hi': min(len(progs), lo + CHUNK)})
    return out


def cost(d):
    return 100 if d['family'] == 'lib' else 1


def norm_msg(m):
    m = re.sub(r'_[0-9a-f]{8,}', '_ID', str(m))
    m = re.sub(r'\(line \d+\)', '', m)
    return re.sub(r'\d+', '#', m).strip()[:80]


def state_vars(dut, vscope):
    out = []
    for k, v in dut.__dict__.items():
        if isinstance(v, int) and not isinstance(v, bool) and k in vscope.sigs and vscope.sigs[k].kind in ('integer', 'reg'):
            out.append(k)
    return out


def explore_program(label, builder, res, cap, interp=None, alphabets=None, desc=None):
    def viol(kind, detail, trace=()):
        sig = 'C02:%s:%s' % (label, kind)
        if sum(1 for v in res['violations'] if v['sig'] == sig) < 2:
            res['violations'].append({'sig': sig, 'shard': desc, 'trace': [list(t) for t in trace], 'detail': detail})
    try:
        with core.quiet():
            hw, ins, outs, dut = builder()
            hw.getSimulator()
    except Exception as e:
        core.reset_prepared()
        res['constructor_rejected'] += 1
        return
    try:
        text = c01.generate(hw)
    except Exception as e:
        res['refused'] += 1
        res['refused_examples'].append({'program': label, 'error': repr(e)[:120]})
        return
    res['programs'] += 1
    ext = ['w_' + w.name for _, w in ins]
    try:
        d0 = V.elaborate(text, external=ext)
    except ParseError as e:
        viol('not_verilog:' + norm_msg(e), {'error': str(e), 'text': text[-1500:]})
        return
    except V.Unsupported as e:
        res['outside_subset'] += 1
        return
    except VlogError as e:
        viol('not_verilog:' + norm_msg(e), {'error': str(e), 'text': text[-1500:]})
        return
    if d0.issues:
        for rule, mod, msg in d0.issues[:3]:
            viol('illegal_text:%s:%s' % (rule, norm_msg(msg)), {'rule': rule, 'message': msg, 'text': text[-1500:]})
        return

    late = {}

    def mk():
        hw, ins, outs, dut = builder()
        c = types.SimpleNamespace(sys=hw, free=[w for _, w in ins], in_names=['w_' + w.name for _, w in ins],
                                  out_wires=[w for _, w in outs], out_names=['w_' + w.name for _, w in outs], dut=dut)
        c.sim = hw.getSimulator()
        c.design = V.elaborate(late['text'] if late else c01.generate(hw), external=c.in_names)
        c.v = V.Sim(c.design)
        c.vscope = c.design.top.children[0]
        c.svars = state_vars(dut, c.vscope)
        return c
    try:
        with core.quiet():
            c0 = mk()
    except VlogError as e:
        viol('verilog_error:' + norm_msg('%s: %s' % (type(e).__name__, e)), {'error': str(e), 'text': text[-1500:]})
        return
    if alphabets:
        import itertools
        doms = [alphabets.get(n, range(1 << w.getWidth())) for n, w in ins]
        alpha = list(itertools.product(*doms))
    else:
        alpha, _ = c01.alphabet(ins)

    def step(c, x):
        c.skip = False
        c.verr = None
        if interp is not None:
            try:
                s0 = getattr(c.dut, 's', None)
                c.pred = interp.run(x[0], x[1], s0, {'f': int(c.dut.f)} if hasattr(c.dut, 'f') else None)
            except progen.OutOfDomain:
                c.skip = True
                res['pruned'] += 1
                return
        for w, n, v in zip(c.free, c.in_names, x):
            w.put(v)
            c.v.poke(n, v)
        try:
            c.sim.clk(1)
        except Exception as e:
            if interp is not None:
                raise core.HarnessError('python raised on an in-domain transition: %r' % (e,))
            c.skip = True
            core.reset_prepared()
            res['pruned'] += 1
            return
        if interp is None:
            for k, v in c.dut.__dict__.items():
                if isinstance(v, int) and not isinstance(v, bool) and (v < 0 or v >= (1 << 32)):
                    c.skip = True
                    res['pruned'] += 1
                    return
        try:
            c.v.cycle()
        except VlogError as e:
            c.verr = '%s: %s' % (type(e).__name__, e)

    def check(c, x):
        if c.skip:
            return None
        if c.verr:
            return {'sigkey': 'verilog_error:' + norm_msg(c.verr), 'error': c.verr, 'inputs': list(x)}
        a = [w.get() for w in c.out_wires]
        b = [c.v.peek(n) for n in c.out_names]
        res['_outcomes'].add(tuple(a))
        if a != b:
            return {'sigkey': 'output_mismatch', 'inputs': dict(zip(c.in_names, x)), 'outputs': c.out_names, 'py4hw': a, 'verilog': b}
        if interp is not None and c.pred[1] is not None:
            # self-check of the domain interpreter (only meaningful when the two implementations agree with each other)
            if (c.pred[1] & ((1 << c.out_wires[0].getWidth()) - 1)) != a[0] or (c.pred[0] is not None and c.pred[0] != c.dut.s):
                raise core.HarnessError('domain interpreter disagrees with py4hw: %r vs q=%r s=%r' % (c.pred, a, getattr(c.dut, 's', None)))
        for k in c.svars:
            pv = getattr(c.dut, k)
            vv = c.vscope.sigs[k].value
            if (pv & 0xFFFFFFFF) != vv & 0xFFFFFFFF if c.vscope.sigs[k].kind == 'integer' else (pv & ((1 << c.vscope.sigs[k].width) - 1)) != vv:
                return {'sigkey': 'state_mismatch', 'variable': k, 'py4hw': pv, 'verilog': vv, 'inputs': dict(zip(c.in_names, x))}
        return None

    def pre_check(c):
        if interp is not None and interp.p['kind'] == 'propagate':
            # at power-up the combinational body has run once with all inputs 0: same domain rule as for any step
            try:
                interp.run(0, 0, None)
            except progen.OutOfDomain:
                res['pruned'] += 1
                return None
        a = [w.get() for w in c.out_wires]
        b = [c.v.peek(n) for n in c.out_names]
        if a != b:
            return {'sigkey': 'powerup_mismatch', 'outputs': c.out_names, 'py4hw': a, 'verilog': b}
        return None

    def key_fn(c, st, snap, ex):
        if getattr(c, 'kidx', None) is None:
            c.kidx = c01.state_wire_filter(c.sys, st.wires)
        wv, av = snap
        return (tuple(wv[i] for i in c.kidx), av, ex[0])

    ex = core.Explorer(mk, lambda c: alpha, check, step=step, pre_check=pre_check,
                       extra_state=lambda c: (c.v.state_key(), c.v.snapshot()),
                       set_extra=lambda c, e: c.v.restore(e[1]),
                       key_fn=key_fn, max_states=cap, max_depth=64, validate_every=9)
    ex.run()
    res['states'] += ex.states
    res['transitions'] += ex.transitions
    res['traces_validated_against_impl'] += ex.validated
    res['closed_graphs' if ex.closed else 'capped_graphs'] += 1
    for kind, trace, detail in ex.violations:
        detail['text'] = text[-1500:]
        viol(detail.get('sigkey', 'mismatch'), detail, trace)
    if len(res['samples']) < 1 and ex.sample_traces:
        res['samples'].append({'program': label, 'input_sequence': ex.sample_traces[-1][:5], 'python': desc.get('body') if desc else None})
    if ex.violations:
        return
    # text requested after the block has been simulated for a while still describes the block from power-up: if it differs
    # from the first text (beyond instance ids), it is compared with a fresh py4hw block over all input sequences of length <= 3
    warm = [alpha[-1], alpha[len(alpha) // 2], alpha[-1], alpha[1 % len(alpha)]]
    try:
        with core.quiet():
            hw2, ins2, outs2, dut2 = builder()
            sim2 = hw2.getSimulator()
            for x in warm:
                if interp is not None:
                    interp.run(x[0], x[1], getattr(dut2, 's', None), {'f': int(dut2.f)} if hasattr(dut2, 'f') else None)
                for (n, w), v in zip(ins2, x):
                    w.put(v)
                sim2.clk(1)
            text2 = c01.generate(hw2)
    except Exception:
        core.reset_prepared()
        return
    if c19norm(text2) == c19norm(text):
        return
    late['text'] = text2
    try:
        ex2 = core.Explorer(mk, lambda c: alpha, check, step=step, pre_check=pre_check,
                            extra_state=lambda c: (c.v.state_key(), c.v.snapshot()),
                            set_extra=lambda c, e: c.v.restore(e[1]),
                            key_fn=key_fn, max_states=cap, max_depth=3, validate_every=9)
        ex2.run()
    except VlogError as e:
        viol('late_generation:not_verilog:' + norm_msg(e), {'error': str(e), 'warmup': [list(x) for x in warm], 'text': text2[-1500:]})
        return
    res['transitions'] += ex2.transitions
    for kind, trace, detail in ex2.violations:
        detail['text'] = text2[-1500:]
        detail['warmup'] = [list(x) for x in warm]
        viol('late_generation:' + detail.get('sigkey', 'mismatch'), detail, trace)


def run_shard(d):
    res = {'programs': 0, 'states': 0, 'transitions': 0, 'traces_validated_against_impl': 0, 'constructor_rejected': 0,
           'refused': 0, 'pruned': 0, 'closed_graphs': 0, 'capped_graphs': 0, 'outside_subset': 0, 'violations': [], 'samples': [],
           'refused_examples': [], '_outcomes': set()}
    cap = 2000 if d['tier'] == 'thorough' else 400
    if d['family'] == 'lib':
        for n in d['names']:
            explore_program('lib:' + n, lambda n=n: build_lib(n), res, cap * 5, alphabets=LIB_ALPHABET.get(n),
                            desc={'family': 'lib', 'name': n, 'tier': d['tier']})
    else:
        progs = progen.programs(d['tier'])[d['lo']:d['hi']]
        gm = GenModule(progs, '%d' % d['lo'])
        try:
            transpile_decoy(gm)
            for i, p in enumerate(progs):
                it = None if p['family'] == 'wide' else progen.Interp(p)
                label = 'gen:%s:%s' % (p['kind'], p['family'])
                explore_program(label, lambda i=i, p=p: build_gen(gm.cls(i), p), res, cap, interp=it,
                                desc={'family': 'gen', 'tier': d['tier'], 'index': d['lo'] + i, 'body': p['body'], 'kind': p['kind']})
        finally:
            gm.close()
    res['distinct_outcomes'] = len(res.pop('_outcomes'))
    res['vacuous_ok'] = True
    return res


def finish(cov, results, tier):
    ex = []
    for r in results:
        ex.extend(r.get('refused_examples', []))
    cov['refused_examples'] = ex[:10]
    cov['outside_subset'] = sum(r.get('outside_subset', 0) for r in results)
    cov['exhaustive'] = cov.get('capped_graphs', 0) == 0


def replay(v):
    d = v['shard']
    if d['family'] == 'lib':
        builder = lambda: build_lib(d['name'])
        interp = None
        gm = None
    else:
        p = progen.programs(d['tier'])[d['index']]
        gm = GenModule([p], 'replay')
        transpile_decoy(gm)
        builder = lambda: build_gen(gm.cls(0), p)
        interp = None if p['family'] == 'wide' else progen.Interp(p)
    try:
        hw, ins, outs, dut = builder()
        sim = hw.getSimulator()
        text = c01.generate(hw)
        warm = (v.get('detail') or {}).get('warmup')
        if warm:
            # the text under test is the one requested from a second instance after these warm-up cycles
            hw2, ins2, outs2, dut2 = builder()
            sim2 = hw2.getSimulator()
            for x in warm:
                for (n, w), val in zip(ins2, x):
                    w.put(val)
                sim2.clk(1)
            text = c01.generate(hw2)
        out = {'program': d, 'verilog': c19norm(text)}
        try:
            design = V.elaborate(text, external=['w_' + w.name for _, w in ins])
        except VlogError as e:
            out.update(violates=True, error='%s: %s' % (type(e).__name__, e))
            return out
        if design.issues:
            out.update(violates=True, issues=[list(i) for i in design.issues])
            return out
        vs = V.Sim(design)
        steps, bad = [], False
        a, b = [w.get() for _, w in outs], [vs.peek('w_' + w.name) for _, w in outs]
        steps.append({'when': 'power-up', 'py4hw': a, 'verilog': b})
        bad = a != b
        for x in v['trace']:
            for (n, w), val in zip(ins, x):
                w.put(val)
                vs.poke('w_' + w.name, val)
            sim.clk(1)
            vs.cycle()
            a, b = [w.get() for _, w in outs], [vs.peek('w_' + w.name) for _, w in outs]
            st = {k: (getattr(dut, k), design.top.children[0].sigs[k].value) for k in state_vars(dut, design.top.children[0])}
            steps.append({'inputs': list(x), 'py4hw': a, 'verilog': b, 'state(py,verilog)': st})
            if a != b or any((p_ & 0xFFFFFFFF) != (q_ & 0xFFFFFFFF) for p_, q_ in st.values()):
                bad = True
        out.update(steps=steps, violates=bad)
        return out
    finally:
        if gm:
            gm.close()
