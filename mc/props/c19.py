"""C19 — Verilog generation is a pure, repeatable function of the circuit.

All histories up to depth H over the alphabet of generation requests / simulation steps /
one structural edit are executed on fresh circuits; every generation result is compared
(after normalising instance-unique suffixes and the order of wire declarations) with the
canonical answer obtained for that request on a pristine build; the circuit's wire trace
is compared with a twin that only received the simulation steps; the circuit's state
snapshot must be unchanged across every generation call."""
import itertools
import re
import types

import py4hw
from py4hw.base import Logic
from mc import core

LEVEL = 'model_checking'
RULE = ('all operation histories of length <= H over {G1 fresh-generator hierarchy, G1r reused-generator hierarchy, G2 getVerilog(child) '
        'on the reused top-rooted generator, G2f getVerilog(child) from fresh generators rooted at the parent and at the child (G2/G2f '
        'alternate between the child and, in circuit beh, the second instance of a behavioural class), G3 '
        'getVerilogForHierarchy(child) alternating with the stand-alone hierarchy of a second instance of the child\'s class (circuit comb), Gx hierarchy of a second circuit, P inlinePrimitive, S clk(1) with the next input vector, M add '
        'a block then regenerate}; states = (history) nodes of the prefix tree, transitions = operations executed; every history is '
        'executed on freshly built circuits (traces_validated_against_impl = histories)')
ASSUMPTIONS = ['normalisation: hex id suffixes renumbered by first appearance; contiguous runs of wire declarations sorted; nothing else',
               'a caller-owned createdStructures list: entries never disappear, and a request given the list answers like a fresh generator given a copy of it',
               'every shard runs in a freshly forked process (no transpilation has happened in the parent), so class-level tables start empty',
               'canonical answers: every one computed in a child process of its own, forked from the pristine main process before the '
               'shard processes exist (what is generated for one request or circuit cannot colour the canonical answer of another)',
               'circuit partbad: requests that include the part that cannot be transpiled are expected to be refused (G1, G1r, L on the top); '
               'its G3 uses the generator that served the refused requests']
BOUNDS = {'quick': 'H = 4, six circuits (one of them partly untranspilable, one with a memory that the simulation steps fill) + circuit beh paired with a second circuit whose generation must be refused (four different transpiled classes, two instances of one of them with different constructor arguments, a parent-to-child forwarded Verilog parameter, combinational hierarchy with shared named modules, ModuloCounter, transpiled FSM + registers, a sub-block in its own named clock domain)',
          'thorough': 'H = 5 for the circuit pairs lanes/comb, comb/seq, beh/fsm, partbad/comb; H = 4 for the others'}
for k in ('quick', 'thorough'):
    BOUNDS[k] += '; also the hierarchy text requested before any simulator exists for the circuit'

OPS = ['G1', 'G1r', 'G2', 'G2f', 'G3', 'G4', 'Gx', 'L', 'P', 'S', 'M']
MAXTASKS = 1        # every shard in a freshly forked process: class-level / module-level tables start pristine
HEXID = re.compile(r'_(?:0x)?[0-9a-f]{8,}\b')


def normalise(text):
    ids = {}

    def sub(m):
        k = m.group(0)
        if k not in ids:
            ids[k] = '_ID%d' % len(ids)
        return ids[k]
    text = HEXID.sub(sub, text)
    out, run = [], []
    for line in text.split('\n'):
        if line.startswith('wire '):
            run.append(line)
        else:
            if run:
                out.extend(sorted(run))
                run = []
            out.append(line)
    out.extend(sorted(run))
    return '\n'.join(out)


class Inner(Logic):
    def __init__(self, parent, name, a, b, r):
        super().__init__(parent, name)
        self.addIn('a', a)
        self.addIn('b', b)
        self.addOut('r', r)
        m = self.wire('m', a.getWidth())
        py4hw.Add(self, 'add0', a, b, m)
        py4hw.Add(self, 'add1', m, b, r)


class Inner2(Logic):
    def __init__(self, parent, name, d, q):
        super().__init__(parent, name)
        self.addIn('d', d)
        self.addOut('q', q)
        m = self.wire('m', d.getWidth())
        py4hw.Reg(self, 'r0', d, m)
        py4hw.Reg(self, 'r1', m, q)


class ParamReg(Logic):
    """behavioural register whose power-up value is the Verilog parameter INIT"""
    def __init__(self, parent, name, a, load, r, init_value):
        super().__init__(parent, name)
        self.a = self.addIn('a', a)
        self.load = self.addIn('load', load)
        self.r = self.addOut('r', r)
        self.addParameter('INIT', init_value)

    def clock(self):
        if (self.load.get()):
            self.r.prepare(self.a.get())


class Pair(Logic):
    """forwards its own parameter to two behavioural children"""
    def __init__(self, parent, name, a, load, r, init_value):
        super().__init__(parent, name)
        self.addIn('a', a)
        self.addIn('load', load)
        self.addOut('r', r)
        self.addParameter('INIT', init_value)
        r1 = self.wire('r1', r.getWidth())
        r2 = self.wire('r2', r.getWidth())
        ParamReg(self, 'p1', a, load, r1, self.getParameter('INIT'))
        ParamReg(self, 'p2', a, load, r2, self.getParameter('INIT'))
        py4hw.Xor2(self, 'x', r1, r2, r)


class Pulse(Logic):
    """a second behavioural class: constructor argument + state variable"""
    def __init__(self, parent, name, period, q):
        super().__init__(parent, name)
        self.q = self.addOut('q', q)
        self.period = period
        self.count = 0

    def clock(self):
        if (self.count == self.period):
            self.count = 0
            self.q.prepare(1)
        else:
            self.count = self.count + 1
            self.q.prepare(0)


class KW(Logic):
    """the first block of its circuit; its ports are named after Verilog keywords"""
    def __init__(self, parent, name, a, r):
        super().__init__(parent, name)
        self.addIn('always', a)
        self.addOut('wire', r)
        m = self.wire('m', a.getWidth())
        py4hw.Not(self, 'n0', a, m)
        py4hw.Not(self, 'n1', m, r)


class Core(Logic):
    """no structureName(): a module per instance; the ports carry names that are Verilog keywords"""
    def __init__(self, parent, name, a, en, r):
        super().__init__(parent, name)
        self.addIn('time', a)
        self.addIn('event', en)
        self.addOut('r', r)
        m = self.wire('m', a.getWidth())
        py4hw.Reg(self, 'r0', a, m, enable=en)
        py4hw.Not(self, 'n0', m, r)


class Stage(Logic):
    def __init__(self, parent, name, a, en, r):
        super().__init__(parent, name)
        self.addIn('a', a)
        self.addIn('en', en)
        self.addOut('r', r)
        Core(self, 'core', a, en, r)


class Lane(Logic):
    def __init__(self, parent, name, a, en, r):
        super().__init__(parent, name)
        self.addIn('a', a)
        self.addIn('en', en)
        self.addOut('r', r)
        Stage(self, 'stage', a, en, r)


class TernFirst(Logic):
    """clock() starts with a legal conditional expression"""
    def __init__(self, parent, name, a, r):
        super().__init__(parent, name)
        self.a = self.addIn('a', a)
        self.r = self.addOut('r', r)

    def clock(self):
        v = 1 if self.a.get() > 1 else 2
        self.r.prepare(v)


class TernInCall(Logic):
    """outside the transpiler's subset: a conditional expression as a call argument"""
    def __init__(self, parent, name, a, r):
        super().__init__(parent, name)
        self.a = self.addIn('a', a)
        self.r = self.addOut('r', r)

    def clock(self):
        self.r.prepare(1 if self.a.get() > 1 else 2)


class Scaler(Logic):
    """a third one whose local variable has the name of Pulse's constructor argument"""
    def __init__(self, parent, name, a, r):
        super().__init__(parent, name)
        self.a = self.addIn('a', a)
        self.r = self.addOut('r', r)

    def propagate(self):
        period = self.a.get()
        self.r.put(period & 1)


def build(kind, with_sim=True):
    """-> ns(sys, free, child (for G2/G3), prim (for P), spare wires for M)"""
    hw = py4hw.HWSystem()
    c = types.SimpleNamespace(sys=hw, kind=kind)
    if kind == 'comb':
        a, b = hw.wire('a', 2), hw.wire('b', 2)
        r0, r1, r2, n = hw.wire('r0', 2), hw.wire('r1', 2), hw.wire('r2', 2), hw.wire('n', 2)
        c.child = Inner(hw, 'inner', a, b, r0)
        py4hw.Add(hw, 'add_top', a, r0, r1)
        c.prim = py4hw.And2(hw, 'and_top', a, b, n)
        py4hw.Abs(hw, 'abs_top', n, r2)
        # a second instance of the same class with other widths (no shared module name: per-instance modules)
        a3, r3 = hw.wire('a3', 3), hw.wire('r3', 3)
        py4hw.ZeroExtend(hw, 'zx', a, a3)
        c.child2 = Inner(hw, 'inner_wide', a3, a3, r3)
        # concatenations with more than one input (inlined; their input lists belong to the circuit, not to the generator)
        py4hw.ConcatenateMSBF(hw, 'cat_m', [a, b, n], hw.wire('cm', 6))
        py4hw.ConcatenateLSBF(hw, 'cat_l', [r0, a], hw.wire('cl', 4))
        py4hw.Constant(hw, 'kneg', -2, hw.wire('kn', 3))          # a negative constant (its wire carries the pattern only once simulated)
        c.free = [a, b]
        # the edit gives the so far purely combinational top its first clocked element
        c.edit = lambda: py4hw.Reg(hw, 'extra', r2, hw.wire('extra', 2))
    elif kind == 'seq':
        rs, inc = hw.wire('reset'), hw.wire('inc')
        q, co, n = hw.wire('q', 3), hw.wire('co'), hw.wire('n')
        # a register of the top level that shares its module name (Reg3E) with the one inside the child and is created first:
        # from the top the shared module is reached through this instance, from the child through the child's own
        pre_d = hw.wire('pre_d', 3)
        py4hw.Constant(hw, 'pre_k', 6, pre_d)
        py4hw.Reg(hw, 'pre', pre_d, hw.wire('pre_q', 3), enable=inc)
        c.child = py4hw.ModuloCounter(hw, 'mc', 5, rs, inc, q, co)
        c.prim = py4hw.Not(hw, 'not_top', co, n)
        # a memory that the simulation steps fill with non-zero words
        ad = hw.wire('ad')
        py4hw.Bit(hw, 'adbit', q, 0, ad)
        five = hw.wire('five', 3)
        py4hw.Constant(hw, 'five', 5, five)
        py4hw.SynchronousMemory(hw, 'mem', ad, ad, inc, hw.wire('rd', 3), five)
        c.free = [rs, inc]
        c.edit = lambda: py4hw.Reg(hw, 'extra', q, hw.wire('extra', 3))
    elif kind == 'fsm':
        from py4hw.logic.protocol.uart.clock import ClockSyncFSM
        start, stop = hw.wire('start'), hw.wire('stop')
        sync, active, q, n = hw.wire('sync'), hw.wire('active'), hw.wire('q'), hw.wire('n')
        c.child = ClockSyncFSM(hw, 'fsm', start, stop, sync, active)
        py4hw.Reg(hw, 'r', active, q, enable=sync, reset_value=1)
        c.prim = py4hw.Or2(hw, 'or_top', q, sync, n)
        # a library block that writes its own module body (message length not a power of two)
        from py4hw.logic.protocol.uart.sequencer import MsgSequencer
        MsgSequencer(hw, 'msgseq', n, hw.wire('mvalid'), hw.wire('mv', 8), 'hello')
        c.free = [start, stop]
        c.edit = lambda: py4hw.Not(hw, 'extra', n, hw.wire('extra'))
    elif kind == 'multiclk':
        # a sub-block in its own (differently named) clock domain; the clock wire is an ordinary wire of the parent
        d, en = hw.wire('d', 2), hw.wire('en')
        pclk, q, n = hw.wire('pclk'), hw.wire('q', 2), hw.wire('n', 2)
        py4hw.Buf(hw, 'pclk_buf', en, pclk)
        c.child = Inner2(hw, 'pix', d, q)
        c.child.clockDriver = py4hw.ClockDriver('pix_clk', base=hw.clockDriver, enable=pclk, wire=pclk)
        c.prim = py4hw.Not(hw, 'not_top', q, n)
        py4hw.Reg(hw, 'sysreg', n, hw.wire('q2', 2))
        c.free = [d, en]
        c.edit = lambda: py4hw.Not(hw, 'extra', n, hw.wire('extra', 2))
    elif kind == 'beh':
        # several different transpiled classes in one design + a parameter forwarded from parent to children
        a, load = hw.wire('a', 2), hw.wire('load')
        r, q, s2, n = hw.wire('r', 2), hw.wire('q'), hw.wire('s2', 2), hw.wire('n', 2)
        TernFirst(hw, 'tern', a, hw.wire('t', 2))        # first behavioural block of the hierarchy: starts with a legal ternary
        c.child = Pair(hw, 'pair', a, load, r, 2)
        Pulse(hw, 'pulse', 2, q)
        c.alt = Pulse(hw, 'pulse_slow', 3, hw.wire('q3'))        # same class, another constructor argument
        Scaler(hw, 'scaler', r, s2)
        c.prim = py4hw.Not(hw, 'not_top', s2, n)
        c.free = [a, load]
        c.edit = lambda: py4hw.Not(hw, 'extra', n, hw.wire('extra', 2))
    elif kind == 'partbad':
        # a circuit one part of which cannot be transpiled: requests that include that part are refused half-way (after the
        # modules of the good part were emitted); requests for the good part alone must not notice
        d, q, q2 = hw.wire('d', 2), hw.wire('q', 2), hw.wire('q2', 2)
        c.child = Inner2(hw, 'good', d, q)
        bad = Logic(hw, 'badpart')
        bad.addIn('d', q)
        bad.addOut('q', q2)
        m = bad.wire('m', 2)
        py4hw.Reg(bad, 'r0', q, m)
        TernInCall(bad, 'bad', m, q2)
        c.prim = py4hw.Not(hw, 'not_top', q2, hw.wire('n', 2))
        c.free = [d]
        c.edit = lambda: py4hw.Not(hw, 'extra', q, hw.wire('extra', 2))
    elif kind == 'lanes':
        # three levels, equally named blocks in different branches with different content, ports named after Verilog keywords
        x, e = hw.wire('x', 2), hw.wire('e')
        y0, y1 = hw.wire('y0', 2), hw.wire('y1', 4)
        x4 = hw.wire('x4', 4)
        KW(hw, 'kw', x, hw.wire('kwr', 2))
        py4hw.ZeroExtend(hw, 'zx', x, x4)
        c.child = Lane(hw, 'lane0', x, e, y0)
        c.alt = None
        c.child2 = Lane(hw, 'lane1', x4, e, y1)
        c.prim = py4hw.Not(hw, 'not_top', y0, hw.wire('n', 2))
        c.free = [x, e]
        c.edit = lambda: py4hw.Not(hw, 'extra', y1, hw.wire('extra', 4))
    elif kind == 'refuse':
        # a block the transpiler must refuse (ternary inside a call): requests for this circuit raise
        a, r = hw.wire('a', 2), hw.wire('r', 2)
        c.child = TernInCall(hw, 'bad', a, r)
        c.prim = py4hw.Not(hw, 'not_top', r, hw.wire('n', 2))
        c.free = [a]
        c.edit = lambda: None
    else:
        raise ValueError(kind)
    if not hasattr(c, 'child2'):
        c.child2 = None
    if not hasattr(c, 'alt'):
        c.alt = None
    c.ng2 = 0
    c.ng3 = 0
    c.lst = []          # the caller-owned list of already emitted structures (op L)
    c.nl = 0
    if not with_sim:
        return c
    c.sim = hw.getSimulator()
    c.st = core.SysState(hw, free=c.free)
    c.gen = py4hw.VerilogGenerator(hw)
    c.edited = False
    c.step = 0
    return c


INPUTS = [(1, 1), (0, 1), (3, 2), (0, 0), (1, 0), (2, 3), (1, 1), (0, 1)]


def request(c, op, c2):
    """execute one generation request, returns list of (request-name, normalised text)"""
    if c.kind == 'partbad' and op != 'Gx':
        try:
            return _request(c, op, c2)
        except Exception as e:
            # requests that include the part that cannot be transpiled are expected to be refused; any other refusal is raised on
            if op in ('G1', 'G1r') or (op == 'L' and (c.nl - 1) % 2 == 1):
                return [('refused:' + op, 'REFUSED', 'REFUSED')]
            raise
    return _request(c, op, c2)


def _request(c, op, c2):
    top = c.sys
    VG = py4hw.VerilogGenerator
    if op == 'G1':
        return [('hier', normalise(VG(top).getVerilogForHierarchy()))]
    if op == 'G1r':
        return [('hier', normalise(c.gen.getVerilogForHierarchy()))]
    if op in ('G2', 'G2f'):
        # single-module text of the child and, where the circuit has one, of a second instance of a behavioural class
        # whose first instance precedes it in the hierarchy - alternately
        tgt, key = c.child, 'child'
        if c.alt is not None:
            if c.ng2 % 2 == 1:
                tgt, key = c.alt, 'alt'
            c.ng2 += 1
        if op == 'G2':
            return [(key, normalise(c.gen.getVerilog(tgt)))]
        return [(key, normalise(VG(tgt.parent).getVerilog(tgt))),
                (key, normalise(VG(tgt).getVerilog()))]
    if op == 'G3':
        # alternately the child (keeping its instance number) and, where there is one, the second instance of the child's
        # class as a stand-alone top entity (default arguments)
        k = c.ng3 % 2 if c.child2 is not None else 0
        c.ng3 += 1
        if k == 0:
            g = c.gen if c.kind == 'partbad' else VG(top)      # partbad: the generator that served (and refused) earlier requests
            return [('childhier', normalise(g.getVerilogForHierarchy(c.child, noInstanceNumberInTopEntity=False)))]
        return [('childhier2', normalise(VG(top).getVerilogForHierarchy(c.child2)))]
    if op == 'G4':
        return [('topmodule', normalise(c.gen.getVerilog(top, noInstanceNumber=True)))]
    if op == 'Gx':
        try:
            return [('hier2', normalise(VG(c2.sys).getVerilogForHierarchy()))]
        except Exception as e:
            if c2.kind != 'refuse':
                raise
            return [('hier2', 'REFUSED')]
    if op == 'P':
        return [('prim', VG(top).inlinePrimitive(c.prim))]
    if op == 'L':
        # hierarchy request with the caller-owned list of already emitted structures on the reused generator:
        # first the child, then the top, alternating.  Reference = a fresh generator given a copy of the list.
        tgt = c.child if c.nl % 2 == 0 else None
        c.nl += 1
        copy = list(c.lst)
        want = normalise(VG(top).getVerilogForHierarchy(tgt, noInstanceNumberInTopEntity=False, createdStructures=copy))
        got = normalise(c.gen.getVerilogForHierarchy(tgt, noInstanceNumberInTopEntity=False, createdStructures=c.lst))
        return [('withlist', got, want), ('withlist_names', sorted(c.lst), sorted(copy))]
    raise ValueError(op)


def _in_child(fn, *args):
    """run fn(*args) in a forked child of this (pristine) process and return its picklable result"""
    import os
    import pickle
    r, w = os.pipe()
    pid = os.fork()
    if pid == 0:
        try:
            os.close(r)
            try:
                data = pickle.dumps(('ok', fn(*args)))
            except BaseException as e:
                data = pickle.dumps(('err', repr(e)))
            with os.fdopen(w, 'wb') as fh:
                fh.write(data)
        finally:
            os._exit(0)
    os.close(w)
    with os.fdopen(r, 'rb') as fh:
        data = fh.read()
    os.waitpid(pid, 0)
    tag, val = pickle.loads(data)
    if tag != 'ok':
        raise core.HarnessError('canonical answers could not be computed in a child process: %s' % val)
    return val


def canonical(kind, kind2):
    """canonical answers: each circuit's own requests in a child process of their own, forked from the pristine shard
    process - what was generated for one circuit cannot colour the canonical answer of the other"""
    out = {}
    for edited in (False, True):
        for op in ('G1', 'G2', 'G3', 'G4', 'P'):
            for second in (0, 1):
                out.update(_in_child(_canonical_one, kind, edited, op, second))     # every canonical answer in a process of its own
    h2 = _in_child(_canonical_second, kind, kind2)
    out[('hier2', False)] = out[('hier2', True)] = h2
    return out


def _canonical_second(kind, kind2):
    c2 = build(kind2)
    return request(build(kind), 'Gx', c2)[0][1]


def _canonical_one(kind, edited, op, second):
    out = {}
    c = build(kind)
    if second and not ((op == 'G3' and c.child2 is not None) or (op == 'G2' and c.alt is not None)):
        return out
    if edited:
        c.edit()
        c.sys.getSimulator()
    c.ng3 = c.ng2 = second
    for k, t, *_ in request(c, op, None):
        out[(k, edited)] = t
    return out


def run_history(kind, kind2, hist, canon, res):
    """execute one history on fresh circuits; returns violation detail or None"""
    c, twin, c2 = build(kind), build(kind), build(kind2)
    for i, op in enumerate(hist):
        res['transitions'] += 1
        if op == 'S':
            x = INPUTS[c.step % len(INPUTS)]
            for cc in (c, twin):
                for w, v in zip(cc.free, x):
                    w.put(v)
                cc.sim.clk(1)
            c.step += 1
            a = [w.value for w in c.st.wires[:len(twin.st.wires)]]
            b = [w.value for w in twin.st.wires]
            res['_outcomes'].add(tuple(b))
            if a != b:
                return {'sigkey': 'simulation_changed_by_generation', 'step': i,
                        'diff': [(w.getFullPath(), p, q) for w, p, q in zip(twin.st.wires, a, b) if p != q][:5]}
            continue
        if op == 'M':
            if c.edited:
                continue
            for cc in (c, twin):
                cc.edit()
                cc.edited = True
                cc.sim = cc.sys.getSimulator()
                cc.st = core.SysState(cc.sys, free=cc.free)
            continue
        before = c.st.snapshot()
        lst_before = list(c.lst)
        try:
            got = request(c, op, c2)
        except Exception as e:
            return {'sigkey': 'generation_raised:%s' % op, 'step': i, 'error': repr(e)[:200]}
        if c.st.snapshot() != before:
            return {'sigkey': 'circuit_state_changed:%s' % op, 'step': i}
        if [x for x in lst_before if x not in c.lst]:
            # the list handed to an earlier request belongs to the caller: entries ("already emitted") never disappear
            return {'sigkey': 'caller_list_lost_entries:%s' % op, 'step': i, 'before': lst_before[:8], 'after': list(c.lst)[:8]}
        for k, t, *w in got:
            want = w[0] if w else canon.get((k, c.edited), '<no canonical answer: on a pristine circuit this request is refused>')
            res['evaluations'] += 1
            if t != want:
                if not isinstance(t, str):
                    return {'sigkey': 'text_differs:%s' % op, 'step': i, 'request': k, 'reference': want[:8], 'got': t[:8]}
                return {'sigkey': 'text_differs:%s' % op, 'step': i, 'request': k,
                        'first_difference': first_diff(want, t)}
    return None


def first_diff(a, b):
    la, lb = a.split('\n'), b.split('\n')
    for i, (x, y) in enumerate(zip(la, lb)):
        if x != y:
            return {'line': i, 'canonical': x[:160], 'got': y[:160]}
    return {'line': min(len(la), len(lb)), 'canonical_lines': len(la), 'got_lines': len(lb)}


DEEP = {('lanes', 'comb'), ('comb', 'seq'), ('beh', 'fsm'), ('partbad', 'comb')}
KINDS = [('lanes', 'comb'), ('comb', 'seq'), ('seq', 'fsm'), ('fsm', 'comb'), ('multiclk', 'comb'), ('beh', 'fsm'), ('beh', 'refuse'), ('partbad', 'comb')]


_CANON = {}


def canon_for(kind, kind2):
    if (kind, kind2) not in _CANON:
        _CANON[(kind, kind2)] = canonical(kind, kind2)
    return _CANON[(kind, kind2)]


def shards(tier):
    H = 5 if tier == 'thorough' else 4
    # the canonical answers are computed here, in children of the (pristine) main process, and inherited by the shard
    # processes that are forked afterwards
    for kind, kind2 in KINDS:
        canon_for(kind, kind2)
    out = []
    for kind, kind2 in KINDS:
        # thorough: depth 5 for four of the circuit pairs (121 prefixes each), depth 4 for the others
        h = H if (tier != 'thorough' or (kind, kind2) in DEEP) else 4
        pre = 2 if h > 4 else 1
        for prefix in itertools.product(OPS, repeat=pre):
            out.append({'kind': kind, 'kind2': kind2, 'prefix': list(prefix), 'H': h})
    return out


def histories(d):
    pre, H = d['prefix'], d['H']
    # every history of length <= H that starts with the prefix (shorter ones are prefixes of these and are
    # checked step by step, so only maximal histories are executed); plus the prefix-only history
    for tail in itertools.product(OPS, repeat=H - len(pre)):
        yield pre + list(tail)


def run_shard(d):
    res = {'states': 0, 'transitions': 0, 'traces_validated_against_impl': 0, 'evaluations': 0, 'programs': 0,
           'violations': [], 'samples': [], '_outcomes': set()}
    canon = canon_for(d['kind'], d['kind2'])
    nodes = set()
    if d['prefix'] == [OPS[0]] * len(d['prefix']):
        # once per circuit: the hierarchy text asked for BEFORE any simulator exists for the circuit equals the canonical text
        # (which was produced after the simulator had been created): generation does not depend on simulation having happened
        want = canon.get(('hier', False))
        if want is not None and want != 'REFUSED':
            try:
                with core.quiet():
                    c0 = build(d['kind'], with_sim=False)
                    got = normalise(py4hw.VerilogGenerator(c0.sys).getVerilogForHierarchy())
            except Exception as e:
                got = 'RAISED ' + repr(e)[:160]
            res['evaluations'] += 1
            if got != want:
                res['violations'].append({'sig': 'C19:%s:text_differs:before_any_simulator' % d['kind'], 'shard': d, 'trace': [],
                                          'detail': {'sigkey': 'text_differs:before_any_simulator',
                                                     'first_difference': first_diff(want, got)}})
    for hist in histories(d):
        res['programs'] += 1
        res['traces_validated_against_impl'] += 1
        for k in range(1, len(hist) + 1):
            nodes.add(tuple(hist[:k]))
        det = run_history(d['kind'], d['kind2'], hist, canon, res)
        if det is not None:
            sig = 'C19:%s:%s' % (d['kind'], det['sigkey'])
            if sum(1 for v in res['violations'] if v['sig'] == sig) < 2:
                res['violations'].append({'sig': sig, 'shard': d, 'trace': hist[:det.get('step', len(hist)) + 1], 'detail': det})
    res['states'] = len(nodes) + 1
    if not res['samples']:
        res['samples'].append({'circuit': d['kind'], 'history': hist})
    res['distinct_outcomes'] = len(res.pop('_outcomes'))
    res['vacuous_ok'] = True
    return res


def replay(v):
    d = v['shard']
    canon = canon_for(d['kind'], d['kind2'])
    res = {'transitions': 0, 'evaluations': 0, '_outcomes': set()}
    if v['sig'].endswith(':before_any_simulator'):
        with core.quiet():
            c0 = build(d['kind'], with_sim=False)
            got = normalise(py4hw.VerilogGenerator(c0.sys).getVerilogForHierarchy())
        want = canon.get(('hier', False))
        return {'history': [], 'violates': got != want, 'detail': first_diff(want, got) if got != want else None}
    det = run_history(d['kind'], d['kind2'], v['trace'], canon, res)
    return {'history': v['trace'], 'violates': det is not None, 'detail': det}
