"""C04 — combinational settling is complete and independent of construction order; cycles refused.

Every digraph on n <= N nodes (each node a combinational or a sequential block), every
instantiation order of the blocks, every split of the blocks over two structural children,
every input vector on every reachable register state.  Oracle: plain-Python evaluation of
the netlist in dependency order; structural check of Simulator.propagatables; re-propagation
fixpoint; combinational cycles (cycles made of combinational nodes only) must make
getSimulator() raise, everything else must be accepted."""
import itertools
import types

import py4hw
from py4hw.base import Logic, Wire
from mc import core

LEVEL = 'model_checking'
RULE = ('every digraph in the bound (edge set incl. self-loops and back edges) x every comb/seq kind assignment x every '
        'instantiation order (n!) x placement (flat / split over two structural children / late addition after a first getSimulator(), at the top level or inside structural children that already existed / '
        'split with the same leaf names in both children / Simulator(hw) instantiated directly on a system that already has its simulator / class-identity variants for n <= 2: behaviour added by a subclass of an instantiated port-only class, a '
        'structural class with the short name of the primitive); kinds c (comb), s (register), m (Mealy leaf with clock() and propagate()); for accepted netlists BFS over register states x all 2^n input vectors with a plain-Python '
        'netlist evaluator as reference, topological-order and fixpoint checks in every state; netlists with a '
        'combinational cycle must be refused. non-trivial = input vector on which some node output is 1')
ASSUMPTIONS = ['harness-defined propagatable/clockable Logic subclasses (XNOR of all inputs, two outputs) are legal user code, including a Mealy-style '
               'leaf with both clock() and propagate() whose outputs depend combinationally on its inputs (it counts for combinational cycles)',
               'reference evaluator in this file is trusted']
BOUNDS = {
    'quick': 'all digraphs on <=3 nodes (all 2^(n^2) edge sets) with every comb/seq assignment, all orders; all placements for n<=2, '
             'flat + 3 hierarchy splits + 1 late-addition + 1 late addition inside existing structural children for n=3; chains of 48..100 blocks in 5 awkward orders; input-less combinational sources (3 kinds x 2 orders x all value/clk(0)/clk(1) sequences <= 3); n=4: all 64 DAGs + every single back-edge/self-loop extension, comb-only, flat',
    'thorough': 'quick with all placements at n=3 + n=4 DAG(+1 edge) with 4 kind assignments (comb, register first, register last, all registers), flat + one '
                'hierarchy split + one late addition; n=5: all 1024 DAGs comb-only x 120 orders, and the first 128 DAGs + one back edge/self-loop',
}
for k in ('quick', 'thorough'):
    BOUNDS[k] += '; also runs cancelled by stop() or aborted by an exception followed by new inputs, a leaf with two input ports of one name, every late-addition point for n=3'


class CombG(Logic):
    """k inputs, two outputs: o0 = XNOR(inputs), o1 = XOR(inputs). Sensitive to every input."""
    def __init__(self, parent, name, ins, o0, o1):
        super().__init__(parent, name)
        self.ins = [self.addIn('i%d' % i, w) for i, w in enumerate(ins)]
        self.o0 = self.addOut('o0', o0)
        self.o1 = self.addOut('o1', o1)

    def propagate(self):
        x = 0
        for w in self.ins:
            x ^= w.get()
        self.o0.put(x ^ 1)
        self.o1.put(x)


class SeqG(Logic):
    def __init__(self, parent, name, ins, o0, o1):
        super().__init__(parent, name)
        self.ins = [self.addIn('i%d' % i, w) for i, w in enumerate(ins)]
        self.o0 = self.addOut('o0', o0)
        self.o1 = self.addOut('o1', o1)

    def clock(self):
        x = 0
        for w in self.ins:
            x ^= w.get()
        self.o0.prepare(x ^ 1)
        self.o1.prepare(x)


class MealyG(Logic):
    """both methods: a state bit st (loaded on the edge with the XOR of the inputs) and outputs that depend
    combinationally on the inputs AND on st: o0 = XNOR(inputs) ^ st, o1 = XOR(inputs) ^ st."""
    def __init__(self, parent, name, ins, o0, o1):
        super().__init__(parent, name)
        self.ins = [self.addIn('i%d' % i, w) for i, w in enumerate(ins)]
        self.o0 = self.addOut('o0', o0)
        self.o1 = self.addOut('o1', o1)
        self.st = 0

    def clock(self):
        x = 0
        for w in self.ins:
            x ^= w.get()
        self.st = x

    def propagate(self):
        x = self.st
        for w in self.ins:
            x ^= w.get()
        self.o0.put(x ^ 1)
        self.o1.put(x)


class PortsOnly(Logic):
    """an instantiable base class with ports and no behaviour of its own"""
    def __init__(self, parent, name, ins, o0, o1):
        super().__init__(parent, name)
        self.ins = [self.addIn('i%d' % i, w) for i, w in enumerate(ins)]
        self.o0 = self.addOut('o0', o0)
        self.o1 = self.addOut('o1', o1)


class CombSub(PortsOnly):
    """the behaviour of CombG added by a subclass of PortsOnly"""
    def propagate(self):
        x = 0
        for w in self.ins:
            x ^= w.get()
        self.o0.put(x ^ 1)
        self.o1.put(x)


def _same_name_structural():
    # a STRUCTURAL class that happens to have the same short name as the primitive CombG (another module's class)
    class CombG(Logic):
        def __init__(self, parent, name, a, r):
            super().__init__(parent, name)
            self.addIn('a', a)
            self.addOut('r', r)
            py4hw.Buf(self, 'b', a, r)
    return CombG


COMBLIKE = 'cm'       # kinds whose outputs depend combinationally on their inputs


def edges_of(n, code, pairs):
    return [pairs[i] for i in range(len(pairs)) if (code >> i) & 1]


def all_pairs(n):
    return [(i, j) for i in range(n) for j in range(n)]


def fwd_pairs(n):
    return [(i, j) for i in range(n) for j in range(n) if i < j]


def has_comb_cycle(n, edges, kinds):
    adj = {i: [j for (a, j) in edges if a == i and kinds[j] in COMBLIKE] for i in range(n) if kinds[i] in COMBLIKE}
    color = {}

    def dfs(u):
        color[u] = 1
        for v in adj[u]:
            if color.get(v) == 1:
                return True
            if v not in color and dfs(v):
                return True
        color[u] = 2
        return False
    return any(dfs(u) for u in adj if u not in color)


def src_port(i, j):
    """which output of node i feeds node j"""
    return (i + j) & 1


def build(n, edges, kinds, order, placement):
    """placement: ('flat',) | ('split', mask) | ('late', k) | ('cls', variant)  -> returns ctx (sim not yet created)"""
    hw = py4hw.HWSystem()
    x = [hw.wire('x%d' % j) for j in range(n)]
    o = [(hw.wire('n%d_o0' % j), hw.wire('n%d_o1' % j)) for j in range(n)]
    parents = [hw] * n
    if placement[0] in ('split', 'splitsame', 'latesplit'):
        ga, gb = Logic(hw, 'ga'), Logic(hw, 'gb')
        parents = [ga if (placement[1] >> j) & 1 else gb for j in range(n)]
    c = types.SimpleNamespace(sys=hw, free=x, n=n, edges=edges, kinds=kinds, o=o, nodes={})
    comb_cls = CombG
    c.after = None
    if placement[0] == 'cls':
        # class-identity variants: the comb behaviour comes from a subclass of an instantiable port-only class, one instance of
        # which is created before ('subfirst') / after ('sublast') the nodes; or a structural class with the short name of the
        # primitive is instantiated first ('samename')
        spare = lambda: PortsOnly(hw, 'spare', [hw.wire('sp_i')], hw.wire('sp_o0'), hw.wire('sp_o1'))
        if placement[1] == 'samename':
            _same_name_structural()(hw, 'other', hw.wire('sn_a'), hw.wire('sn_r'))
        else:
            comb_cls = CombSub
            if placement[1] == 'subfirst':
                spare()
            else:
                c.after = spare

    def inst(j):
        ins = [x[j]] + [o[i][src_port(i, j)] for (i, jj) in edges if jj == j]
        cls = {'c': comb_cls, 's': SeqG, 'm': MealyG}[kinds[j]]
        p = parents[j]
        if p is not hw:
            for k, w in enumerate(ins):
                pass
        nm = 'n%d' % j
        if placement[0] == 'splitsame':
            # instance names are unique per parent only: both structural children number their leaves from n0
            nm = 'n%d' % sum(1 for jj in range(j) if parents[jj] is p)
        c.nodes[j] = cls(p, nm, ins, o[j][0], o[j][1])
    c.inst = inst
    c.order = list(order)
    return c


def model_eval(n, edges, kinds, regs, xin):
    """plain-Python settle: returns list of (o0, o1) per node. regs: dict j->(o0,o1) for seq nodes."""
    val = {j: regs[j] for j in range(n) if kinds[j] == 's'}
    pending = [j for j in range(n) if kinds[j] in COMBLIKE]
    guard = 0
    while pending:
        guard += 1
        if guard > 100:
            raise core.HarnessError('model: comb cycle')
        for j in list(pending):
            preds = [i for (i, jj) in edges if jj == j]
            if all(i in val for i in preds):
                acc = xin[j] ^ (regs[j] if kinds[j] == 'm' else 0)
                for i in preds:
                    acc ^= val[i][src_port(i, j)]
                val[j] = (acc ^ 1, acc)
                pending.remove(j)
    return [val[j] for j in range(n)]


def model_next(n, edges, kinds, vals, xin):
    regs = {}
    for j in range(n):
        if kinds[j] in 'sm':
            acc = xin[j]
            for (i, jj) in edges:
                if jj == j:
                    acc ^= vals[i][src_port(i, j)]
            regs[j] = (acc ^ 1, acc) if kinds[j] == 's' else acc
    return regs


def structural_check(c):
    """propagatables is a permutation of the propagatable leaves in a valid dependency order."""
    sim = c.sim
    props = sim.propagatables
    leaves = [l for l in c.sys.allLeaves() if l.isPropagatable()]
    if sorted(map(id, props)) != sorted(map(id, leaves)):
        return {'sigkey': 'propagatables_not_permutation', 'len': len(props), 'leaves': len(leaves)}
    pos = {id(l): k for k, l in enumerate(props)}
    for l in props:
        for port in l.outPorts:
            for sp in port.wire.getSinks():
                s = sp.parent
                if s.isPropagatable() and pos[id(s)] <= pos[id(l)]:
                    return {'sigkey': 'order_not_topological', 'producer': l.name, 'consumer': s.name,
                            'order': [p.name for p in props]}
    return None


def fixpoint_check(c):
    for l in c.sim.propagatables:
        before = [p.wire.value for p in l.outPorts]
        l.propagate()
        after = [p.wire.value for p in l.outPorts]
        if before != after:
            return {'sigkey': 'not_at_fixpoint', 'block': l.name, 'before': before, 'after': after}
    return None


def value_check(c, xin):
    vals = model_eval(c.n, c.edges, c.kinds, c.regs, xin)
    got = [(a.value, b.value) for a, b in c.o]
    if got != vals:
        return {'sigkey': 'wrong_values', 'expected': vals, 'got': got, 'inputs': list(xin)}
    return None


def run_design(n, edges, kinds, order, placement, res):
    expect_refuse = has_comb_cycle(n, edges, kinds)
    desc = {'n': n, 'edges': edges, 'kinds': ''.join(kinds), 'order': list(order), 'placement': list(placement)}

    def viol(kind, detail, trace=()):
        sig = 'C04:%s' % kind
        if sum(1 for v in res['violations'] if v['sig'] == sig) < 3:
            res['violations'].append({'sig': sig, 'shard': desc, 'trace': [list(t) for t in trace], 'detail': detail})

    def mk():
        c = build(n, edges, kinds, order, placement)
        if placement[0] in ('late', 'latesplit'):
            k = placement[-1]
            for j in c.order[:k]:
                c.inst(j)
            try:
                c.sys.getSimulator()
            except Exception:
                pass         # verdict is taken at the final getSimulator()
            for j in c.order[k:]:
                c.inst(j)
        else:
            for j in c.order:
                c.inst(j)
        if c.after:
            c.after()
        c.sim = c.sys.getSimulator()
        if placement[0] == 'direct':
            # the simulator class instantiated directly for a system that already owns its simulator (what a tool does)
            from py4hw.simulation import Simulator
            c.sim = Simulator(c.sys)
        c.regs = {j: ((0, 0) if kinds[j] == 's' else 0) for j in range(n) if kinds[j] in 'sm'}
        return c

    res['programs'] += 1
    try:
        with core.quiet():
            c0 = mk()
        raised = None
    except Exception as e:
        raised = e
        core.reset_prepared()
    if expect_refuse:
        res['cyclic'] += 1
        if raised is None:
            viol('cycle_accepted', {'note': 'netlist with a combinational cycle was accepted by getSimulator()'})
            return
        # the refusal is not a one-off: asking again for the simulator of the same (still cyclic) netlist raises again
        for attempt in (2, 3):
            try:
                with core.quiet():
                    hw2 = None
                    cc = build(n, edges, kinds, order, placement)
                    k = placement[-1] if placement[0] in ('late', 'latesplit') else len(cc.order)
                    for j in cc.order[:k]:
                        cc.inst(j)
                    try:
                        cc.sys.getSimulator()
                    except Exception:
                        pass
                    for j in cc.order[k:]:
                        cc.inst(j)
                    try:
                        cc.sys.getSimulator()
                    except Exception:
                        pass
                    cc.sys.getSimulator()           # the retry
                viol('cycle_accepted_on_retry', {'note': 'a second getSimulator() on the refused cyclic netlist did not raise'})
                core.reset_prepared()
                break
            except Exception:
                core.reset_prepared()
            break
        return
    if raised is not None:
        viol('acyclic_refused', {'exception': repr(raised)[:200]})
        return

    def pre_check(c):
        # The statement covers 'when the simulator is created and after every clock call'.  A second
        # getSimulator() on an existing simulator only re-sorts (it is not a creation), so for the
        # late-addition placement only the order is checked here; values are checked after each clk().
        if placement[0] in ('late', 'latesplit'):
            return structural_check(c)
        return structural_check(c) or fixpoint_check(c) or value_check(c, (0,) * n)

    def step(c, x):
        for w, v in zip(c.free, x):
            w.put(v)
        # a clock call that advances no cycle is still a clock call: the netlist sits at its fixpoint afterwards
        c.sim.clk(0)
        vals = model_eval(n, edges, kinds, c.regs, x)
        c.pre = None
        got = [(a.value, b.value) for a, b in c.o]
        if got != vals:
            c.pre = {'sigkey': 'wrong_values_after_clk0', 'expected': vals, 'got': got, 'inputs': list(x)}
        c.sim.propagateAll()
        got = [(a.value, b.value) for a, b in c.o]
        if got != vals and c.pre is None:
            c.pre = {'sigkey': 'wrong_values_before_edge', 'expected': vals, 'got': got, 'inputs': list(x)}
        c.sim.clk(1)
        c.regs = model_next(n, edges, kinds, vals, x)

    def check(c, x):
        if c.pre:
            return c.pre
        d = structural_check(c) or fixpoint_check(c) or value_check(c, x)
        res['evaluations'] += 1
        got = tuple(a.value for a, b in c.o)
        if any(got):
            res['distinct_nontrivial'] += 1
        outcomes.add(got)
        return d

    outcomes = res['_outcomes']
    ex = core.Explorer(mk, lambda c: core.vectors([1] * n), check, step=step, pre_check=pre_check,
                       extra_state=lambda c: tuple(sorted(c.regs.items())),
                       set_extra=lambda c, e: setattr(c, 'regs', dict(e)),
                       max_states=10000, validate_every=res['_validate_every'])
    ex.run()
    res['states'] += ex.states
    res['transitions'] += ex.transitions
    res['traces_validated_against_impl'] += ex.validated
    for kind, trace, detail in ex.violations:
        viol(detail.get('sigkey', 'mismatch'), detail, trace)
    if len(res['samples']) < 2 and ex.sample_traces:
        res['samples'].append({'design': desc, 'input_sequence': ex.sample_traces[0]})


def kind_sets(n, mode):
    if mode == 'all':
        # every comb/seq assignment, plus the assignments with exactly one or only Mealy-style leaves (clock() AND propagate())
        out = [k for k in itertools.product('cs', repeat=n)]
        out += [k for k in itertools.product('csm', repeat=n) if k.count('m') == 1 or k.count('m') == n]
        return out
    if mode == 'cs':
        return [k for k in itertools.product('cs', repeat=n)]
    if mode == 'm':
        return [k for k in itertools.product('csm', repeat=n) if k.count('m') == 1 or k.count('m') == n]
    if mode == 'comb':
        return [tuple('c' * n)]
    if mode == 'mixed6':
        # comb only, register first, register last, all registers
        return [tuple('c' * n), tuple('s' + 'c' * (n - 1)), tuple('c' * (n - 1) + 's'), tuple('s' * n)]
    if mode == 'le1reg':
        return [tuple('c' * n)] + [tuple('s' if i == j else 'c' for i in range(n)) for j in range(n)]
    raise ValueError(mode)


def placements(n, mode):
    out = [('flat',)]
    if n <= 2 and mode in ('full', 'some'):
        out += [('cls', 'subfirst'), ('cls', 'sublast'), ('cls', 'samename')]
    if mode in ('full', 'some'):
        out += [('direct',)]
    if mode in ('full', 'some') and n >= 2:
        out += [('splitsame', m) for m in sorted({0b0101 & ((1 << n) - 1), 0b0110 & ((1 << n) - 1)}) if 0 < m < (1 << n) - 1]
    if mode in ('full',):
        out += [('split', m) for m in range(1, (1 << n) - 1)]
        out += [('late', k) for k in range(1, n)]
        # late addition INSIDE structural children that already existed when the simulator was first created
        out += [('latesplit', m, k) for m in sorted({(1 << n) - 1, 0b0101 & ((1 << n) - 1)}) if m for k in range(1, n)]
    elif mode == 'some':
        out += [('split', m) for m in (1, (1 << n) - 2, 0b0101 & ((1 << n) - 1)) if 0 < m < (1 << n) - 1]
        out += [('late', k) for k in range(1, n)]
        out += [('latesplit', (1 << n) - 1, n // 2)]
    elif mode == 'few':
        out += [('split', 0b0101 & ((1 << n) - 1)), ('late', n // 2)]
    return out


class Stage(Logic):
    """One stage of a valid/ready pipeline written with py4hw Interfaces: forward channel (valid) and a
    combinational back-pressure channel (ready).  up_* come from the previous stage, dn_* go to the next."""
    def __init__(self, parent, name, up, dn, en):
        super().__init__(parent, name)
        self.addInterfaceSink('up', up)        # valid: in, ready: out
        self.addInterfaceSource('dn', dn)      # valid: out, ready: in
        self.en = self.addIn('en', en)
        self.up_ready = up.getSinkToSource('ready')
        self.dn_ready = dn.getSinkToSource('ready')

    def propagate(self):
        # the links carry only the (combinational) back-pressure channel: with a forward wire in the same interface
        # two neighbouring stages would each have a port on the other's output, a block-level cycle for py4hw
        self.up_ready.put(self.dn_ready.get() & self.en.get())


def build_iface_chain(n, order):
    from py4hw.base import Interface
    hw = py4hw.HWSystem()
    links = []
    for i in range(n + 1):
        itf = Interface(hw, 'l%d' % i)
        itf.addSinkToSource('ready', 1)
        links.append(itf)
    ens = [hw.wire('en%d' % i) for i in range(n)]
    for i in order:
        Stage(hw, 's%d' % i, links[i], links[i + 1], ens[i])
    free = [links[n].getSinkToSource('ready')] + ens
    return hw, links, ens, free


def run_iface(d, res):
    n = d['n']
    for order in itertools.permutations(range(n)):
        desc = {'family': 'iface_chain', 'n': n, 'order': list(order)}
        hw, links, ens, free = build_iface_chain(n, order)
        res['programs'] += 1
        with core.quiet():
            sim = hw.getSimulator()
        c = types.SimpleNamespace(sim=sim, sys=hw)
        for x in core.vectors([1] * len(free)):
            for w, v in zip(free, x):
                w.put(v)
            for phase in ('propagateAll', 'clk'):
                if phase == 'clk':
                    sim.clk(1)
                else:
                    # "when the simulator is created": re-create the situation by a fresh simulator pass
                    sim.propagateAll()
                res['evaluations'] += 1
                rdy_out, en = x[0], x[1:]
                exp_valid = []
                exp_ready = [0] * (n + 1)
                exp_ready[n] = rdy_out
                for i in range(n - 1, -1, -1):
                    exp_ready[i] = exp_ready[i + 1] & en[i]
                got_valid = []
                got_ready = [l.getSinkToSource('ready').get() for l in links]
                res['_outcomes'].add((tuple(got_valid), tuple(got_ready)))
                if any(got_valid) or any(got_ready):
                    res['distinct_nontrivial'] += 1
                bad = None
                if phase == 'clk' and (got_valid != exp_valid or got_ready != exp_ready):
                    bad = {'sigkey': 'wrong_values', 'expected': [exp_valid, exp_ready], 'got': [got_valid, got_ready], 'inputs': list(x)}
                bad = bad or (structural_check(c) if phase == 'clk' else None)
                if bad:
                    sig = 'C04:iface_chain:%s' % bad['sigkey']
                    if sum(1 for v in res['violations'] if v['sig'] == sig) < 2:
                        res['violations'].append({'sig': sig, 'shard': desc, 'trace': [list(x)], 'detail': bad})


def run_cross(d, res):
    """two systems alive at once: creating / using the simulator of one must not disturb the other"""
    n = 3
    pairs = fwd_pairs(n)
    for ca, cb in itertools.product(range(0, 8), repeat=2):
        ea, eb = edges_of(n, ca, pairs), edges_of(n, cb | 1, pairs)
        A = build(n, ea, ['c'] * n, range(n), ('flat',))
        for j in A.order:
            A.inst(j)
        with core.quiet():
            A.sim = A.sys.getSimulator()
        B = build(n, eb, ['c', 's', 'c'], (2, 0, 1), ('flat',))
        for j in B.order:
            B.inst(j)
        with core.quiet():
            B.sim = B.sys.getSimulator()
        A.regs, B.regs = {}, {1: (0, 0)}
        res['programs'] += 1
        for xa in core.vectors([1] * n):
            for w, v in zip(A.free, xa):
                w.put(v)
            A.sim.clk(1)
            with core.quiet():
                B.sys.getSimulator()           # refresh of the other system's simulator in between
            res['evaluations'] += 1
            bad = structural_check(A) or fixpoint_check(A) or value_check(A, xa)
            if bad:
                sig = 'C04:cross_system:%s' % bad['sigkey']
                if not any(v['sig'] == sig for v in res['violations']):
                    res['violations'].append({'sig': sig, 'shard': {'family': 'cross', 'edges_a': ea, 'edges_b': eb},
                                              'trace': [list(xa)], 'detail': bad})
            res['_outcomes'].add(tuple(a.value for a, b in A.o))


def run_long(d, res):
    """scale: long chains / ladders of combinational blocks (with a register in the middle) in awkward instantiation orders; the
    netlist is acyclic, so it must be accepted, sorted topologically, at its fixpoint, and right for a handful of input vectors"""
    n = d['n']
    edges = [(i, i + 1) for i in range(n - 1)] + [(i, i + 3) for i in range(0, n - 3, 5)]
    kinds = ['s' if i == n // 2 else 'c' for i in range(n)]
    half = n // 2
    orders = {
        'reversed': list(range(n - 1, -1, -1)),
        'forward': list(range(n)),
        'evens_then_odds_reversed': list(range(n - 2 + n % 2, -1, -2)) + list(range(n - 1 - n % 2, -1, -2)),
        'halves_swapped': list(range(half, n)) + list(range(half)),
        'stride7': sorted(range(n), key=lambda i: ((i * 7) % n, i)),
    }
    vecs = [tuple([0] * n), tuple([1] * n), tuple([1] + [0] * (n - 1)), tuple(i & 1 for i in range(n)), tuple([0] * (n - 1) + [1])]
    for oname, order in orders.items():
        for pl in (('flat',), ('split', int('01' * 40, 2) & ((1 << n) - 1))):
            res['programs'] += 1
            desc = {'family': 'long', 'n': n, 'order': oname, 'placement': list(pl)}
            try:
                with core.quiet():
                    c = build(n, edges, kinds, order, pl)
                    for j in c.order:
                        c.inst(j)
                    c.sim = c.sys.getSimulator()
            except Exception as e:
                core.reset_prepared()
                res['violations'].append({'sig': 'C04:acyclic_refused', 'shard': desc, 'trace': [], 'detail': {'exception': repr(e)[:200]}})
                continue
            c.regs = {half: (0, 0)}
            bad = structural_check(c) or fixpoint_check(c) or value_check(c, (0,) * n)
            tr = []
            for x in vecs:
                if bad:
                    break
                for w, v in zip(c.free, x):
                    w.put(v)
                c.sim.clk(0)
                vals = model_eval(n, edges, kinds, c.regs, x)
                c.sim.clk(1)
                c.regs = model_next(n, edges, kinds, vals, x)
                tr.append(list(x))
                res['evaluations'] += 1
                res['distinct_nontrivial'] += 1
                bad = structural_check(c) or fixpoint_check(c) or value_check(c, x)
                res['_outcomes'].add(tuple(a.value for a, b in c.o))
            if not bad:
                # a run of several cycles cancelled by stop() (from a listener) in its second cycle, then a run aborted by an exception
                # escaping from a listener; each time the inputs change afterwards and the next clock call settles the netlist
                for how in ('stop', 'raise'):
                    lst = _Interrupt(c.sim, how)
                    c.sim.addListener(lst)
                    x = vecs[3] if how == 'stop' else vecs[2]
                    for w, v in zip(c.free, x):
                        w.put(v)
                    try:
                        c.sim.clk(3)
                    except _Boom:
                        pass
                    c.sim.listeners.remove(lst)
                    x2 = vecs[1] if how == 'stop' else vecs[3]
                    for w, v in zip(c.free, x2):
                        w.put(v)
                    c.sim.clk(0)
                    tr.append(['%s in cycle 2 of clk(3) with' % how] + list(x))
                    tr.append(list(x2))
                    # register content after an unknown number of edges is not the point here: compare the combinational part only
                    c.regs = {half: (c.o[half][0].value, c.o[half][1].value)}
                    res['evaluations'] += 1
                    bad = structural_check(c) or fixpoint_check(c) or value_check(c, x2)
                    if bad:
                        bad = dict(bad, sigkey=bad['sigkey'] + '_after_' + ('stopped_run' if how == 'stop' else 'run_aborted_by_exception'))
                        break
            if bad:
                sig = 'C04:%s' % bad['sigkey']
                if not any(v['sig'] == sig for v in res['violations']):
                    res['violations'].append({'sig': sig, 'shard': desc, 'trace': tr, 'detail': bad})


class _Boom(Exception):
    pass


class _Interrupt:
    """listener: in the second cycle it sees it either asks the simulator to stop or raises"""
    def __init__(self, sim, how):
        self.sim, self.how, self.n = sim, how, 0

    def simulatorUpdated(self):
        self.n += 1
        if self.n == 2:
            if self.how == 'stop':
                self.sim.stop()
            else:
                raise _Boom()


class SrcG(Logic):
    """a combinational leaf WITHOUT input ports: its outputs decode an attribute the test bench changes between clock calls"""
    def __init__(self, parent, name, o0, o1):
        super().__init__(parent, name)
        self.o0 = self.addOut('o0', o0)
        self.o1 = self.addOut('o1', o1)
        self.v = 0

    def propagate(self):
        self.o0.put(self.v ^ 1)
        self.o1.put(self.v)


class PadIn(Logic):
    """a combinational leaf whose only source is an in/out port (the input half of a pad cell)"""
    def __init__(self, parent, name, pad, o):
        super().__init__(parent, name)
        self.pad = self.addInOut('pad', pad)
        self.o = self.addOut('o', o)

    def propagate(self):
        self.o.put(self.pad.get())


class DupPortG(Logic):
    """two input ports that carry the same name (ports named after equally named wires of different blocks, as Scope does)"""
    def __init__(self, parent, name, w1, w2, o):
        super().__init__(parent, name)
        self.p1 = self.addIn('y', w1)
        self.p2 = self.addIn('y', w2)
        self.o = self.addOut('o', o)

    def propagate(self):
        self.o.put(self.p1.get() ^ self.p2.get())


def run_dupport(res):
    for order in ('reader_first', 'reader_last'):
        for L in (1, 2, 3):
            for seq in itertools.product([(a, b, n) for a in (0, 1) for b in (0, 1) for n in (0, 1)], repeat=L):
                with core.quiet():
                    hw = py4hw.HWSystem()
                    a, b, y1, y2, o = hw.wire('a'), hw.wire('b'), hw.wire('y1'), hw.wire('y2'), hw.wire('o')
                    if order == 'reader_first':
                        DupPortG(hw, 'g', y1, y2, o)
                    py4hw.Not(hw, 'n1', a, y1)
                    py4hw.Not(hw, 'n2', b, y2)
                    if order == 'reader_last':
                        DupPortG(hw, 'g', y1, y2, o)
                    try:
                        sim = hw.getSimulator()
                    except Exception:
                        core.reset_prepared()
                        res['cyclic'] = res.get('cyclic', 0)
                        return          # the library does not accept two ports of one name: nothing to compare
                res['programs'] += 1
                tr = []
                for va, vb, n in seq:
                    a.put(va)
                    b.put(vb)
                    with core.quiet():
                        sim.clk(n)
                    tr.append([va, vb, n])
                    res['evaluations'] += 1
                    got, exp = o.get(), (va ^ 1) ^ (vb ^ 1)
                    res['_outcomes'].add(('dup', got))
                    if got != exp:
                        sig = 'C04:wrong_values_two_ports_of_one_name'
                        if not any(x['sig'] == sig for x in res['violations']):
                            res['violations'].append({'sig': sig, 'shard': {'family': 'srcless', 'n': 0, 'kind': 'dupport', 'order': order},
                                                      'trace': tr, 'detail': {'sigkey': 'wrong_values_two_ports_of_one_name', 'instantiation': order,
                                                                              'inputs(a,b,clk n)': [va, vb, n], 'expected': exp, 'got': got}})
                        break


def run_srcless(d, res):
    """combinational leaves without input ports at the head of a combinational chain: a library Constant whose value attribute
    is re-assigned (the repository's test-bench idiom), a user leaf decoding an attribute, a pad-input cell on a bidirectional
    wire.  Every sequence (length <= 3) of (new source value, clk(0) | clk(1)) - after each clock call the chain is settled."""
    run_dupport(res)
    kinds = ['constant', 'attr', 'pad']
    orders = ['src_first', 'src_last']
    for kind in kinds:
        for order in orders:
            for L in (1, 2, 3):
                for seq in itertools.product([(v, n) for v in (0, 1) for n in (0, 1)], repeat=L):
                    desc = {'family': 'srcless', 'n': 0, 'kind': kind, 'order': order}
                    with core.quiet():
                        hw = py4hw.HWSystem()
                        s0, a, b = hw.wire('s0'), hw.wire('a'), hw.wire('b')
                        pad = hw.bidir_wire('pad') if kind == 'pad' else None

                        def src():
                            if kind == 'constant':
                                return py4hw.Constant(hw, 'src', 0, s0)
                            if kind == 'attr':
                                return SrcG(hw, 'src', hw.wire('s0n'), s0)
                            return PadIn(hw, 'src', pad, s0)

                        def rest():
                            py4hw.Not(hw, 'inv', s0, a)
                            CombG(hw, 'g', [a, s0], hw.wire('bn'), b)
                        if order == 'src_first':
                            sc = src()
                            rest()
                        else:
                            rest()
                            sc = src()
                        sim = hw.getSimulator()
                    res['programs'] += 1
                    cur, tr, bad = 0, [], None
                    for v, n in seq:
                        if kind == 'constant':
                            sc.value = v
                        elif kind == 'attr':
                            sc.v = v
                        else:
                            pad.put(v)
                        with core.quiet():
                            sim.clk(n)
                        tr.append([v, n])
                        res['evaluations'] += 1
                        res['distinct_nontrivial'] += v
                        got = (s0.get(), a.get(), b.get())
                        exp = (v, v ^ 1, 1)          # b = XOR(a, s0) = 1
                        res['_outcomes'].add(got)
                        if got != exp:
                            bad = {'sigkey': 'wrong_values_inputless_source', 'source': kind, 'instantiation': order,
                                   'after': 'source value %d then clk(%d)' % (v, n), 'expected(s0,~s0,xor)': list(exp), 'got': list(got)}
                            break
                    if bad:
                        sig = 'C04:%s:%s' % (bad['sigkey'], kind)
                        if not any(x['sig'] == sig for x in res['violations']):
                            res['violations'].append({'sig': sig, 'shard': desc, 'trace': tr, 'detail': bad})


def shards(tier):
    out = []
    T = tier == 'thorough'
    for n in ((48, 64, 100, 200) if T else (48, 64, 100)):
        out.append({'n': n, 'space': 'long', 'lo': 0, 'hi': 1})
    out.append({'n': 0, 'space': 'srcless', 'lo': 0, 'hi': 1})
    for n in ((2, 3, 4, 5) if T else (2, 3, 4)):
        out.append({'n': n, 'space': 'iface', 'lo': 0, 'hi': 1})
    out.append({'n': 3, 'space': 'cross', 'lo': 0, 'hi': 1})
    # full digraph space for n <= 3
    for n in (1, 2, 3):
        total = 1 << (n * n)
        chunk = 8
        for lo in range(0, total, chunk):
            if T and n == 3:
                # thorough: every placement for the comb/register assignments, the usual subset for the Mealy-leaf assignments
                out.append({'n': n, 'space': 'digraph', 'lo': lo, 'hi': min(total, lo + chunk), 'kinds': 'cs', 'place': 'full'})
                out.append({'n': n, 'space': 'digraph', 'lo': lo, 'hi': min(total, lo + chunk), 'kinds': 'm', 'place': 'some'})
            else:
                out.append({'n': n, 'space': 'digraph', 'lo': lo, 'hi': min(total, lo + chunk), 'kinds': 'all',
                            'place': 'full' if n < 3 else 'some'})
    # n = 4: DAG + one extra back edge / self-loop
    n = 4
    for code in range(64):
        out.append({'n': 4, 'space': 'dag+1', 'lo': code, 'hi': code + 1,
                    'kinds': 'mixed6' if T else 'comb', 'place': 'few' if T else 'flat'})
    if T:
        for lo in range(0, 1024, 16):
            out.append({'n': 5, 'space': 'dag', 'lo': lo, 'hi': lo + 16, 'kinds': 'comb', 'place': 'flat'})
        for lo in range(0, 128, 4):
            out.append({'n': 5, 'space': 'dag+1', 'lo': lo, 'hi': lo + 4, 'kinds': 'comb', 'place': 'flat'})
    return out


def cost(d):
    return d['n'] ** 3 * (d['hi'] - d['lo'])


def edge_sets(d):
    n = d['n']
    if d['space'] == 'digraph':
        pairs = all_pairs(n)
        for code in range(d['lo'], d['hi']):
            yield edges_of(n, code, pairs)
    else:
        fp = fwd_pairs(n)
        back = [(i, j) for i in range(n) for j in range(n) if i >= j] if d['space'] == 'dag+1' else []
        for code in range(d['lo'], d['hi']):
            base = edges_of(n, code, fp)
            yield base
            for b in back:
                yield base + [b]


def run_shard(d):
    n = d['n']
    res = {'programs': 0, 'cyclic': 0, 'states': 0, 'transitions': 0, 'traces_validated_against_impl': 0,
           'evaluations': 0, 'distinct_nontrivial': 0, 'violations': [], 'samples': [], '_outcomes': set(),
           '_validate_every': 1 if n <= 2 else (3 if n == 3 else 8)}
    if d['space'] in ('iface', 'cross', 'long', 'srcless'):
        {'iface': run_iface, 'cross': run_cross, 'long': run_long, 'srcless': run_srcless}[d['space']](d, res)
        res['distinct_outcomes'] = len(res.pop('_outcomes'))
        res.pop('_validate_every')
        res['refused'] = res.pop('cyclic')
        res['states'] = res['transitions'] = 1
        res['samples'] = [{'family': d['space'], 'n': n}]
        res['vacuous_ok'] = True
        return res
    for edges in edge_sets(d):
        for kinds in kind_sets(n, d['kinds']):
            cyc = has_comb_cycle(n, edges, kinds)
            for pl in placements(n, d['place']):
                orders = itertools.permutations(range(n))
                for order in orders:
                    run_design(n, edges, list(kinds), order, pl, res)
    res['distinct_outcomes'] = len(res.pop('_outcomes'))
    res.pop('_validate_every')
    res['refused'] = res.pop('cyclic')
    res['vacuous_ok'] = True
    return res


def finish(cov, results, tier):
    cov['cyclic_netlists_checked_for_refusal'] = cov.get('refused', 0)


def replay(v):
    d = v['shard']
    if d.get('family') in ('iface_chain', 'cross', 'long', 'srcless'):
        res = {'programs': 0, 'evaluations': 0, 'distinct_nontrivial': 0, 'violations': [], '_outcomes': set()}
        {'iface_chain': run_iface, 'cross': run_cross, 'long': run_long, 'srcless': run_srcless}[d['family']]({'n': d.get('n', 3)}, res)
        hit = [x for x in res['violations'] if x['sig'] == v['sig']]
        return {'violates': bool(hit), 'detail': hit[:1]}
    n, edges, kinds = d['n'], [tuple(e) for e in d['edges']], list(d['kinds'])
    expect_refuse = has_comb_cycle(n, edges, kinds)
    c = build(n, edges, kinds, d['order'], tuple(d['placement']))
    pl = tuple(d['placement'])
    out = {'design': d, 'expect_refuse': expect_refuse}
    try:
        if pl[0] in ('late', 'latesplit'):
            for j in c.order[:pl[-1]]:
                c.inst(j)
            try:
                c.sys.getSimulator()
            except Exception:
                pass
            for j in c.order[pl[-1]:]:
                c.inst(j)
        else:
            for j in c.order:
                c.inst(j)
        if c.after:
            c.after()
        c.sim = c.sys.getSimulator()
        if pl[0] == 'direct':
            from py4hw.simulation import Simulator
            c.sim = Simulator(c.sys)
        out['raised'] = None
    except Exception as e:
        out['raised'] = repr(e)[:200]
        out['violates'] = not expect_refuse
        if expect_refuse:
            # the refusal must be repeatable
            try:
                c.sys.getSimulator()
                out['second_getSimulator_raised'] = None
                out['violates'] = True
            except Exception as e2:
                out['second_getSimulator_raised'] = repr(e2)[:200]
        core.reset_prepared()
        return out
    if expect_refuse:
        out['violates'] = True
        return out
    c.regs = {j: ((0, 0) if kinds[j] == 's' else 0) for j in range(n) if kinds[j] in 'sm'}
    bad = structural_check(c) if pl[0] in ('late', 'latesplit') else (structural_check(c) or fixpoint_check(c) or value_check(c, (0,) * n))
    steps = []
    for x in v.get('trace', []):
        for w, val in zip(c.free, x):
            w.put(val)
        c.sim.clk(0)
        vals = model_eval(n, edges, kinds, c.regs, x)
        b0 = None
        if [(a.value, b2.value) for a, b2 in c.o] != vals:
            b0 = {'sigkey': 'wrong_values_after_clk0', 'expected': vals, 'got': [(a.value, b2.value) for a, b2 in c.o]}
        c.sim.propagateAll()
        c.sim.clk(1)
        c.regs = model_next(n, edges, kinds, vals, x)
        b = b0 or structural_check(c) or fixpoint_check(c) or value_check(c, x)
        steps.append({'inputs': list(x), 'got': [(a.value, b2.value) for a, b2 in c.o], 'problem': b})
        bad = bad or b
    out['steps'] = steps
    out['violates'] = bad is not None
    out['problem'] = bad
    return out
