"""C01 — generated Verilog behaves exactly like the simulated structural design.

For every catalogue design x placement: generate Verilog with py4hw, elaborate it with the
/verif Verilog engine, and explore the PRODUCT machine (py4hw simulator state, Verilog
simulator state) breadth-first from power-up with every input vector on every step,
comparing all top-level outputs at power-up and after every clock cycle."""
import itertools
import types

import py4hw
from mc import core, catalog
from mc.vlog import sim as V
from mc.vlog.lexer import VlogError, ParseError

LEVEL = 'model_checking'
RULE = ('catalogue design (every library block over its parameter grid, twins sharing a module name, two different configurations of one class side by side in both orders, chains, fan-out) x '
        'placement (top / inside 1 / inside 2 structural wrappers); product BFS (py4hw state, Verilog-interpreter state) '
        'from power-up with all input vectors per step when the design has <= MAXBITS input bits, else the per-port corner '
        'alphabet {0,1,2^(w-1)-1,2^(w-1),2^w-1}; outputs compared at power-up and after every cycle; transitions on which a '
        'division/modulo by zero is evaluated on either side are pruned')
ASSUMPTIONS = [
    'IEEE 1364 semantics as implemented by mc/vlog (two-state; reg/integer without initialiser power up at 0; expression sizing/signedness per LRM 5.4/5.5)',
    'one py4hw clk(1) = inputs applied, falling edge, rising edge of the single top-level clock (clock idles high)',
    'BidirBuf/inout designs and designs with more than one clock wire are outside the engine subset and not compared',
    'text that does not parse/elaborate is reported under C03, not here',
]
BOUNDS = {'quick': 'catalogue at the quick grids of C07/C08/C09/C14 (widths <= 2-3), wrapped placements for one representative per block/option, state cap 3000 per design (300 for the class pairs)',
          'thorough': 'catalogue at the thorough grids (widths up to 6-8 with the corner alphabet above 8 input bits), all placements for the quick grid, state cap 20000'}
MAXBITS = 8
CHUNK = 40


def design_list(tier):
    out = [(s, c, 'top') for s, c in catalog.configs(tier)]
    # pairs of catalogue blocks that are emitted under the same module name, side by side in one design
    for nm, a, b in catalog.twin_pairs(tier):
        out.append(('twin', {'block': 'TwinByName', 'module': nm, 'a': [a[0], a[1]], 'b': [b[0], b[1]]}, 'top'))
    # two different configurations of the same library class side by side, in both orders
    for nm, a, b in catalog.class_pairs(tier):
        out.append(('twin', {'block': 'TwinByClass', 'module': nm, 'a': [a[0], a[1]], 'b': [b[0], b[1]]}, 'top'))
    if tier == 'quick':
        for s, c in catalog.configs('quick', small=True):
            out.append((s, c, 'wrap1'))
            out.append((s, c, 'wrap2'))
    else:
        for s, c in catalog.configs('quick'):
            out.append((s, c, 'wrap1'))
        for s, c in catalog.configs('quick', small=True):
            out.append((s, c, 'wrap2'))
    return out


_CACHE = {}


def _designs(tier):
    if tier not in _CACHE:
        _CACHE[tier] = design_list(tier)
    return _CACHE[tier]


def shards(tier):
    n = len(_designs(tier))
    return [{'tier': tier, 'lo': i, 'hi': min(n, i + CHUNK)} for i in range(0, n, CHUNK)]


def corner(w):
    return sorted(v for v in {0, 1, (1 << (w - 1)) - 1, 1 << (w - 1), (1 << w) - 1, (1 << w) // 3} if 0 <= v < (1 << w))


def alphabet(ins, limit=4096):
    bits = sum(w.getWidth() for _, w in ins)
    if bits <= MAXBITS and (1 << bits) <= limit:
        return list(core.vectors([w.getWidth() for _, w in ins])), True
    doms = [corner(w.getWidth()) for _, w in ins]
    tot = 1
    for dmn in doms:
        tot *= len(dmn)
    if tot > limit:
        # too many ports: all-equal corners plus one-hot deviations
        base = [dmn for dmn in doms]
        vecs = set()
        for k in range(5):
            vecs.add(tuple(dmn[min(k, len(dmn) - 1)] for dmn in base))
        z = tuple(dmn[0] for dmn in base)
        for i, dmn in enumerate(base):
            for v in dmn:
                vecs.add(z[:i] + (v,) + z[i + 1:])
        return sorted(vecs), False
    return list(itertools.product(*doms)), False


DIV_CLASSES = None


def div_by_zero(sys_):
    """py4hw's Div/Mod pick random results for a zero divisor (documented nondeterminism)."""
    global DIV_CLASSES
    if DIV_CLASSES is None:
        DIV_CLASSES = (py4hw.Div, py4hw.Mod)
    for leaf in sys_._c01_divs:
        if leaf.b.get() == 0:
            return True
    return False


def generate(sys_):
    with core.quiet():
        return py4hw.VerilogGenerator(sys_).getVerilogForHierarchy()


def vname(w):
    return 'w_' + w.name


class Pair:
    """py4hw system + Verilog simulator for the same design."""

    def __init__(self, source, cfg, place):
        self.dd = catalog.build(source, cfg, place)
        self.sys = self.dd.sys
        self.sim = self.sys.getSimulator()
        self.sys._c01_divs = [l for l in self.sys.allLeaves() if isinstance(l, (py4hw.Div, py4hw.Mod))]
        self.text = generate(self.sys)
        self.free = [w for _, w in self.dd.ins]
        self.in_names = [vname(w) for w in self.free]
        self.out_wires = [w for _, w in self.dd.outs]
        self.out_names = [vname(w) for w in self.out_wires]
        self.design = V.elaborate(self.text, external=self.in_names)
        self.v = V.Sim(self.design)


def state_wire_filter(sys_, wires):
    """indices of wires that carry state between cycles: driven by a clockable leaf or by a
    propagatable leaf that is not a stateless library primitive"""
    stateful_comb = (py4hw.Latch, py4hw.AsynchronousMemory, py4hw.BidirBuf)
    idx = []
    for i, w in enumerate(wires):
        src = getattr(w, 'source', None)
        if src is None:
            continue
        p = src.parent
        if p.isClockable() or isinstance(p, stateful_comb) or not type(p).__module__.startswith('py4hw.'):
            idx.append(i)
    return idx


def explore(source, cfg, place, res, max_states):
    nm = catalog.name(source, cfg, place)
    try:
        with core.quiet():
            p0 = catalog.build(source, cfg, place)
            p0.sys.getSimulator()
    except Exception as e:
        core.reset_prepared()
        res['constructor_rejected'] += 1
        return
    try:
        text = generate(p0.sys)
    except Exception as e:
        res['refused'] += 1
        res['refused_names'].append(nm)
        return
    try:
        with core.quiet():
            pr = Pair(source, cfg, place)
    except (VlogError, RecursionError) as e:
        res['c03_skipped'] += 1
        res['c03_examples'].append({'design': nm, 'error': '%s: %s' % (type(e).__name__, str(e)[:200])})
        return
    if pr.design.issues:
        res['c03_lint'] += 1
    if any(isinstance(l, py4hw.BidirBuf) for l in pr.sys.allLeaves()):
        res['outside_subset'] += 1
        return
    for n in pr.in_names + pr.out_names:
        if not pr.v.has(n):
            res['violations'].append({'sig': 'C01:%s:%s:missing_signal' % (source, cfg.get('block')),
                                      'shard': {'source': source, 'cfg': cfg, 'place': place}, 'trace': [],
                                      'detail': {'missing top-level signal': n}})
            return
    res['programs'] += 1
    alpha, full = alphabet(pr.dd.ins, 64 if cfg.get('block') == 'TwinByClass' else 4096)
    if not full:
        res['corner_alphabet_designs'] += 1

    def mk():
        q = Pair(source, cfg, place)
        q.kidx = None
        return q

    def step(c, x):
        for w, n, v in zip(c.free, c.in_names, x):
            w.put(v)
            c.v.poke(n, v)
        c.sim.clk(1)
        try:
            c.v.cycle()
            c.verr = None
        except VlogError as e:
            c.verr = '%s: %s' % (type(e).__name__, e)

    def outs(c):
        return [w.get() for w in c.out_wires], [c.v.peek(n) for n in c.out_names]

    def pruned(c):
        return div_by_zero(c.sys) or c.v.d.divzero

    def pre_check(c):
        if pruned(c):
            return None
        a, b = outs(c)
        if a != b:
            return {'sigkey': 'powerup', 'when': 'power-up (before any clock)', 'outputs': c.out_names, 'py4hw': a, 'verilog': b}
        return None

    def check(c, x):
        if c.verr:
            return {'sigkey': 'verilog_sim_error', 'error': c.verr, 'inputs': dict(zip(c.in_names, x))}
        if pruned(c):
            res['pruned'] += 1
            c.skip = True
            return None
        c.skip = False
        a, b = outs(c)
        res['_outcomes'].add(tuple(a))
        if a != b:
            return {'sigkey': 'mismatch', 'when': 'after clock', 'inputs': dict(zip(c.in_names, x)), 'outputs': c.out_names,
                    'py4hw': a, 'verilog': b}
        return None

    def key_fn(c, st, snap, ex):
        if getattr(c, 'kidx', None) is None:
            c.kidx = state_wire_filter(c.sys, st.wires)
        wv, av = snap
        return (tuple(wv[i] for i in c.kidx), av, ex[0])

    ex = core.Explorer(mk, lambda c: alpha, check, step=step, pre_check=pre_check,
                       extra_state=lambda c: (c.v.state_key(), c.v.snapshot()),
                       set_extra=lambda c, e: c.v.restore(e[1]),
                       key_fn=key_fn, max_states=max_states, validate_every=7)
    # transitions pruned for division by zero must not be expanded: wrap check to signal the explorer
    ex.run()
    res['states'] += ex.states
    res['transitions'] += ex.transitions
    res['traces_validated_against_impl'] += ex.validated
    if ex.capped:
        res['capped_graphs'] += 1
    else:
        res['closed_graphs'] += 1
    for kind, trace, detail in ex.violations:
        res['violations'].append({'sig': 'C01:%s:%s:%s' % (source, cfg.get('block'), detail.get('sigkey', 'mismatch')),
                                  'shard': {'source': source, 'cfg': cfg, 'place': place},
                                  'trace': [list(t) for t in trace], 'detail': detail})
    if ex.width_violations and len(res['width_violations']) < 3:
        res['width_violations'].append({'design': nm, 'bad': ex.width_violations[0][1][:3]})
    if len(res['samples']) < 2 and ex.sample_traces:
        res['samples'].append({'design': nm, 'inputs': pr.in_names, 'input_sequence': ex.sample_traces[-1][:6]})


def run_shard(d):
    res = {'programs': 0, 'states': 0, 'transitions': 0, 'traces_validated_against_impl': 0, 'constructor_rejected': 0,
           'refused': 0, 'pruned': 0, 'closed_graphs': 0, 'capped_graphs': 0, 'violations': [], 'samples': [],
           'c03_skipped': 0, 'c03_lint': 0, 'c03_examples': [], 'outside_subset': 0, 'corner_alphabet_designs': 0,
           'refused_names': [], 'width_violations': [], '_outcomes': set()}
    cap = 20000 if d['tier'] == 'thorough' else 3000
    for source, cfg, place in _designs(d['tier'])[d['lo']:d['hi']]:
        explore(source, cfg, place, res, 300 if cfg.get('block') == 'TwinByClass' else cap)
    res['distinct_outcomes'] = len(res.pop('_outcomes'))
    res['vacuous_ok'] = True
    res['configs'] = d['hi'] - d['lo']
    return res


def finish(cov, results, tier):
    for k in ('c03_skipped', 'c03_lint', 'outside_subset', 'corner_alphabet_designs'):
        cov[k] = sum(r.get(k, 0) for r in results)
    ex = []
    for r in results:
        ex.extend(r.get('c03_examples', []))
    cov['not_compared_because_text_did_not_elaborate'] = ex[:8]
    rn = []
    for r in results:
        rn.extend(r.get('refused_names', []))
    cov['generation_refused_examples'] = rn[:8]
    cov['exhaustive'] = cov.get('capped_graphs', 0) == 0


def replay(v):
    sh = v['shard']
    if (v.get('detail') or {}).get('sigkey') == 'history_dependent':
        def stp(pr, x):
            for w, val in zip(pr.free, x):
                w.put(val)
            pr.sim.clk(1)
        return core.replay_history_dependence(lambda: Pair(sh['source'], sh['cfg'], sh['place']), lambda pr: (pr.sys, pr.free), stp, v['trace'])
    pr = Pair(sh['source'], sh['cfg'], sh['place'])
    steps = []
    a, b = [w.get() for w in pr.out_wires], [pr.v.peek(n) for n in pr.out_names]
    bad = (a != b) and not (div_by_zero(pr.sys) or pr.v.d.divzero)
    steps.append({'when': 'power-up', 'py4hw': a, 'verilog': b})
    for x in v['trace']:
        for w, n, val in zip(pr.free, pr.in_names, x):
            w.put(val)
            pr.v.poke(n, val)
        pr.sim.clk(1)
        pr.v.cycle()
        a, b = [w.get() for w in pr.out_wires], [pr.v.peek(n) for n in pr.out_names]
        steps.append({'inputs': list(x), 'py4hw': a, 'verilog': b})
        if a != b and not (div_by_zero(pr.sys) or pr.v.d.divzero):
            bad = True
    return {'design': catalog.name(sh['source'], sh['cfg'], sh['place']), 'outputs': pr.out_names, 'steps': steps,
            'violates': bad, 'verilog': pr.text if bad else None}
