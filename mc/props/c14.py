"""C14 — fixed-point blocks agree with exact scaled-integer arithmetic.

Truth-table enumeration (mc.comb.run_comb) of FixedPointAdd / FixedPointSub / FixedPointMult / FixedPointSign /
FixedPointComparator for every signed format up to a width bound and every pair of operand encodings, against
fractions.Fraction arithmetic on the decoded operands (mc/refmodels/fxp.py).  On the same-format configurations the
FixedPoint helper class is cross-checked against the same oracle on the same pairs.
"""
import itertools

import py4hw
from mc import core
from py4hw.helper import FixedPoint

from mc import comb
from mc.refmodels import fxp

LEVEL = 'exploration'
EXHAUSTIVE = True       # every configuration in the stated grid, every operand encoding pair
RULE = ('one configuration per (block, af, bf, rf) in the grid of signed formats (1,i,f) up to the width bound: '
        'Add/Sub: every same-format triple, every equal-width triple and every triple of widths <= 3 (mismatches must be '
        'rejected by the constructor); Mult: EVERY (af, bf, rf) triple; Sign: every format (and unsigned formats of '
        'width <= 3, rejected); Comparator: every (af, bf) of equal width and every pair of widths <= 3. For every '
        'accepted configuration ALL 2^wa x 2^wb operand encoding pairs are applied and settled with propagateAll(). '
        'A vector is non-trivial when some expected output is non-zero. Comparator vectors whose exact difference is '
        'not representable in the format are skipped and counted (statement: "whenever their difference is representable").')
ASSUMPTIONS = [
    'an encoding u of format (1,i,f) denotes twos_complement(u, w) / 2^f with w = 1+i+f',
    'add/sub: expected = encoding of the exact result reduced modulo 2^w of the result format',
    'mult: "rescaled by truncation to the result format" is read as dropping the low-order bits of the exact '
    'two\'s-complement product (floor at the result scale) and wrapping modulo 2^w above; truncation toward zero is '
    'accepted as an alternative reading, but one reading has to explain every operand pair of a configuration '
    '(the implementation follows floor: Range extracts a bit window)',
    'a configuration the constructor accepts but whose simulation raises is reported as a violation (no value returned)',
    'constructor rejections (assert / exception) are counted as constructor_rejected, never as violations',
    'the FixedPoint helper refuses formats with int_bits == 0 (its constructor raises); those cross-checks are counted '
    'as helper_rejected',
    'reference code in mc/refmodels/fxp.py is trusted',
]
BOUNDS = {
    'quick': 'signed formats with 1+i+f <= 5 (15 formats); all operand pairs; Mult 15^3 format triples',
    'thorough': 'signed formats with 1+i+f <= 6 (21 formats) plus the 8-bit format (1,3,4) in every same-format '
                'configuration (65536 pairs each); all operand pairs; Mult 21^3 format triples',
}
for k in ('quick', 'thorough'):
    BOUNDS[k] += '; also the comparator with a subset of its outputs connected and formats of 65 and 128 bits (boundary values)'
OPS = {'FixedPointAdd': 'add', 'FixedPointSub': 'sub', 'FixedPointMult': 'mult'}


# ---------------------------------------------------------------- configurations
def _fmts(tier):
    return fxp.formats(6 if tier == 'thorough' else 5, signs=(1,))


def shards(tier):
    T = tier == 'thorough'
    F = _fmts(tier)
    small = [f for f in F if fxp.width(f) <= 3]
    extra = [(1, 3, 4)] if T else []
    out = []
    for blk in ('FixedPointAdd', 'FixedPointSub'):
        trip = set()
        for a, b, r in itertools.product(F, F, F):
            if a == b == r or fxp.width(a) == fxp.width(b) == fxp.width(r) or (a in small and b in small and r in small):
                trip.add((a, b, r))
        for a, b, r in sorted(trip):
            out.append({'block': blk, 'af': list(a), 'bf': list(b), 'rf': list(r)})
        for f in extra:
            out.append({'block': blk, 'af': list(f), 'bf': list(f), 'rf': list(f)})
    for a, b in itertools.product(F, F):
        out.append({'block': 'FixedPointMult', 'af': list(a), 'bf': list(b), 'rf': 'all', 'maxw': 6 if T else 5})
    for f in extra:
        out.append({'block': 'FixedPointMult', 'af': list(f), 'bf': list(f), 'rf': list(f)})
    for f in F + extra:
        out.append({'block': 'FixedPointSign', 'af': list(f)})
    for f in fxp.formats(3, signs=(0,)):
        out.append({'block': 'FixedPointSign', 'af': list(f)})
    for a, b in itertools.product(F, F):
        if fxp.width(a) == fxp.width(b) or (a in small and b in small):
            out.append({'block': 'FixedPointComparator', 'af': list(a), 'bf': list(b)})
    for f in extra:
        out.append({'block': 'FixedPointComparator', 'af': list(f), 'bf': list(f)})
    # wide formats (sizes that invite special-casing): boundary-value operand alphabet
    wide = [(1, 3, 4), (1, 7, 8), (1, 15, 16), (1, 16, 15), (1, 31, 32), (1, 32, 32), (1, 63, 64)] + ([(1, 8, 7), (1, 0, 31), (1, 30, 1), (1, 32, 31)] if T else [])
    # the comparator with only some of its outputs connected (the others None)
    for f in ((1, 1, 1), (1, 0, 2)):
        for keep in ('g', 'e', 'l', 'ge', 'gl', 'el'):
            out.append({'block': 'FixedPointComparator', 'af': list(f), 'bf': list(f), 'outs': keep})
    for f in wide:
        for blk in ('FixedPointAdd', 'FixedPointSub', 'FixedPointMult'):
            out.append({'block': blk, 'af': list(f), 'bf': list(f), 'rf': list(f), 'corner': 1})
        out.append({'block': 'FixedPointSign', 'af': list(f), 'corner': 1})
        out.append({'block': 'FixedPointComparator', 'af': list(f), 'bf': list(f), 'corner': 1})
    for af, bf, rf in [((1, 7, 8), (1, 3, 12), (1, 15, 16)), ((1, 15, 16), (1, 15, 16), (1, 31, 32)), ((1, 15, 16), (1, 7, 8), (1, 7, 8))]:
        out.append({'block': 'FixedPointMult', 'af': list(af), 'bf': list(bf), 'rf': list(rf), 'corner': 1})
    return out


def cost(d):
    wa = sum(d['af'])
    wb = sum(d.get('bf', [0]))
    c = 1 << (wa + wb)
    if d.get('rf') == 'all':
        c *= 21
    return c


# ---------------------------------------------------------------- design under test
def build(d):
    hw = py4hw.HWSystem()
    blk = d['block']
    af = tuple(d['af'])
    a = hw.wire('a', fxp.width(af))
    if blk == 'FixedPointSign':
        s = hw.wire('s', 1)
        py4hw.FixedPointSign(hw, 'dut', a, af, s)
        return hw, [('a', a)], [('s', s)]
    bf = tuple(d['bf'])
    b = hw.wire('b', fxp.width(bf))
    if blk == 'FixedPointComparator':
        keep = d.get('outs', 'gel')
        gt, eq, lt = [hw.wire(n, 1) if n[0] in keep else None for n in ('gt', 'eq', 'lt')]
        py4hw.FixedPointComparator(hw, 'dut', a, af, b, bf, gt, eq, lt)
        return hw, [('a', a), ('b', b)], [(n, w) for n, w in (('gt', gt), ('eq', eq), ('lt', lt)) if w is not None]
    rf = tuple(d['rf'])
    r = hw.wire('r', fxp.width(rf))
    getattr(py4hw, blk)(hw, 'dut', a, af, b, bf, r, rf)
    return hw, [('a', a), ('b', b)], [('r', r)]


def ref(d, x):
    """Expected outputs from exact rational arithmetic on the decoded operands."""
    blk = d['block']
    af = tuple(d['af'])
    A = fxp.decode(x['a'], af)
    if blk == 'FixedPointSign':
        return {'s': 1 if A < 0 else 0}
    bf = tuple(d['bf'])
    B = fxp.decode(x['b'], bf)
    if blk == 'FixedPointComparator':
        if not fxp.representable(A - B, af):
            return None
        keep = d.get('outs', 'gel')
        return {n: v for n, v in (('gt', int(A > B)), ('eq', int(A == B)), ('lt', int(A < B))) if n[0] in keep}
    rf = tuple(d['rf'])
    if blk == 'FixedPointAdd':
        return {'r': fxp.encode(A + B, rf)}
    if blk == 'FixedPointSub':
        return {'r': fxp.encode(A - B, rf)}
    if blk == 'FixedPointMult':
        return {'r': fxp.encode(A * B, rf, d.get('reading', 'floor'))}
    raise ValueError(blk)


def _klass(d):
    """Input/config class used in violation signatures (stable, coarse)."""
    blk = d['block']
    if blk == 'FixedPointSign':
        return 'fmt'
    af, bf = tuple(d['af']), tuple(d['bf'])
    if blk == 'FixedPointComparator':
        return 'same_format' if af == bf else 'mixed_format'
    rf = tuple(d['rf'])
    if blk != 'FixedPointMult':
        return 'same_format' if af == bf == rf else 'mixed_format'
    low = af[2] + bf[2] - rf[2]
    if low < 0:
        return 'result_fraction_wider_than_product_fraction'
    if low + fxp.width(rf) > fxp.width(af) + fxp.width(bf):
        return 'result_window_beyond_product_width'
    return 'same_format' if af == bf == rf else 'window_inside_product'


def _resig(res, d):
    for v in res.get('violations', []):
        v['detail']['config'] = comb.cfgname(d)
        v['sig'] = 'C14:%s:%s:%s' % (d['block'], _klass(d), v['sig'].rsplit(':', 1)[-1])
    return res


def _run_config(d):
    """One (block, formats) configuration, all operand pairs."""
    def go(dd):
        try:
            return _resig(comb.run_comb(dd, build, ref, 'C14', alphabets='corner' if dd.get('corner') else None), dd)
        except Exception as e:      # accepted by the constructor, raises while being simulated
            core.reset_prepared()
            return {'configs': 1, 'evaluations': 1, 'distinct_nontrivial': 0, 'vacuous_ok': True, 'distinct_outcomes': 0,
                    'samples': [], 'raised': 1,
                    'violations': [{'sig': 'C14:%s:%s:raises:%s' % (dd['block'], _klass(dd), type(e).__name__),
                                    'shard': dd, 'trace': [[0] * (1 if dd['block'] == 'FixedPointSign' else 2)],
                                    'detail': {'config': comb.cfgname(dd), 'exception': repr(e)[:200]}}]}
    if d['block'] != 'FixedPointMult':
        res = go(d)
    else:
        res = go(dict(d, reading='floor'))
        res['mult_reading'] = 'floor'
        if res['violations'] and not res.get('raised'):
            alt = go(dict(d, reading='toward_zero'))
            if not alt['violations']:
                res = alt
                res['mult_reading'] = 'toward_zero'
    if not res.get('constructor_rejected') and not res.get('raised') and d['block'] in OPS \
            and tuple(d['af']) == tuple(d['bf']) == tuple(d['rf']):
        _helper_cross_check(d, res)
    return res


def helper_case(d, ua, ub, reading):
    """FixedPoint helper on one raw pair -> (got, expected) ; raises if the helper refuses the format."""
    f = tuple(d['af'])
    op = OPS[d['block']]
    a = FixedPoint.fromRawValue(f[0], f[1], f[2], ua)
    b = FixedPoint.fromRawValue(f[0], f[1], f[2], ub)
    got = getattr(a, op)(b).v
    exp = ref(dict(d, reading=reading), {'a': ua, 'b': ub})['r']
    return got, exp


def _helper_cross_check(d, res):
    f = tuple(d['af'])
    w = fxp.width(f)
    try:
        FixedPoint.fromRawValue(f[0], f[1], f[2], 0)
    except Exception:
        res['helper_rejected'] = 1
        return
    n = 0
    reading = res.get('mult_reading', 'floor')
    dom = comb.corner_values(w) if d.get('corner') and w > 6 else range(1 << w)
    for ua in dom:
        for ub in dom:
            got, exp = helper_case(d, ua, ub, reading)
            n += 1
            if got != exp:
                res['violations'].append({'sig': 'C14:FixedPoint_helper:%s' % OPS[d['block']], 'shard': dict(d, reading=reading),
                                          'trace': [[ua, ub]], 'detail': {'helper': True, 'config': comb.cfgname(d),
                                                                         'inputs': {'a': ua, 'b': ub}, 'got': got, 'expected': exp}})
                res['helper_pairs'] = n
                return
    res['helper_pairs'] = n


_SUM = ('configs', 'evaluations', 'distinct_nontrivial', 'skipped_precondition', 'constructor_rejected')


def run_shard(d):
    if d.get('rf') != 'all':
        return _run_config(d)
    # group: one (af, bf) of the multiplier with every result format in the grid
    tot = {k: 0 for k in _SUM}
    tot.update({'violations': [], 'samples': [], 'distinct_outcomes': None, 'vacuous_ok': True, 'readings': {},
                'helper_pairs': 0, 'helper_rejected': 0, 'raised': 0})
    seen = set()
    for rf in fxp.formats(d['maxw'], signs=(1,)):
        dd = {'block': d['block'], 'af': d['af'], 'bf': d['bf'], 'rf': list(rf)}
        r = _run_config(dd)
        for k in _SUM:
            tot[k] += r.get(k, 0)
        for v in r['violations']:
            if v['sig'] not in seen:
                seen.add(v['sig'])
                tot['violations'].append(v)
        if r.get('mult_reading') and not r.get('constructor_rejected'):
            tot['readings'][r['mult_reading']] = tot['readings'].get(r['mult_reading'], 0) + 1
        tot['helper_pairs'] += r.get('helper_pairs', 0)
        tot['helper_rejected'] += r.get('helper_rejected', 0)
        tot['raised'] += r.get('raised', 0)
        if not r.get('vacuous_ok'):
            tot['vacuous_ok'] = False
            do = r.get('distinct_outcomes', 0)
            tot['distinct_outcomes'] = do if tot['distinct_outcomes'] is None else min(tot['distinct_outcomes'], do)
        if r.get('samples') and len(tot['samples']) < 2:
            tot['samples'] += r['samples'][:1]
    if tot['distinct_outcomes'] is None:
        tot['distinct_outcomes'] = 0
    return tot


def replay(v):
    d = v['shard']
    if v.get('detail', {}).get('helper'):
        ua, ub = v['trace'][0]
        got, exp = helper_case(d, ua, ub, d.get('reading', 'floor'))
        return {'config': d, 'inputs': {'a': ua, 'b': ub}, 'got': got, 'expected': exp, 'violates': got != exp}
    try:
        out = comb.replay_comb(v, build, ref)
    except Exception as e:
        core.reset_prepared()
        return {'config': d, 'raises': repr(e)[:200], 'violates': True}
    if out['violates'] and d['block'] == 'FixedPointMult':
        alt = comb.replay_comb(dict(v, shard=dict(d, reading='toward_zero')), build, ref)
        out['toward_zero_reading_also_violated'] = alt['violates']
    return out


def finish(cov, results, tier):
    """Evidence samples: one real evaluated vector per block first, then a couple of constructor rejections."""
    real, rej = {}, []
    for r in results:
        for s in r.get('samples', []):
            if 'rejected' in s:
                if len(rej) < 2:
                    rej.append(s)
            elif s.get('config', {}).get('block') not in real or \
                    (sum(s['config']['af']) == 4 and sum(real[s['config']['block']]['config']['af']) != 4):
                real[s['config']['block']] = s
    cov['samples'] = [real[k] for k in sorted(real)] + rej
    cov['mult_readings'] = {}
    for r in results:
        for k, n in r.get('readings', {}).items():
            cov['mult_readings'][k] = cov['mult_readings'].get(k, 0) + n
        if r.get('mult_reading') and not r.get('constructor_rejected') and 'readings' not in r:
            cov['mult_readings'][r['mult_reading']] = cov['mult_readings'].get(r['mult_reading'], 0) + 1
    cov['helper_cross_checked_pairs'] = sum(r.get('helper_pairs', 0) for r in results)
    cov['helper_rejected_formats'] = sum(r.get('helper_rejected', 0) for r in results)
    cov['configs_raising_in_simulation'] = sum(r.get('raised', 0) for r in results)
