"""C10 — a clock domain advances exactly when its enable is active.

Each design is built twice with identical structure: G with gated ClockDrivers placed in
the hierarchy, T (twin) without any gating.  BFS over G with all (enable, data) vectors.
Per transition from pre-state s with input x the expected post-state is assembled from the
statement: T is put into state s, x applied, settled -> the pre-edge value of every
domain's enable is read; T is clocked once -> what an ungated block computes.  A
sequential leaf of a domain whose enable was 0 must keep its attributes and output wires;
every other sequential leaf must equal T's.  Combinational wires must equal the settled
netlist for that composite state.  The visit order of the drivers is permuted on every
transition.  getObjectClockDriver is checked against 'nearest ancestor with a driver'."""
import itertools
import types

import py4hw
from py4hw.base import Logic, Wire
from mc import core

LEVEL = 'model_checking'
RULE = ('one shard per (block, driver placement, enable source, #domains) design; BFS over reachable states with all input '
        'vectors; per transition the statement-derived expected state (hold if the domain enable was 0 before the edge, else '
        'the ungated twin\'s step) is compared on every wire and leaf attribute, under every permutation of the driver visit order')
ASSUMPTIONS = ['the ungated twin (same construction code, no clockDriver assignment) defines "behaves exactly like ungated blocks"; '
               'the blocks\' own step function is checked separately in C09',
               'enable wires are 1 bit wide except in the "wide" designs (2-bit enable: any non-zero value enables)']
BOUNDS = {'quick': 'blocks Reg(w=2), Counter(w=2), TReg, DelayLine(2), ClockSyncFSM; placements self/parent/grand/nested/nested with derived base/'
                   'self with a clockable sibling under the same parent (both creation orders)/the system driver itself; enable from input / '
                   'from a register inside the gated domain / from a register in another domain / from combinational cells inside the gated '
                   'hierarchy / 2 bits wide / attached to the driver after the simulator exists; one or two gated domains',
          'thorough': 'same plus three-domain designs for the five small blocks, and width-2 DelayLine, Stack, SynchronousMemory under gating (one and two domains)'}
for k in ('quick', 'thorough'):
    BOUNDS[k] += '; also two gated drivers sharing one enable wire'
    BOUNDS[k] += '; enable tied to a Constant block (1 / 0) at placements self and parent'

BLOCKS = ['Reg', 'Counter', 'TReg', 'DelayLine', 'ClockSyncFSM']
PLACES = ['self', 'parent', 'grand', 'nested', 'nestedbase']
ENS = ['input', 'self', 'other', 'wide']


def shards(tier):
    out = []
    blocks = BLOCKS + (['Stack', 'SyncMem', 'DelayLine2'] if tier == 'thorough' else [])
    for b in blocks:
        for p in PLACES:
            for e in ENS:
                out.append({'block': b, 'place': p, 'en': e, 'domains': 1})
        # the gated driver sits on a leaf cell that has a clockable sibling under the same parent (sibling created before / after it)
        for p in ('selfsib_a', 'selfsib_b'):
            out.append({'block': b, 'place': p, 'en': 'input', 'domains': 1})
            out.append({'block': b, 'place': p, 'en': 'input', 'domains': 2})
        # the system's own (top level) driver is the gated one and there is no other domain
        for e in ('input', 'wide'):
            out.append({'block': b, 'place': 'top', 'en': e, 'domains': 1})
        out.append({'block': b, 'place': 'topmutate', 'en': 'input', 'domains': 1})
        # the enable is tied to a constant block: always running / never running from the first simulator on
        for p in ('self', 'parent'):
            for e in ('const1', 'const0'):
                out.append({'block': b, 'place': p, 'en': e, 'domains': 1})
        for p in ('self', 'parent', 'top'):
            out.append({'block': b, 'place': p, 'en': 'input', 'domains': 1, 'nobase': 1})
        # a monitor-style leaf (inputs only) inside the gated hierarchy
        for p in ('parent', 'grand'):
            out.append({'block': b, 'place': p, 'en': 'input', 'domains': 1, 'probe': 1})
        # the enable is computed by combinational cells that live inside the hierarchy they gate
        for p in ('parent', 'grand'):
            out.append({'block': b, 'place': p, 'en': 'inner', 'domains': 1})
        for e in ('input', 'other'):
            out.append({'block': b, 'place': 'parent', 'en': e, 'domains': 2})
        # two distinct ClockDriver objects that carry the same name (a reusable self-gating block instantiated twice)
        out.append({'block': b, 'place': 'parent', 'en': 'input', 'domains': 2, 'samename': 1})
        # two distinct drivers (two blocks, each with its own gated driver) that share one enable wire
        out.append({'block': b, 'place': 'parent', 'en': 'input', 'domains': 2, 'sharedenable': 1})
        out.append({'block': b, 'place': 'self', 'en': 'input', 'domains': 2, 'sharedenable': 1})
        # drivers assigned after a first getSimulator() (the simulator is then re-obtained)
        out.append({'block': b, 'place': 'parent', 'en': 'input', 'domains': 1, 'late': 1})
        out.append({'block': b, 'place': 'grand', 'en': 'self', 'domains': 1, 'late': 1})
        # the driver is in place (free running) when the simulator is created; its enable is attached afterwards and the SAME
        # simulator object keeps being clocked
        out.append({'block': b, 'place': 'parent', 'en': 'input', 'domains': 1, 'swap': 1})
        out.append({'block': b, 'place': 'self', 'en': 'other', 'domains': 1, 'swap': 1})
        if tier == 'thorough' and b in BLOCKS:
            # three domains only for the small blocks (the product of three copies of the larger ones takes over 30 min)
            out.append({'block': b, 'place': 'parent', 'en': 'input', 'domains': 3})
    return out


def cost(d):
    return d['domains'] * {'SyncMem': 30, 'Stack': 10, 'DelayLine2': 10}.get(d['block'], 1)


class ForeignEnable(Exception):
    pass


class Probe(Logic):
    """a user-written sequential block with inputs only (a monitor): it is gated like any other block of its domain"""
    def __init__(self, parent, name, d):
        super().__init__(parent, name)
        self.d = self.addIn('d', d)
        self.seen = 0
        self.tick = 0

    def clock(self):
        self.seen = self.d.get()
        self.tick ^= 1


def inst_block(parent, name, kind, free, tag):
    """Instantiate one block; its inputs are new free wires created in the top system."""
    top = parent
    while top.parent is not None:
        top = top.parent

    def I(n, w=1):
        # data inputs are shared by all instances of the design (the enables are what varies);
        # this keeps the input alphabet small without hiding any gating behaviour
        key = 'in_' + n
        if key not in top._wires:
            free.append(top.wire(key, w))
        return top._wires[key]

    def W(n, w=1):
        return top.wire('%s_%s' % (tag, n), w)
    if kind == 'Reg':
        q = W('q', 2)
        obj = py4hw.Reg(parent, name, I('d', 2), q)
    elif kind == 'Counter':
        q = W('q', 2)
        obj = py4hw.Counter(parent, name, I('reset'), I('inc'), q)
    elif kind == 'TReg':
        q = W('q')
        obj = py4hw.TReg(parent, name, I('t'), q)
    elif kind == 'DelayLine':
        q = W('q')
        obj = py4hw.DelayLine(parent, name, I('a'), None, None, q, 2)
    elif kind == 'DelayLine2':
        q = W('q', 2)
        obj = py4hw.DelayLine(parent, name, I('a', 2), I('en'), None, q, 2)
    elif kind == 'ClockSyncFSM':
        from py4hw.logic.protocol.uart.clock import ClockSyncFSM
        q = W('q')
        obj = ClockSyncFSM(parent, name, I('start'), I('stop'), W('sync'), q)
    elif kind == 'Stack':
        q = W('q')
        obj = py4hw.Stack_ShiftRegister(parent, name, I('din'), q, I('push'), I('pop'), None, None, 2)
    elif kind == 'SyncMem':
        q = W('q')
        obj = py4hw.SynchronousMemory(parent, name, I('ra'), I('wa'), I('wr'), q, I('wd'))
    else:
        raise ValueError(kind)
    return obj, q


def build(d, gated):
    hw = py4hw.HWSystem()
    free = []
    c = types.SimpleNamespace(sys=hw, free=free, domain_of={}, enables={}, drv_enable={})
    # an always-ungated instance in the base domain
    inst_block(hw, 'base', d['block'], free, 'base')
    for k in range(d['domains']):
        tag = 'D%d' % k
        g2 = Logic(hw, tag + '_g2')
        g1 = Logic(g2, 'g1')
        if d['place'] == 'selfsib_a':
            sib, qs = inst_block(g1, 'sib', d['block'], free, tag + 'sib')
            dut, q = inst_block(g1, 'dut', d['block'], free, tag + 'dut')
        elif d['place'] == 'selfsib_b':
            dut, q = inst_block(g1, 'dut', d['block'], free, tag + 'dut')
            sib, qs = inst_block(g1, 'sib', d['block'], free, tag + 'sib')
        else:
            dut, q = inst_block(g1, 'dut', d['block'], free, tag + 'dut')
            sib, qs = inst_block(g2, 'sib', d['block'], free, tag + 'sib')
        if d.get('probe'):
            Probe(g1, 'probe', q)
        # enable source
        if d.get('sharedenable') and k > 0:
            en = c.enables['D0']                 # two different ClockDriver objects gated by ONE enable wire
        else:
            en = hw.wire(tag + '_en', 2 if d['en'] == 'wide' else 1)
        if d.get('sharedenable') and k > 0:
            pass
        elif d['en'] in ('input', 'wide'):
            free.append(en)
        elif d['en'] in ('const1', 'const0'):
            # the enable is tied to a constant (a domain that is always / never running)
            py4hw.Constant(hw, tag + '_enc', 1 if d['en'] == 'const1' else 0, en)
        elif d['en'] in ('self', 'inner'):
            # enable = (bit 0 of the gated block's own output) OR kick; 'inner': the two cells live inside the gated hierarchy
            kick = hw.wire(tag + '_kick')
            free.append(kick)
            b0 = hw.wire(tag + '_b0')
            cells = hw if d['en'] == 'self' else {'parent': g1, 'grand': g2}[d['place']]
            py4hw.Bit(cells, tag + '_b0', q, 0, b0)
            py4hw.Or2(cells, tag + '_or', b0, kick, en)
        else:
            # enable = register in the base domain (or in the previous gated domain for k > 0)
            x = hw.wire(tag + '_enx')
            free.append(x)
            holder = hw if k == 0 else c.prev_g1
            py4hw.Reg(holder, tag + '_enreg', x, en)
        if d.get('swap'):
            drv = py4hw.ClockDriver(tag + '_clk', base=hw.clockDriver)
            c.swap = getattr(c, 'swap', []) + [(drv, en)]
        elif d.get('nobase'):
            # a stand-alone gated driver: enable= given, no base= (its own root clock)
            drv = py4hw.ClockDriver(tag + '_clk', 25E6, enable=en)
        else:
            drv = py4hw.ClockDriver('gclk' if d.get('samename') else tag + '_clk', base=hw.clockDriver, enable=en)
        c.drv_enable[id(drv)] = en          # what the harness asked for (not read back from the driver object)
        c.keep = getattr(c, 'keep', []) + [drv]
        target = {'self': dut, 'parent': g1, 'grand': g2, 'nested': dut, 'nestedbase': dut,
                  'selfsib_a': dut, 'selfsib_b': dut, 'top': hw, 'topmutate': hw}[d['place']]
        if gated:
            if d.get('late'):
                c.late = getattr(c, 'late', []) + [(target, drv)]
            elif d['place'] == 'topmutate':
                # the system's own default driver object gets the enable (instead of being replaced by a new driver)
                hw.clockDriver.enable = en
                c.drv_enable[id(hw.clockDriver)] = en
            else:
                target.clockDriver = drv
        c.enables[tag] = en
        c.drv_target = target
        if d['place'] in ('nested', 'nestedbase'):
            en2 = hw.wire(tag + '_en_outer')
            free.append(en2)
            drv2 = py4hw.ClockDriver(tag + '_clk_outer', base=hw.clockDriver, enable=en2)
            c.drv_enable[id(drv2)] = en2
            c.keep.append(drv2)
            if d['place'] == 'nestedbase':
                # the inner driver is derived from the outer gated one; a block still follows only the enable of its
                # own (nearest) driver
                drv.base = drv2
            if gated:
                g2.clockDriver = drv2
            c.enables[tag + 'outer'] = en2
        c.prev_g1 = g1
    c.sim = hw.getSimulator()
    if gated and d.get('late'):
        # the design was already simulated ungated; now the gated drivers are put in place
        for leaf in hw.allLeaves():
            py4hw.getObjectClockDriver(leaf)
        for target, drv in c.late:
            target.clockDriver = drv
        c.sim = hw.getSimulator()
    if gated and d.get('swap'):
        for drv, en in c.swap:
            drv.enable = en
    c.st = core.SysState(hw, free=free)
    return c


def ref_domain(leaf):
    """reference: nearest ancestor (or self) with a clockDriver set -> that driver"""
    o = leaf
    while o is not None:
        if o.clockDriver is not None:
            return o.clockDriver
        o = o.parent
    return None


def run_shard(d):
    res = {'programs': 1, 'states': 0, 'transitions': 0, 'traces_validated_against_impl': 0, 'evaluations': 0,
           'violations': [], 'samples': []}
    outcomes = set()
    G0 = build(d, True)
    # structural clause
    for leaf in G0.sys.allLeaves():
        got = py4hw.getObjectClockDriver(leaf)
        exp = ref_domain(leaf)
        res['evaluations'] += 1
        if got is not exp:
            res['violations'].append({'sig': 'C10:nearest_ancestor_driver:%s' % d['place'], 'shard': d, 'trace': [],
                                      'detail': {'leaf': leaf.getFullPath(), 'got': got.name, 'expected': exp.name}})
            res['distinct_outcomes'] = 2
            return res
    T = build(d, False)
    stT = T.st
    leavesG = [l for l in G0.sys.allLeaves()]
    # indices of wires driven by clockable leaves, and owner leaf per attribute slot
    stats = {'held': 0, 'advanced': 0}

    def mk():
        c = build(d, True)
        return c

    def expected(c, pre, x):
        st = c.st
        # twin: same pre-state, inputs applied, settled -> enables going into the edge
        stT.restore(pre)
        for w, v in zip(T.free, x):
            w.put(v)
        T.sim.propagateAll()
        wires = st.wires
        pre_settled = stT.snapshot()
        en_val = {}
        for w, wt in zip(wires, stT.wires):
            en_val[id(w)] = wt.value
        T.sim.clk(1)
        postT = stT.snapshot()
        # composite: sequential leaves hold or advance
        exp_w = list(postT[0])
        exp_a = list(postT[1])
        held = set()
        for leaf in c.seq_leaves:
            drv = ref_domain(leaf)
            en_w = c.drv_enable.get(id(drv), drv.enable)
            if en_w is not drv.enable:
                raise ForeignEnable(leaf.getFullPath(), drv.name, 'the driver object no longer carries the enable wire it was built with (%r)' % (drv.enable,))
            if drv.enable is not None and id(drv.enable) not in en_val:
                # the enable of this leaf's driver is a wire of ANOTHER system: the driver object is shared between systems
                raise ForeignEnable(leaf.getFullPath(), drv.name, drv.enable.getFullPath())
            if drv.enable is not None and en_val[id(drv.enable)] == 0:
                held.add(id(leaf))
        for i, w in enumerate(wires):
            src = w.source
            if src is not None and id(src.parent) in held:
                exp_w[i] = pre_settled[0][i]
        for i, (leaf, k) in enumerate(st.slots):
            if id(leaf) in held:
                exp_a[i] = pre_settled[1][i] if i < len(pre_settled[1]) else exp_a[i]
        stats['held'] += len(held)
        stats['advanced'] += len(c.seq_leaves) - len(held)
        # settle combinational wires for that composite state using the twin netlist
        stT.restore((tuple(exp_w), tuple(exp_a)))
        for w, v in zip(T.free, x):
            w.put(v)
        T.sim.propagateAll()
        return stT.snapshot()

    def step(c, x):
        st = c.st
        if not hasattr(c, 'seq_leaves'):
            c.seq_leaves = [l for l in c.sys.allLeaves() if l.isClockable()]
        pre = st.snapshot()
        c.problem = None
        try:
            exp = expected(c, pre, x)
        except ForeignEnable as e:
            c.problem = {'sigkey': 'gating', 'problem': 'a block of this system is gated by a wire of another system of the process '
                                                        '("blocks in other clock domains are unaffected")',
                         'leaf': e.args[0], 'driver': e.args[1], 'enable_wire': e.args[2]}
            return
        drvs = list(c.sim.clockDrivers.items())
        first = None
        for perm in itertools.permutations(range(len(drvs))):
            st.restore(pre)
            c.sim.clockDrivers = {drvs[i][0]: drvs[i][1] for i in perm}
            for w, v in zip(c.free, x):
                w.put(v)
            c.sim.clk(1)
            res['evaluations'] += 1
            got = st.snapshot()
            if got != exp:
                dw = [(w.getFullPath(), e, g) for w, e, g in zip(st.wires, exp[0], got[0]) if e != g]
                da = [(l.getFullPath(), k, e, g) for (l, k), e, g in zip(st.slots, exp[1], got[1]) if e != g]
                c.problem = {'sigkey': 'gating' if perm == tuple(range(len(drvs))) else 'driver_order',
                             'driver_order': [drvs[i][0].name for i in perm], 'inputs': dict(zip([w.name for w in c.free], x)),
                             'wires(expected,got)': dw[:6], 'attrs(expected,got)': da[:6]}
                break
            if first is None:
                first = got
        c.sim.clockDrivers = dict(drvs)
        if c.problem is None and first is not None:
            # advancing n cycles in one call must gate each edge on the enable seen before THAT edge
            for n in (2, 3):
                st.restore(pre)
                for w, v in zip(c.free, x):
                    w.put(v)
                c.sim.clk(n)
                a = st.snapshot()
                st.restore(pre)
                for w, v in zip(c.free, x):
                    w.put(v)
                for _ in range(n):
                    c.sim.clk(1)
                b = st.snapshot()
                res['evaluations'] += 2
                if a != b:
                    dw = [(w.getFullPath(), p_, q_) for w, p_, q_ in zip(st.wires, b[0], a[0]) if p_ != q_]
                    c.problem = {'sigkey': 'clk_n_gating', 'n': n, 'inputs': dict(zip([w.name for w in c.free], x)),
                                 'wires(n x clk(1), clk(n))': dw[:6]}
                    break
        if first is not None:
            st.restore(first)

    def check(c, x):
        if c.problem:
            return c.problem
        outcomes.add(tuple(w.value for w in c.st.wires))
        return None

    widths = [w.getWidth() for w in G0.free]
    ex = core.Explorer(mk, lambda c: core.vectors(widths), check, step=step, max_states=30000, validate_every=5)
    ex.run()
    res['states'] = ex.states
    res['transitions'] = ex.transitions
    res['traces_validated_against_impl'] = ex.validated
    res['capped'] = ex.capped
    res['distinct_outcomes'] = len(outcomes)
    res['distinct_nontrivial'] = len(outcomes)
    res['held_leaf_edges'] = stats['held']
    res['advanced_leaf_edges'] = stats['advanced']
    if d['en'] in ('const1', 'const0'):
        # a constant enable makes one of the two counts zero by construction: the gated domain must have been seen
        # advancing (const1) / held (const0) and the ungated base domain advancing
        if stats['advanced' if d['en'] == 'const1' else 'held'] == 0 and not ex.violations:
            raise core.HarnessError('vacuous gating exploration: %r %r' % (d, stats))
    elif stats['held'] == 0 or stats['advanced'] == 0:
        if not ex.violations:
            raise core.HarnessError('vacuous gating exploration: %r %r' % (d, stats))
    for kind, trace, detail in ex.violations:
        res['violations'].append({'sig': 'C10:%s:%s:%s' % (detail['sigkey'], d['place'], d['en']), 'shard': d,
                                  'trace': [list(t) for t in trace], 'detail': detail})
    if ex.sample_traces:
        res['samples'].append({'design': d, 'inputs': [w.name for w in G0.free], 'input_sequence': ex.sample_traces[-1]})
    return res


def finish(cov, results, tier):
    cov['held_leaf_edges'] = sum(r.get('held_leaf_edges', 0) for r in results)
    cov['advanced_leaf_edges'] = sum(r.get('advanced_leaf_edges', 0) for r in results)


def replay(v):
    d = v['shard']
    G, T = build(d, True), build(d, False)
    out = []
    bad = False
    for x in v['trace']:
        pre = G.st.snapshot()
        # twin from same pre-state
        T.st.restore(pre)
        for c in (G, T):
            for w, val in zip(c.free, x):
                w.put(val)
        T.sim.propagateAll()
        ens = {k: T.st.wires[G.st.wires.index(w)].value for k, w in G.enables.items()}
        G.sim.clk(1)
        T.sim.clk(1)
        g, t = G.st.snapshot(), T.st.snapshot()
        seq = [l for l in G.sys.allLeaves() if l.isClockable()]
        for leaf in seq:
            drv = ref_domain(leaf)
            e = None if drv.enable is None else ens[[k for k, w in G.enables.items() if w is drv.enable][0]]
            for i, w in enumerate(G.st.wires):
                if w.source is not None and w.source.parent is leaf:
                    want = pre[0][i] if e == 0 else t[0][i]
                    if e == 0:
                        # pre holds pre-poke values; outputs of sequential leaves are not poked
                        pass
                    if g[0][i] != want:
                        bad = True
                        out.append({'leaf': leaf.getFullPath(), 'wire': w.name, 'enable': e, 'got': g[0][i], 'expected': want,
                                    'inputs': list(x)})
    return {'design': d, 'violates': bad, 'mismatches': out[:8]}
