"""C16 — AXI4-Stream adapters never lose, duplicate or corrupt a beat.

Product BFS of the live adapter (snapshot/restore) with a reference protocol monitor
(mc.refmodels.proto_axi) written from the statement.  Every input vector over the stated
alphabet on every step, pruned only by the statement's environment assumption (ap_done
only after a completed transfer), to closure of the reachable product graph.  The
monitor's invariants are evaluated on the settled observation before every edge (inputs
applied) and after every edge."""
import itertools
import types

import py4hw
from py4hw.logic.bus.axi import AXI4StreamInterface
from py4hw.emulation import vitiswrapping as vw
from mc import core
from mc.refmodels import proto_axi

LEVEL = 'model_checking'
RULE = ('one shard per (adapter, register width, stream width) configuration; BFS over the product of the live py4hw adapter '
        'and its protocol monitor with every control/handshake/data input vector over the stated alphabet per state; vectors '
        'with ap_done=1 are pruned (and counted) while no transfer has completed since the last restart/reset/done; monitor '
        'invariants are checked on the settled observation before and after every edge; closure of the reachable graph. '
        'An outcome is a distinct (outputs before edge, outputs after edge) pair; a shard with fewer than two is vacuous.')
ASSUMPTIONS = [
    'cycle alignment: q/loaded/active/tvalid/tdata/sent are registers (docstrings: "captures ... into a register", "goes to 1 on the '
    'handshake and stays set") - an event in cycle t is visible in the observation after the edge of cycle t; READY==active, '
    'LAST==VALID and KEEP are same-observation relations',
    '"active" = set by ap_start, cleared by ap_done or ap_reset; ap_start in the same cycle as ap_done/ap_reset is not ordered by the '
    'statement: the monitor follows the adapter\'s active port in that cycle only (everywhere else the port is checked against the model)',
    '"restart" = ap_start while the adapter is inactive (Test_Axi2Reg keeps ap_start high while capturing, so ap_start while active '
    'does not clear); "cleared" = loaded 0 and q 0; a beat and a reset/done in the same cycle leaves the adapter cleared; the restart '
    'clause is vacuous in the reachable graph (an adapter only becomes inactive through reset/done, which already clear it)',
    'a load pulse is effective while the adapter is active; a load pulse while it is inactive may or may not be captured (both values '
    'admissible until one is offered with VALID, then the adapter is held to it)',
    'VALID persistence is the obligation "VALID stays 1 until the cycle tvalid&tready or ap_reset" (ap_done is not a reset of VALID); '
    'a reset ends the offer: after an edge with ap_reset=1 (and no load pulse in that same cycle) VALID is 0, whether or not the adapter was active; '
    'what VALID does after an accepted beat is not constrained by the statement (re-offers are counted as informational notes)',
    '"sent rises only after an accepted beat": a 0->1 edge of sent needs tvalid&tready in that cycle or a beat accepted while active '
    'since the last restart/reset/done (latency left open by the statement)',
    'KEEP mask constant = 2^ceil(W/8)-1 (source comment "ceil(W/8) valid bytes to the lower bits")',
    'completed transfer (enables ap_done) = a beat transferred (tvalid&tready) while the adapter was active since the last '
    'restart/reset/done; each ap_done consumes it',
    'composed pair (thorough): ap_done is produced by VitisKernelFSM; cycles in which it signals done although a monitor\'s enabling '
    'condition is false (the FSM ignores ap_reset) are outside the statement\'s environment and are cut and counted, not judged',
    'Axi2ClkFSM has no docstring or documented state machine and is not named by the statement; it is not modelled',
    'reference monitors in mc/refmodels/proto_axi.py are trusted',
]
BOUNDS = {
    'quick': 'Axi2Reg on streams with the TLAST/TKEEP side-band driven freely (stream 8 and 16 bits); Reg2Axi reg_in widths 9, 12, 17 (partial top byte); Axi2Reg q width 2 / stream 8 bits / tdata in {0x00,0x01,0x02,0xFF}; Reg2Axi reg_in width 2 (all 4 values) / stream 8 bits; '
             'all 2^k control/handshake bits per step; full closure; the observation right after getSimulator() (before any clock call)',
    'thorough': 'Axi2Reg q widths 1,2,3,8 with stream 8 and q width 2 with stream 16, tdata = all 8 low-bit patterns x {0x00,0xF8} high '
                'bits (x 0xFF00 for stream 16); Reg2Axi reg_in widths 1,2,3 (all values), 8 and 9 (stream 16; boundary values); composed '
                'Axi2Reg -> (wire | register) -> Reg2Axi with VitisKernelFSM closing start/done; full closure',
}
for k in ('quick', 'thorough'):
    BOUNDS[k] += '; also adapters added inside a wrapper block that existed and was simulated before'

Q_ALPHA = (0x00, 0x01, 0x02, 0xFF)

# schedule classes named by the statement's quantifier; each must occur in the explored graph of a stand-alone adapter
REQUIRED_COV = {
    'Axi2Reg': ['beat_while_active', 'back_to_back_beat_overwrites', 'beat_with_reset_or_done_same_cycle', 'valid_while_inactive',
                'cleared_by_done', 'cleared_by_reset', 'start_while_active_keeps'],
    # ('cleared_by_restart' cannot occur: the adapter only becomes inactive through reset/done, which already clear it)
    'Reg2Axi': ['valid_held_under_backpressure', 'load_while_beat_pending', 'reset_mid_transfer', 'done_mid_transfer',
                'back_to_back_load_with_accept', 'sent_rises', 'load_while_inactive', 'valid_raised'],
}


def shards(tier):
    out = [{'adapter': 'Axi2Reg', 'qw': 2, 'sw': 8, 'alpha': list(Q_ALPHA)},
           {'adapter': 'Reg2Axi', 'w': 2, 'sw': 8, 'alpha': [0, 1, 2, 3]}]
    # the stream carries the optional TLAST/TKEEP side-band (any value, every cycle): a transferred beat is a beat whatever they say
    side = [{'adapter': 'Axi2Reg', 'qw': 2, 'sw': 8, 'alpha': [0x00, 0x01, 0xFE], 'side': 1},
            {'adapter': 'Axi2Reg', 'qw': 2, 'sw': 16, 'alpha': [0x0000, 0xFF02], 'side': 1}]
    # register widths that are not a multiple of 8 (partial top byte in the KEEP mask)
    odd = [{'adapter': 'Reg2Axi', 'w': 9, 'sw': 16, 'alpha': [0x000, 0x1FF]},
           {'adapter': 'Reg2Axi', 'w': 12, 'sw': 16, 'alpha': [0x001, 0x800]},
           {'adapter': 'Reg2Axi', 'w': 17, 'sw': 32, 'alpha': [0x10000, 0x0FFFF]}]
    # registers and streams wider than 64 bits
    wide = [{'adapter': 'Axi2Reg', 'qw': 72, 'sw': 128, 'alpha': [0, 1 << 64, (1 << 72) - 1, (1 << 127) | 5]},
            {'adapter': 'Axi2Reg', 'qw': 65, 'sw': 512, 'alpha': [1, 1 << 64, (1 << 511) | (1 << 63)]},
            {'adapter': 'Reg2Axi', 'w': 72, 'sw': 128, 'alpha': [1 << 64, (1 << 72) - 1]}]
    # an adapter added inside a wrapper block that existed and was simulated before
    late = [{'adapter': 'Axi2Reg', 'qw': 2, 'sw': 8, 'alpha': [0x00, 0x01, 0xFE], 'late': 1},
            {'adapter': 'Reg2Axi', 'w': 2, 'sw': 8, 'alpha': [0, 1, 2], 'late': 1}]
    if tier != 'thorough':
        out += side + odd + wide + late
    if tier == 'thorough':
        full = [lo | hi for hi in (0x00, 0xF8) for lo in range(8)]
        out = []
        for qw in (1, 2, 3, 8):
            out.append({'adapter': 'Axi2Reg', 'qw': qw, 'sw': 8, 'alpha': full})
        out.append({'adapter': 'Axi2Reg', 'qw': 2, 'sw': 16, 'alpha': [lo | hi for hi in (0x0000, 0xFF00, 0x00FC) for lo in range(4)]})
        for w in (1, 2, 3):
            out.append({'adapter': 'Reg2Axi', 'w': w, 'sw': 8, 'alpha': list(range(1 << w))})
        out.append({'adapter': 'Reg2Axi', 'w': 8, 'sw': 8, 'alpha': [0x00, 0x01, 0x80, 0xFF]})
        out.append({'adapter': 'Reg2Axi', 'w': 9, 'sw': 16, 'alpha': [0x000, 0x001, 0x100, 0x1FF]})
        out += side + odd[1:] + wide + late
        for dut in ('wire', 'reg'):
            out.append({'adapter': 'pair', 'dut': dut, 'qw': 2, 'sw': 8, 'alpha': list(Q_ALPHA)})
    return out


def cost(d):
    return len(d['alpha']) * {'pair': 50, 'Reg2Axi': 4}.get(d['adapter'], 1)


# ----------------------------------------------------------------------------- construction

class ForeignWires(Exception):
    """a block of the freshly built system reads or drives a wire that belongs to ANOTHER HWSystem"""


def _ctx(hw, ins, mons):
    """ins: [(name, wire, alphabet)]; mons: [(tag, monitor, {input name: wire}, {output name: wire})]"""
    c = types.SimpleNamespace()
    c.sys = hw
    c.in_names = [n for n, _, _ in ins]
    c.free = [w for _, w, _ in ins]
    c.alpha = [tuple(a) for _, _, a in ins]
    c.mons = mons
    c.ms = tuple(m.init for _, m, _, _ in mons)
    c.sim = core.interleave(hw.getSimulator())
    # every poked wire must be undriven, every undriven wire that something reads must be poked
    # (the n-input Or ladder leaves one dangling, unread wire behind)
    und = core.undriven_inputs(hw)
    fr = {id(w) for w in c.free}
    def top_of(o):
        while o.parent is not None:
            o = o.parent
        return o
    foreign = [w for w in core.all_wires(hw) + list(und) if top_of(w.parent) is not hw]
    for leaf in hw.allLeaves():
        for p_ in leaf.inPorts + leaf.outPorts:
            if p_.wire is not None and top_of(p_.wire.parent) is not hw:
                foreign.append(p_.wire)
    if foreign:
        # hard evidence that the design just built depends on other systems of the process
        raise ForeignWires(sorted({w.getFullPath() for w in foreign})[:6])
    if not fr <= {id(w) for w in und} or not {id(w) for w in und if w.sinks} <= fr:
        raise core.HarnessError('free wires of the design differ from the poked set: %r' %
                                [w.getFullPath() for w in core.undriven_inputs(hw)])
    c.problem = None
    c.skip = False
    c.closed_env = False
    return c


def build(d):
    hw = py4hw.HWSystem()
    top = hw
    a = d['adapter']
    B = (0, 1)
    if d.get('late'):
        # the adapter is added INSIDE a wrapper block that existed (and was simulated) before: build, simulate, add, simulate on
        hw = py4hw.Logic(top, 'wrap')
        e0 = top.wire('early_in')
        py4hw.Reg(hw, 'early', e0, top.wire('early_q'))
        py4hw.Constant(top, 'early_k', 0, e0)
        top.getSimulator().clk(1)
    if a == 'Axi2Reg':
        st, rs, dn = hw.wire('ap_start'), hw.wire('ap_reset'), hw.wire('ap_done')
        q, loaded, active = hw.wire('q', d['qw']), hw.wire('loaded'), hw.wire('active')
        if d.get('side'):
            s = AXI4StreamInterface(hw, 'stream', dw=d['sw'], has_tlast=True, has_tkeep=True)
        else:
            s = AXI4StreamInterface(hw, 'stream', dw=d['sw'])
        vw.Axi2Reg(hw, 'dut', st, rs, dn, s, q, loaded, active)
        ins = [('ap_start', st, B), ('ap_reset', rs, B), ('ap_done', dn, B), ('tvalid', s.tvalid, B), ('tdata', s.tdata, d['alpha'])]
        if d.get('side'):
            ins += [('tlast', s.tlast, B), ('tkeep', s.tkeep, sorted({0, 1, (1 << (d['sw'] // 8)) - 1}))]
        mon = proto_axi.Axi2RegMonitor(d['qw'])
        xm = {n: w for n, w, _ in ins}
        om = {'active': active, 'tready': s.tready, 'q': q, 'loaded': loaded}
        return _ctx(top, ins, [('Axi2Reg', mon, xm, om)])
    if a == 'Reg2Axi':
        st, rs, dn, ld = hw.wire('ap_start'), hw.wire('ap_reset'), hw.wire('ap_done'), hw.wire('load_outs')
        reg_in, sent, active = hw.wire('reg_in', d['w']), hw.wire('sent'), hw.wire('active')
        s = AXI4StreamInterface(hw, 'stream', dw=d['sw'], has_tlast=True, has_tkeep=True)
        vw.Reg2Axi(hw, 'dut', st, rs, dn, ld, reg_in, s, sent, active)
        ins = [('ap_start', st, B), ('ap_reset', rs, B), ('ap_done', dn, B), ('load_outs', ld, B),
               ('reg_in', reg_in, d['alpha']), ('tready', s.tready, B)]
        mon = proto_axi.Reg2AxiMonitor(d['w'])
        xm = {n: w for n, w, _ in ins}
        om = {'active': active, 'tvalid': s.tvalid, 'tdata': s.tdata, 'tlast': s.tlast, 'tkeep': s.tkeep, 'sent': sent}
        return _ctx(top, ins, [('Reg2Axi', mon, xm, om)])
    if a == 'pair':
        # the wiring of createHILVitis with a one-input / one-output DUT (a wire or a register)
        st, rs = hw.wire('ap_start'), hw.wire('ap_reset')
        dn, idle, ready = hw.wire('ap_done'), hw.wire('ap_idle'), hw.wire('ap_ready')
        q, loaded, a_in = hw.wire('q', d['qw']), hw.wire('loaded'), hw.wire('axi2reg_active')
        si = AXI4StreamInterface(hw, 'axis00', dw=d['sw'])
        so = AXI4StreamInterface(hw, 'axis01', dw=d['sw'], has_tlast=True, has_tkeep=True)
        vw.Axi2Reg(hw, 'axi2reg', st, rs, dn, si, q, loaded, a_in)
        ld = hw.wire('load_outs')
        py4hw.Buf(hw, 'c_load_outs', loaded, ld)
        reg_in = hw.wire('out0', d['qw'])
        if d['dut'] == 'wire':
            py4hw.Buf(hw, 'dut', q, reg_in)
        else:
            py4hw.Reg(hw, 'dut', q, reg_in)
        sent, a_out = hw.wire('sent'), hw.wire('reg2axi_active')
        vw.Reg2Axi(hw, 'reg2axi', st, rs, dn, ld, reg_in, so, sent, a_out)
        vw.VitisKernelFSM(hw, 'kernel_fsm', st, rs, dn, idle, ready, ld, sent)
        ins = [('ap_start', st, B), ('ap_reset', rs, B), ('tvalid', si.tvalid, B), ('tdata', si.tdata, d['alpha']),
               ('tready', so.tready, B)]
        m1 = proto_axi.Axi2RegMonitor(d['qw'])
        m2 = proto_axi.Reg2AxiMonitor(d['qw'])
        x1 = {'ap_start': st, 'ap_reset': rs, 'ap_done': dn, 'tvalid': si.tvalid, 'tdata': si.tdata}
        o1 = {'active': a_in, 'tready': si.tready, 'q': q, 'loaded': loaded}
        x2 = {'ap_start': st, 'ap_reset': rs, 'ap_done': dn, 'load_outs': ld, 'reg_in': reg_in, 'tready': so.tready}
        o2 = {'active': a_out, 'tvalid': so.tvalid, 'tdata': so.tdata, 'tlast': so.tlast, 'tkeep': so.tkeep, 'sent': sent}
        c = _ctx(top, ins, [('Axi2Reg@pair', m1, x1, o1), ('Reg2Axi@pair', m2, x2, o2)])
        c.closed_env = True
        return c
    raise ValueError(a)


# ----------------------------------------------------------------------------- one cycle

def _read(m):
    return {k: w.get() for k, w in m.items()}


def cycle(c, x, notes=None):
    """Apply input vector x for one cycle, run every monitor.  Sets c.problem (first broken clause) /
    c.skip (environment assumption not met in a closed environment); returns the observation."""
    c.problem = None
    c.skip = False
    for w, v in zip(c.free, x):
        w.put(v)
    c.sim.clk(0)        # a clock call that advances no cycle: settles the netlist (and lets the lockstep bystander run in between)
    xs = [_read(xm) for _, _, xm, _ in c.mons]
    pres = [_read(om) for _, _, _, om in c.mons]
    for (tag, mon, _, _), s, xd in zip(c.mons, c.ms, xs):
        if not mon.enabled(s, xd):
            if not c.closed_env:
                raise core.HarnessError('pruned vector reached cycle(): %r' % (x,))
            c.skip = True
            c.unmet = tag
            return (tuple(tuple(sorted(p.items())) for p in pres), None)
    for (tag, mon, _, _), s, xd, pre in zip(c.mons, c.ms, xs, pres):
        bad = mon.settled(s, pre)
        if bad and c.problem is None:
            c.problem = {'sigkey': '%s:%s' % (tag, bad[0][0]), 'when': 'before edge (inputs applied, settled)',
                         'inputs': dict(zip(c.in_names, x)), 'monitor_state': repr(s), 'observed': pre, 'clause': bad[0][1]}
    c.sim.clk(1)
    posts = [_read(om) for _, _, _, om in c.mons]
    ms2 = []
    for (tag, mon, _, _), s, xd, pre, post in zip(c.mons, c.ms, xs, pres, posts):
        s2, bad, nn = mon.step(s, xd, pre, post)
        ms2.append(s2)
        if notes is not None:
            for n in nn:
                notes['%s:%s' % (tag, n)] = notes.get('%s:%s' % (tag, n), 0) + 1
        if bad and c.problem is None:
            c.problem = {'sigkey': '%s:%s' % (tag, bad[0][0]), 'when': 'after edge', 'inputs': dict(zip(c.in_names, x)),
                         'monitor_inputs': xd, 'monitor_state_before': repr(s), 'monitor_state_after': repr(s2),
                         'observed_before_edge': pre, 'observed_after_edge': post, 'clause': bad[0][1]}
    c.ms = tuple(ms2)
    return (tuple(tuple(sorted(p.items())) for p in pres), tuple(tuple(sorted(p.items())) for p in posts))


# ----------------------------------------------------------------------------- shard

def run_shard(d):
    try:
        return _run_shard(d)
    except ForeignWires as e:
        core.reset_prepared()
        return {'configs': 1, 'vacuous_ok': True, 'distinct_outcomes': 0, 'states': 0, 'transitions': 0,
                'samples': [{'config': d}],
                'violations': [{'sig': 'C16:%s:depends_on_another_system' % d['adapter'], 'shard': d, 'trace': [],
                                'detail': {'problem': 'a freshly built adapter is connected to wires of another HWSystem of the same process '
                                                      '(the schedule of one adapter would change what another one does)',
                                           'foreign_wires': e.args[0]}}]}


def _run_shard(d):
    try:
        with core.quiet():
            build(d)
    except (core.HarnessError, ForeignWires):
        raise
    except Exception as e:
        core.reset_prepared()
        return {'constructor_rejected': 1, 'configs': 1, 'vacuous_ok': True, 'distinct_outcomes': 0,
                'samples': [{'config': d, 'rejected': repr(e)[:200]}], 'violations': []}
    # power-up: what a user reads right after getSimulator(), before any clock call, already satisfies the same-observation
    # clauses (READY == active, LAST == VALID, the constant KEEP mask, cleared registers)
    pu = powerup_problem(d)
    if pu:
        return {'configs': 1, 'vacuous_ok': True, 'distinct_outcomes': 0, 'states': 1, 'transitions': 0,
                'samples': [{'config': d}],
                'violations': [{'sig': 'C16:%s:at_power_up' % pu['sigkey'], 'shard': d, 'trace': [], 'detail': pu}]}
    ctxs = []
    cnt = {'pruned': 0, 'unmet': 0}
    notes = {}
    outcomes = set()

    def mk():
        c = build(d)
        ctxs.append(c)
        return c

    def inputs(c):
        di = c.in_names.index('ap_done') if 'ap_done' in c.in_names else None
        for x in itertools.product(*c.alpha):
            if di is not None and x[di]:
                xd = dict(zip(c.in_names, x))
                if not all(m.enabled(s, xd) for (_, m, _, _), s in zip(c.mons, c.ms)):
                    cnt['pruned'] += 1
                    continue
            yield x

    def step(c, x):
        first = c is ctxs[0]
        obs = cycle(c, x, notes if first else None)
        if first:
            if c.skip:
                cnt['unmet'] += 1
            else:
                outcomes.add(obs)

    def check(c, x):
        return c.problem

    ex = core.Explorer(mk, inputs, check, step=step,
                       extra_state=lambda c: c.ms, set_extra=lambda c, e: setattr(c, 'ms', e),
                       max_states=300000, validate_every=1 if d['adapter'] != 'pair' else 3)
    ex.run()
    res = {
        'configs': 1, 'states': ex.states, 'transitions': ex.transitions,
        'traces_validated_against_impl': ex.validated, 'pruned': cnt['pruned'],
        'skipped_precondition': cnt['unmet'],
        'capped': ex.capped, 'closed_graphs': 1 if ex.closed else 0,
        'distinct_outcomes': len(outcomes), 'depth': ex.depth,
        'notes': notes,
        'samples': [{'config': d, 'inputs': ctxs[0].in_names, 'input_sequence': t} for t in ex.sample_traces[-1:]],
        'violations': [],
        'width_violations': [{'trace': [list(x) for x in t], 'bad': b} for t, b in ex.width_violations[:3]],
    }
    if not ex.violations and not ex.capped and d['adapter'] in REQUIRED_COV:
        missing = [k for k in REQUIRED_COV[d['adapter']] if not notes.get('%s:cov:%s' % (d['adapter'], k))]
        if missing:
            raise core.HarnessError('schedule classes of the statement never exercised in %r: %r' % (d, missing))
    for kind, trace, detail in ex.violations:
        res['violations'].append({'sig': 'C16:' + detail['sigkey'], 'shard': d,
                                  'trace': [list(x) for x in trace], 'detail': detail})
    for t, b in ex.width_violations[:1]:
        res['violations'].append({'sig': 'C16:%s:wire_value_out_of_width' % d['adapter'], 'shard': d,
                                  'trace': [list(x) for x in t], 'detail': {'sigkey': 'width', 'bad': b}})
    return res


def finish(cov, results, tier):
    notes = {}
    for r in results:
        for k, v in r.get('notes', {}).items():
            notes[k] = notes.get(k, 0) + v
    cov['informational_notes'] = notes
    cov['max_depth'] = max([r.get('depth', 0) for r in results] or [0])
    cov['env_assumption_unmet_cut'] = sum(r.get('skipped_precondition', 0) for r in results)
    cov['width_violations'] = sum(len(r.get('width_violations', [])) for r in results)


def powerup_problem(d):
    if d.get('late'):
        return None     # getSimulator() on an existing simulator only re-sorts: the first clock call settles the added adapter
    with core.quiet():
        c = build(d)
    for (tag, mon, _, om), st in zip(c.mons, c.ms):
        pre = _read(om)
        bad = mon.settled(st, pre)
        if bad:
            return {'sigkey': '%s:%s' % (tag, bad[0][0]), 'when': 'after getSimulator(), before any clock call, all inputs 0',
                    'observed': pre, 'clause': bad[0][1]}
    return None


def replay(v):
    d = v['shard']
    if v['sig'].endswith(':at_power_up'):
        pu = powerup_problem(d)
        return {'config': d, 'steps': [], 'violates': pu is not None, 'power_up': pu}
    c = build(d)
    steps, bad = [], None
    for i, x in enumerate(v['trace']):
        obs = cycle(c, tuple(x))
        wbad = core.check_widths(core.all_wires(c.sys))
        steps.append({'inputs': dict(zip(c.in_names, x)), 'observed_after_edge': [dict(o) for o in obs[1]] if obs[1] else None,
                      'monitor_state': repr(c.ms), 'problem': c.problem, 'width': wbad or None})
        if c.skip:
            break
        if (c.problem or wbad) and bad is None:
            bad = i
    return {'config': d, 'steps': steps, 'violates': bad is not None, 'first_bad_step': bad}
