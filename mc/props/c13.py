"""C13 — single-precision floating-point blocks meet IEEE-754 within the stated error bounds.

Bounded exhaustive enumeration over operand ALPHABETS (not the 2^64 operand-pair space): the real
py4hw block is built once per shard, every operand (pair) of the shard's alphabet is poked into the
undriven input wires, settled with Simulator.propagateAll() and the outputs are compared with exact
rational arithmetic (mc/refmodels/fpblocks.py: struct + fractions.Fraction).

Blocks: FPAdder_SP, FPMult_SP, FPComparator_SP (plain / absolute=True), InttoFP_SP, FPtoInt_SP.
"""
import struct

import py4hw
from mc import core
from mc.refmodels import fpblocks as fp

LEVEL = 'exploration'
EXHAUSTIVE = False      # operand alphabets, not the 2^64 (2^32) encoding space

# ------------------------------------------------------------------ alphabets
# mantissa boundary patterns of DESIGN.md "### C13": {0, 1, 2, 2^22, 2^22+-1, 2^23-2, 2^23-1, 0x2AAAAA, 0x555555,
# single bits 0, 11, 22}; single bits 0 and 22 coincide with 1 and 2^22 -> 11 distinct patterns
M_FULL = [0, 1, 2, (1 << 22) - 1, 1 << 22, (1 << 22) + 1, (1 << 23) - 2, (1 << 23) - 1, 0x2AAAAA, 0x555555, 1 << 11]
M8 = [0, 1, (1 << 22) - 1, 1 << 22, (1 << 23) - 2, (1 << 23) - 1, 0x2AAAAA, 0x555555]
M6 = [0, 1, 1 << 22, (1 << 23) - 1, 0x2AAAAA, 0x555555]
MSETS = {6: M6, 8: M8, 11: M_FULL}
assert len(set(M_FULL)) == 11 and set(M6) <= set(M8) <= set(M_FULL)

EA_QUICK = [1, 2, 126, 127, 128, 253, 254]
GAP_QUICK = 40
E16 = [1, 2, 3, 24, 25, 100, 126, 127, 128, 129, 150, 151, 230, 252, 253, 254]
DELTAS = (-2, -1, 0, 1, 2)
# FPtoInt_SP: M_FULL plus every single-bit, low-mask and high-mask mantissa (which bits lie below the binary point
# decides p_lost, so every cut position is enumerated)
M_F2I = sorted(set(M_FULL) | {1 << i for i in range(23)} | {(1 << i) - 1 for i in range(24)}
               | {((1 << 23) - 1) ^ ((1 << i) - 1) for i in range(24)})

BINARY = ('FPAdder_SP', 'FPMult_SP', 'FPComparator_SP', 'FPComparator_SP_abs')
NM_THOROUGH = {'FPAdder_SP': 8, 'FPMult_SP': 11, 'FPComparator_SP': 11, 'FPComparator_SP_abs': 11}
CLOSE_CHUNK = 16

RULE = {
    'quick': ('NOT exhaustive over the 2^64 operand pairs: exhaustive over operand alphabets. Operands = {sign} x '
              '{normal exponent field} x M (mantissa boundary patterns). Adder, multiplier, comparator (plain and '
              'absolute): exponent pairs ea in {1,2,126,127,128,253,254} x every gap -40..40, 4 sign pairs, |M|=6, '
              'each unordered operand pair evaluated in both orders (commutativity compared bit-for-bit); multiplier also '
              'ea x every eb with ea+eb-127 in -3..5 or 250..258 (product at either end of the normal range); plus '
              'close-magnitude pairs: 16 exponents x all 11 patterns m x partners m+{-2..2} x exponent e-1,e,e+1 x 4 '
              'sign pairs. InttoFP_SP: +-(2^k +- d) for k<=31, d in {0..3} and around 2^(k-25)..2^(k-21), plus all '
              '65536 values hi16<<16 and all 65536 values lo16. FPtoInt_SP: every sign x exponent field 0..255 x 70 '
              'mantissa patterns (fields 0 and 255 skipped: not finite normal). A case is non-trivial when it is in '
              'the statement\'s domain and its exact expected output is not all-zero (add/mul: exact result non-zero '
              'and normal)'),
    'thorough': ('NOT exhaustive over the 2^64 operand pairs: exhaustive over operand alphabets. Operands = {sign} x '
                 '{every normal exponent field 1..254} x M (mantissa boundary patterns). All 254^2 exponent pairs x 4 '
                 'sign pairs x |M|^2 with |M|=8 for FPAdder_SP and |M|=11 (all distinct patterns of the design list) '
                 'for FPMult_SP and FPComparator_SP plain/absolute; each unordered operand pair evaluated in both '
                 'orders (commutativity compared bit-for-bit); plus close-magnitude pairs for every exponent 1..254 x '
                 'all 11 patterns m x partners m+{-2..2} x exponent e-1,e,e+1 x 4 sign pairs. InttoFP_SP and '
                 'FPtoInt_SP as in the quick tier. A case is non-trivial when it is in the statement\'s domain and its '
                 'exact expected output is not all-zero (add/mul: exact result non-zero and normal)'),
}
ASSUMPTIONS = [
    'EXHAUSTIVE = False: the 2^64 operand-pair space (2^32 for the conversions) is replaced by the alphabets in RULE; '
    'a defect that needs a mantissa pattern outside the alphabet is not seen',
    'only finite normal operands (exponent field 1..254) are in the domain; add/mul result clauses (error bound, sign, '
    'commutativity) are checked only when the exact real result is non-zero and in [2^-126, 2^128); everything else is '
    'counted in skipped_precondition and not simulated (multiplier slices whose every product over/underflows report '
    '0 evaluations and are marked vacuous_ok)',
    'adder bound: |r - exact| < 2 ulp of the larger-magnitude operand and sign bit of r == sign of the exact sum; '
    'multiplier bound: |r - exact| < 1 ulp of the binade of the exact product; an infinity/NaN output counts as an '
    'error-bound violation',
    'FPtoInt_SP: for |x| >= 2^31 only invalid == 1 is demanded (r and p_lost unconstrained); for |x| < 2^31 r and '
    'p_lost are demanded and invalid must be 0 (the flag means "magnitude of 2**31 or more"); denorm is not checked',
    'InttoFP_SP input is a signed 32-bit two\'s complement integer',
    'outputs are read after Simulator.propagateAll() on a simulator obtained once per shard; blocks are pure '
    'combinational so evaluation order inside a shard does not matter (replay re-evaluates on a fresh block)',
    'reference arithmetic in mc/refmodels/fpblocks.py (struct decode + fractions.Fraction) is trusted',
]
BOUNDS = {
    'quick': 'binary blocks: 7 exponents x gaps -40..40 x 4 signs x 6^2 mantissas + close pairs on 16 exponents; '
             'InttoFP_SP 131071 + 648 integers; FPtoInt_SP 2 x 256 x 70 encodings',
    'thorough': 'binary blocks: 254^2 exponent pairs x 4 signs x |M|^2 (adder |M|=8, others |M|=11) + close pairs on '
                'all 254 exponents; conversions as quick',
}
for k in ('quick', 'thorough'):
    BOUNDS[k] += '; also every block added to a system that was already simulated (bit-flip / power-of-two / full FPtoInt alphabets)'


# ------------------------------------------------------------------ shards
def shards(tier):
    out = []
    if tier == 'thorough':
        for blk in BINARY:
            for ea in range(1, 255):
                out.append({'block': blk, 'part': 'grid', 'ea': ea, 'nm': NM_THOROUGH[blk]})
            for lo in range(1, 255, CLOSE_CHUNK):
                out.append({'block': blk, 'part': 'close', 'lo': lo, 'hi': min(254, lo + CLOSE_CHUNK - 1), 'all_e': 1,
                            'nm': NM_THOROUGH[blk]})
    else:
        for blk in BINARY:
            for ea in EA_QUICK:
                out.append({'block': blk, 'part': 'gaps', 'ea': ea, 'nm': 6})
            out.append({'block': blk, 'part': 'close', 'lo': 1, 'hi': 254, 'all_e': 0, 'nm': 6})
        for ea in EA_QUICK:
            out.append({'block': 'FPMult_SP', 'part': 'sums', 'ea': ea, 'nm': 6})
    # exponent pairs far apart (half range and full range), both tiers
    for blk in BINARY:
        out.append({'block': blk, 'part': 'fargaps', 'nm': 6})
        # operands of equal exponent that differ in exactly one mantissa bit (every bit position, three base patterns)
        out.append({'block': blk, 'part': 'bitflip', 'nm': 6})
    # operand pairs whose exact product / sum lies next to a binade boundary (normalisation switch, rounding carry)
    for blk in ('FPMult_SP', 'FPAdder_SP'):
        out.append({'block': blk, 'part': 'boundary', 'nm': 11})
    out.append({'block': 'InttoFP_SP', 'part': 'pow2'})
    for half in ('hi16', 'lo16'):
        for c in range(8):
            out.append({'block': 'InttoFP_SP', 'part': half, 'chunk': c})
    out.append({'block': 'FPtoInt_SP', 'part': 'all'})
    # the same blocks driven through a directly constructed Simulator(hw) (a sequence of changing operands on one instance)
    for blk in BINARY:
        out.append({'block': blk, 'part': 'fargaps', 'nm': 6, 'direct': 1})
        out.append({'block': blk, 'part': 'bitflip', 'nm': 6, 'direct': 1})
    out.append({'block': 'InttoFP_SP', 'part': 'pow2', 'direct': 1})
    out.append({'block': 'FPtoInt_SP', 'part': 'all', 'direct': 1})
    # the block is added to a system that was already simulated (direct = 2): build, simulate, add the block, simulate on
    for blk in BINARY:
        out.append({'block': blk, 'part': 'bitflip', 'nm': 6, 'direct': 2})
    out.append({'block': 'InttoFP_SP', 'part': 'pow2', 'direct': 2})
    out.append({'block': 'FPtoInt_SP', 'part': 'all', 'direct': 2})
    return out


_US = {'FPAdder_SP': 100, 'FPMult_SP': 40, 'FPComparator_SP': 22, 'FPComparator_SP_abs': 20}


def cost(d):
    if d['part'] == 'grid':
        return _US[d['block']] * (255 - d['ea']) * d['nm'] ** 2 * 4
    if d['part'] == 'gaps':
        return _US[d['block']] * 81 * 36 * 4
    if d['part'] == 'sums':
        return _US[d['block']] * 18 * 36 * 4
    if d['part'] == 'boundary':
        return _US[d['block']] * 20000
    if d['part'] == 'fargaps':
        return _US[d['block']] * 30 * 36 * 4
    if d['part'] == 'close':
        return _US[d['block']] * (d['hi'] - d['lo'] + 1) * 11 * 5 * 3 * 4 * 2
    return 50 * 8192


# ------------------------------------------------------------------ operand pair enumeration
def _ops(e, ms):
    return [fp.encode(s, e, m) for s in (0, 1) for m in ms]


def grid_pairs(ea, ebs, ms):
    """Canonical unordered operand pairs {x, y} with exponent(x) = ea, exponent(y) in ebs (each eb >= ea)."""
    xs = _ops(ea, ms)
    for eb in ebs:
        ys = _ops(eb, ms)
        if eb == ea:
            for i, x in enumerate(xs):
                for y in xs[i:]:
                    yield x, y
        else:
            for x in xs:
                for y in ys:
                    yield x, y


def quick_gap_ebs(ea):
    """exponents paired with ea in the quick tier; a pair of two EA_QUICK exponents belongs to the smaller one"""
    out = []
    for eb in range(max(1, ea - GAP_QUICK), min(254, ea + GAP_QUICK) + 1):
        if eb in EA_QUICK and eb < ea:
            continue
        out.append(eb)
    return out


def quick_sum_ebs(ea):
    """multiplier only: partner exponents that put the product's exponent field (ea + eb - 127, +1 on carry) next to
    either end of the normal range 1..254 -- and that the gaps part of the same tier does not already pair with ea"""
    gaps = set(quick_gap_ebs(ea)) | {eb for eb in EA_QUICK if abs(eb - ea) <= GAP_QUICK}
    return [eb for eb in range(1, 255)
            if (-3 <= ea + eb - 127 <= 5 or 250 <= ea + eb - 127 <= 258) and eb not in gaps
            and not (eb in EA_QUICK and eb < ea)]


def in_grid(d, x, y):
    """is the unordered pair already enumerated by the grid/gaps part of the same tier?"""
    ms = MSETS[d['nm']]
    if (x & 0x7FFFFF) not in ms or (y & 0x7FFFFF) not in ms:
        return False
    if d['all_e']:
        return True
    ex, ey = (x >> 23) & 0xFF, (y >> 23) & 0xFF
    return (ex in EA_QUICK or ey in EA_QUICK) and abs(ex - ey) <= GAP_QUICK


def close_pairs(d):
    """close-magnitude pairs: base (s, e, m), partner (s', e + {-1,0,1}, m + {-2..2}); all four sign pairs (the
    opposite-sign ones are the cancellation cases).  Each unordered pair belongs to the shard whose [lo, hi] contains
    its smaller exponent; pairs already in the grid part are left out so that no case is counted twice."""
    lo, hi = d['lo'], d['hi']
    bases = range(1, 255) if d['all_e'] else E16
    seen = set()
    for e in bases:
        if e < lo - 1 or e > hi + 1:
            continue
        for m in M_FULL:
            for e2 in (e - 1, e, e + 1):
                if not 1 <= e2 <= 254 or not lo <= min(e, e2) <= hi:
                    continue
                for dm in DELTAS:
                    m2 = m + dm
                    if not 0 <= m2 < (1 << 23):
                        continue
                    for s in (0, 1):
                        for s2 in (0, 1):
                            x, y = fp.encode(s, e, m), fp.encode(s2, e2, m2)
                            p = (x, y) if x <= y else (y, x)
                            if p in seen or in_grid(d, x, y):
                                continue
                            seen.add(p)
    return sorted(seen)


def binary_pairs(d):
    ms = MSETS[d['nm']]
    if d['part'] == 'grid':
        return grid_pairs(d['ea'], range(d['ea'], 255), ms)
    if d['part'] == 'gaps':
        ea = d['ea']
        ebs = quick_gap_ebs(ea)
        # pairs with eb < ea are canonicalised by swapping roles: enumerate (eb, ea) grids
        lows = [eb for eb in ebs if eb < ea]
        highs = [eb for eb in ebs if eb >= ea]

        def gen():
            for eb in lows:
                for p in grid_pairs(eb, [ea], ms):
                    yield p
            for p in grid_pairs(ea, highs, ms):
                yield p
        return gen()
    if d['part'] == 'sums':
        ea = d['ea']
        ebs = quick_sum_ebs(ea)

        def gen2():
            for eb in ebs:
                for p in (grid_pairs(eb, [ea], ms) if eb < ea else grid_pairs(ea, [eb], ms)):
                    yield p
        return gen2()
    if d['part'] == 'close':
        return close_pairs(d)
    if d['part'] == 'bitflip':
        def gen4():
            for e in (1, 64, 127, 128, 254):
                for base in (0x000000, 0x2AAAAA, 0x555555, 0x7FFFFF):
                    for k in range(23):
                        for sx in (0, 1):
                            for sy in (0, 1):
                                yield fp.encode(sx, e, base), fp.encode(sy, e, base ^ (1 << k))
        return gen4()
    if d['part'] == 'boundary':
        return boundary_pairs(d)
    if d['part'] == 'fargaps':
        def gen3():
            seen = set()
            for ea in (1, 2, 63, 64, 126, 127):
                for eb in sorted({ea + 126, ea + 127, ea + 128, ea + 129, ea + 190, 253, 254}):
                    if ea < eb <= 254 and eb - ea > GAP_QUICK and (ea, eb) not in seen:
                        seen.add((ea, eb))
                        for p in grid_pairs(ea, [eb], ms):
                            yield p
        return gen3()
    raise ValueError(d)


def boundary_pairs(d):
    """pairs whose exact result sits within a few units of a power of two of the significand arithmetic:
    multiplier: sa*sb next to 2**47 and 2**48 (24-bit significands); adder: sa + (sb >> g) next to 2**24 for
    exponent gaps g = 0..3, and sa - sb next to 2**23 / small differences are covered by the 'close' part."""
    H = 1 << 23
    sigs = sorted({H | m for m in M_FULL} | {H + 3, H + 5, (1 << 24) - 3, 0xB504F3, 0xB504F4, 0xC00000, 0xAAAAAB})
    seen = set()

    def emit(sx, ex, sy, ey):
        for sa_, sb_ in ((0, 0), (0, 1), (1, 0), (1, 1)):
            x, y = fp.encode(sa_, ex, sx & (H - 1)), fp.encode(sb_, ey, sy & (H - 1))
            k = (min(x, y), max(x, y))
            if k not in seen:
                seen.add(k)
                yield k
    if d['block'] == 'FPMult_SP':
        exps = [(127, 127), (100, 150), (2, 127), (126, 128), (60, 70)]
        for sa in sigs:
            for target in ((1 << 47), (1 << 48)):
                base = (target - 1) // sa
                for dlt in range(-3, 4):
                    sb = base + dlt
                    if H <= sb < 2 * H:
                        for ex, ey in exps:
                            yield from emit(sa, ex, sb, ey)
    else:
        for sa in sigs:
            for g in range(0, 4):
                base = ((1 << 24) - sa) << g
                for dlt in range(-3, 4):
                    sb = base + dlt
                    if H <= sb < 2 * H:
                        for e in (2, 127, 200, 253):
                            if e - g >= 1:
                                yield from emit(sa, e, sb, e - g)


# ------------------------------------------------------------------ building the blocks
_ELABORATED_ONLY = []


def build(block, _first=True, direct=False):
    if _first:
        # the same block is first elaborated in another system that is never simulated and stays alive (same instance
        # paths, same wire names): what one system builds must not be picked up by the next one
        _ELABORATED_ONLY.append(build(block, _first=False))
        del _ELABORATED_ONLY[:-2]
    hw = py4hw.HWSystem()
    a = hw.wire('a', 32)
    b = hw.wire('b', 32)
    if direct == 2 and _first:
        # the system exists and was simulated before the block under test is added to it
        py4hw.Buf(hw, 'early', a, hw.wire('a_copy', 32))
        hw.getSimulator().clk(1)
    if block == 'FPAdder_SP':
        outs = [hw.wire('r', 32)]
        py4hw.FPAdder_SP(hw, 'dut', a, b, outs[0])
    elif block == 'FPMult_SP':
        outs = [hw.wire('r', 32)]
        py4hw.FPMult_SP(hw, 'dut', a, b, outs[0])
    elif block in ('FPComparator_SP', 'FPComparator_SP_abs'):
        outs = [hw.wire('gt'), hw.wire('eq'), hw.wire('lt')]
        py4hw.FPComparator_SP(hw, 'dut', a, b, outs[0], outs[1], outs[2], absolute=block.endswith('_abs'))
    elif block == 'InttoFP_SP':
        outs = [hw.wire('r', 32), hw.wire('p_lost')]
        py4hw.InttoFP_SP(hw, 'dut', a, outs[0], outs[1])
    elif block == 'FPtoInt_SP':
        outs = [hw.wire('r', 32), hw.wire('p_lost'), hw.wire('denorm'), hw.wire('invalid')]
        py4hw.FPtoInt_SP(hw, 'dut', a, outs[0], outs[1], outs[2], outs[3])
    else:
        raise ValueError(block)
    if not _first:
        return hw
    if direct == 1:
        # the simulator class constructed directly (the path of the older examples) instead of hw.getSimulator()
        from py4hw.simulation import Simulator
        sim = Simulator(hw)
    else:
        sim = hw.getSimulator()
    core.bystander()

    def ev(x, y=0):
        a.put(x)
        b.put(y)
        sim.propagateAll()
        return tuple(w.get() for w in outs)
    return ev


# ------------------------------------------------------------------ reporting helpers
def _flt(bits):
    return repr(struct.unpack('<f', struct.pack('<I', bits & 0xFFFFFFFF))[0])


def _opd(bits):
    s, e, m = fp.fields(bits)
    return {'hex': '0x%08x' % bits, 'float': _flt(bits), 'sign': s, 'expfield': e, 'mant': '0x%06x' % m}


def gapclass(x, y):
    return 'gap>=32' if abs(((x >> 23) & 0xFF) - ((y >> 23) & 0xFF)) >= 32 else 'gap<32'


class Collector:
    def __init__(self, desc, per_sig=3):
        self.desc, self.per_sig = desc, per_sig
        self.count = {}
        self.viols = []

    def add(self, sig, trace, detail):
        n = self.count.get(sig, 0)
        self.count[sig] = n + 1
        if n < self.per_sig:
            self.viols.append({'sig': sig, 'shard': self.desc, 'trace': trace, 'detail': detail})

    def finish(self):
        for v in self.viols:
            v['detail']['cases_with_this_sig_in_shard'] = self.count[v['sig']]
        return self.viols


def _arith_detail(blk, x, y, r, exact):
    d = {'block': blk, 'a': _opd(x), 'b': _opd(y), 'r': _opd(r), 'exact': repr(float(exact)),
         'exponent_gap': abs(((x >> 23) & 0xFF) - ((y >> 23) & 0xFF))}
    vr = fp.sp_value(r)
    if vr is not None:
        if blk == 'FPAdder_SP':
            big = x if abs(fp.sp_value(x)) >= abs(fp.sp_value(y)) else y
            d['error_in_ulp_of_larger_operand'] = float(abs(vr - exact) / fp.ulp_of_operand(big))
        else:
            d['error_in_ulp_of_exact'] = float(abs(vr - exact) / fp.ulp_of_binade(exact))
    return d


# ------------------------------------------------------------------ shard runners
def run_binary(d):
    blk = d['block']
    ev = build(blk, direct=int(d.get('direct', 0)))
    col = Collector(d)
    evals = nontriv = skipped = 0
    outcomes = set()
    samples = []
    is_add, is_mul = blk == 'FPAdder_SP', blk == 'FPMult_SP'
    absolute = blk.endswith('_abs')

    def one(x, y):
        """evaluate (x, y) unless it is outside the statement's domain; returns the outputs or None"""
        nonlocal evals, nontriv, skipped
        if is_add or is_mul:
            exact = fp.add_exact(x, y) if is_add else fp.mul_exact(x, y)
            if exact is None:
                skipped += 1            # operand not normal, exact result zero or not normal: nothing is claimed
                return None
            got = ev(x, y)
            evals += 1
            outcomes.add(got)
            nontriv += 1                # exact result is non-zero by construction of the domain
            r = got[0]
            bad = fp.add_check(x, y, r, exact) if is_add else fp.mul_check(x, y, r, exact)
            if len(samples) < 2:
                samples.append({'block': blk, 'a': '0x%08x' % x, 'b': '0x%08x' % y, 'r': '0x%08x' % r,
                                'exact': repr(float(exact))})
            for c in bad:
                sig = 'C13:%s:%s' % (blk, c)
                if is_add:
                    sig += ':' + gapclass(x, y)
                col.add(sig, [[x, y]], _arith_detail(blk, x, y, r, exact))
            return got
        exp = fp.cmp_expected(x, y, absolute)
        if exp is None:
            skipped += 1
            return None
        got = ev(x, y)
        evals += 1
        outcomes.add(got)
        nontriv += 1 if any(exp) else 0
        if len(samples) < 2:
            samples.append({'block': blk, 'a': '0x%08x' % x, 'b': '0x%08x' % y, 'gt_eq_lt': list(got)})
        if got != exp:
            wrong = [n for n, g, e in zip(('gt', 'eq', 'lt'), got, exp) if g != e]
            col.add('C13:%s:order:%s' % (blk, wrong[0]), [[x, y]],
                    {'block': blk, 'a': _opd(x), 'b': _opd(y), 'got_gt_eq_lt': list(got), 'expected_gt_eq_lt': list(exp),
                     'same_sign': (x >> 31) == (y >> 31)})
        return got

    for x, y in binary_pairs(d):
        g1 = one(x, y)
        if x != y:
            g2 = one(y, x)
            if (is_add or is_mul) and g1 is not None and g2 is not None and g1 != g2:
                exact = fp.add_exact(x, y) if is_add else fp.mul_exact(x, y)
                sig = 'C13:%s:commutativity' % blk
                if is_add:
                    sig += ':' + gapclass(x, y)
                dd = _arith_detail(blk, x, y, g1[0], exact)
                dd['r_swapped'] = _opd(g2[0])
                col.add(sig, [[x, y], [y, x]], dd)
    if evals == 0:
        # every operand pair of this slice has an exact result outside the normal range (multiplier over/underflow)
        return {'evaluations': 0, 'distinct_nontrivial': 0, 'skipped_precondition': skipped, 'distinct_outcomes': 0,
                'vacuous_ok': True, 'samples': [], 'violations': []}
    return {'evaluations': evals, 'distinct_nontrivial': nontriv, 'skipped_precondition': skipped,
            'distinct_outcomes': len(outcomes), 'samples': samples, 'violations': col.finish()}


def int_alphabet(d):
    if d['part'] == 'pow2':
        vals = set()
        for k in range(0, 32):
            ds = {0, 1, 2, 3}
            for j in range(k - 25, k - 20):
                if j >= 0:
                    ds |= {(1 << j) - 1, 1 << j, (1 << j) + 1}
            for dd in ds:
                for v in ((1 << k) + dd, (1 << k) - dd, -(1 << k) - dd, -(1 << k) + dd):
                    if -(1 << 31) <= v < (1 << 31):
                        vals.add(v & 0xFFFFFFFF)
        # values that the lo16 / hi16 parts enumerate anyway are left to them (no case is counted twice)
        return sorted(v for v in vals if v >= 0x10000 and v & 0xFFFF)
    lo = d['chunk'] * 8192
    if d['part'] == 'hi16':
        return [h << 16 for h in range(max(lo, 1), lo + 8192)]     # 0 belongs to lo16
    return list(range(lo, lo + 8192))


def run_int_to_fp(d):
    ev = build('InttoFP_SP', direct=int(d.get('direct', 0)))
    col = Collector(d)
    evals = nontriv = 0
    outcomes = set()
    samples = []
    for a in int_alphabet(d):
        r, p = ev(a)
        evals += 1
        outcomes.add((r, p))
        expv, expp = fp.int_to_fp_expected(a)
        if expv != 0 or expp:
            nontriv += 1
            if len(samples) < 2 and expp:
                samples.append({'block': 'InttoFP_SP', 'a': '0x%08x' % a, 'r': '0x%08x' % r, 'p_lost': p})
        for c in fp.int_to_fp_check(a, r, p):
            col.add('C13:InttoFP_SP:%s' % c, [[a]],
                    {'block': 'InttoFP_SP', 'a': '0x%08x' % a, 'a_signed': a - (1 << 32) if a >> 31 else a,
                     'r': _opd(r), 'p_lost': p, 'expected_value': repr(float(expv)), 'expected_p_lost': expp})
    return {'evaluations': evals, 'distinct_nontrivial': nontriv, 'skipped_precondition': 0,
            'distinct_outcomes': len(outcomes), 'samples': samples, 'violations': col.finish()}


def run_fp_to_int(d):
    ev = build('FPtoInt_SP', direct=int(d.get('direct', 0)))
    col = Collector(d)
    evals = nontriv = skipped = 0
    outcomes = set()
    samples = []
    for s in (0, 1):
        for e in range(256):
            for m in M_F2I:
                a = fp.encode(s, e, m)
                if not fp.is_normal(a):
                    skipped += 1        # zero / subnormal / infinity / NaN: not a finite normal operand
                    continue
                r, p, _den, inv = ev(a)
                evals += 1
                outcomes.add((r, p, inv))
                nontriv += 1            # every normal x has a non-zero expected output (r, p_lost or invalid)
                if len(samples) < 2 and 127 <= e < 150 and m:
                    samples.append({'block': 'FPtoInt_SP', 'a': '0x%08x' % a, 'r': '0x%08x' % r, 'p_lost': p, 'invalid': inv})
                for c in fp.fp_to_int_check(a, r, p, inv):
                    x = fp.sp_value(a)
                    t = fp.trunc_toward_zero(x)
                    col.add('C13:FPtoInt_SP:%s' % c, [[a]],
                            {'block': 'FPtoInt_SP', 'a': _opd(a), 'r': '0x%08x' % r, 'p_lost': p, 'invalid': inv,
                             'expected': ({'invalid': 1} if abs(x) >= fp.TWO31 else
                                          {'r': '0x%08x' % (t & 0xFFFFFFFF), 'p_lost': int(t != x)})})
    return {'evaluations': evals, 'distinct_nontrivial': nontriv, 'skipped_precondition': skipped,
            'distinct_outcomes': len(outcomes), 'samples': samples, 'violations': col.finish()}


def run_shard(d):
    blk = d['block']
    if blk in BINARY:
        return run_binary(d)
    if blk == 'InttoFP_SP':
        return run_int_to_fp(d)
    if blk == 'FPtoInt_SP':
        return run_fp_to_int(d)
    raise ValueError(d)


# ------------------------------------------------------------------ replay
def replay(v):
    """Plain re-evaluation of the recorded operands on a freshly built block, judged with the Fraction oracle."""
    d = v['shard']
    blk = d['block']
    ev = build(blk, direct=int(d.get('direct', 0)))
    steps, classes = [], []
    for t in v['trace']:
        got = ev(*t)
        if blk == 'FPAdder_SP':
            bad = fp.add_check(t[0], t[1], got[0])
            bad = None if bad is None else [c + ':' + gapclass(t[0], t[1]) for c in bad]
        elif blk == 'FPMult_SP':
            bad = fp.mul_check(t[0], t[1], got[0])
        elif blk in ('FPComparator_SP', 'FPComparator_SP_abs'):
            exp = fp.cmp_expected(t[0], t[1], blk.endswith('_abs'))
            bad = None if exp is None else ['order:' + n for n, g, e in zip(('gt', 'eq', 'lt'), got, exp) if g != e][:1]
        elif blk == 'InttoFP_SP':
            bad = fp.int_to_fp_check(t[0], got[0], got[1])
        else:
            bad = fp.fp_to_int_check(t[0], got[0], got[1], got[3])
        steps.append({'operands': ['0x%08x' % x for x in t], 'operands_float': [_flt(x) for x in t] if blk != 'InttoFP_SP' else None,
                      'outputs': ['0x%x' % g for g in got], 'in_domain': bad is not None, 'violated_clauses': bad or []})
        classes += bad or []
    if len(v['trace']) == 2 and blk in ('FPAdder_SP', 'FPMult_SP') and steps[0]['in_domain'] \
            and steps[0]['outputs'] != steps[1]['outputs']:
        classes.append('commutativity' + (':' + gapclass(*v['trace'][0]) if blk == 'FPAdder_SP' else ''))
    sigs = sorted({'C13:%s:%s' % (blk, c) for c in classes})
    return {'block': blk, 'steps': steps, 'violated': sigs, 'violates': bool(sigs),
            'reproduces_recorded_sig': v.get('sig') in sigs}
