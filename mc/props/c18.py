"""C18 — a schematic shows the circuit that exists: every block once, wired as built.

Bounded exhaustive enumeration of netlists; each one is placed and routed by
`py4hw.Schematic(block, placeAndRoute=True)` (no renderer is created: the constructor only computes `objs`, `nets`
and `symbol_matrix`; a canvas is made by drawAll(), which is never called) under a wall-clock guard, and the
finished data model is judged by mc.refmodels.schem.judge against who really drives / reads each wire.

(a) catalogue: every configuration of the design catalogue (mc.catalog); the free inputs of the HWSystem get a
    Constant driver so that "all internal wires are driven" holds, then EVERY structural block in the hierarchy
    (the HWSystem, the block under test, its structural descendants) is drawn.
(b) all small netlists: wrapper Logic with i <= 2 in-ports, o <= 2 out-ports, a sequence of child instances from
    {Not, And2, Reg, Mux2, Two (harness leaf, 1 input, 2 outputs)}, every assignment sink pin -> source.
"""
import contextlib
import io
import itertools
import os
import signal

import py4hw
from py4hw.base import Logic

from mc import catalog
from mc.refmodels import schem

LEVEL = 'exploration'
EXHAUSTIVE = True
GUARD_S = float(os.environ.get('C18_GUARD', '30'))
KEEP_PER_SIG = 3
CHUNK = 3000            # netlists per shard

_COMMON = ('Every block is placed and routed twice, once per pinned set-iteration order (see ASSUMPTIONS). A netlist wiring '
           'assigns EVERY sink pin (instance input pins, wrapper out-ports) any source (wrapper in-ports, instance output '
           'pins): fan-out, feedback through Reg, combinational cycles, self-loops, forward edges spanning several columns, '
           'one wire on two pins of one instance, an out-port fed straight by an in-port (port pair sharing one wire) are all '
           'included; "alias" variants bind the two in-ports of the wrapper to one wire (what Add(a, a, r) looks like from '
           'inside); "samename" variants (every n <= 2 shape with i >= 1; quick: o <= 1) give internal wires the short names of the outer wires '
           'bound to the in-ports (different wires of different scopes may share a short name). A netlist is counted non-trivial when its drawing needs at least one pass-through or feedback marker. ')
RULE = {
    'quick': _COMMON +
             'Catalogue: every configuration of mc.catalog.configs("quick") (library blocks over the C07/C08/C09/C14 grids plus '
             'the extra designs); free inputs get Constant drivers; every structural block of each hierarchy (HWSystem, block, '
             'structural descendants) is drawn. Netlists: every type sequence of length n <= 2 over {Not,And2,Reg,Mux2,Two} x '
             'every (i,o) in {0,1,2}^2, all wirings, plus the alias variant of every i = 2 shape with o <= 1; n = 3: types from '
             '{Not,Reg} plus at most one of {And2,Two}, (i,o) in {(1,1),(2,1),(1,2)}, all wirings.',
    'thorough': _COMMON +
                'Catalogue: every configuration of mc.catalog.configs("thorough"), every structural block of each hierarchy. '
                'Netlists: n <= 2 as in quick with the alias variant of every i = 2 shape; n = 3: every type sequence over '
                '{Not,And2,Reg,Two} x every (i,o) with i in {1,2}, o in {0,1,2} (for (i,o) in {(2,2),(1,2)} only sequences with at most one of '
                '{And2,Two}), plus sequences with exactly one Mux2 and two of '
                '{Not,Reg} x (i,o) in {(1,1),(2,1),(1,2)}; n = 4: sequences over {Not,Reg,And2} with at most one And2 and at most '
                'two Reg, (i,o) = (1,1); all wirings in each case.',
}
ASSUMPTIONS = [
    'the drawing is judged on the Schematic data model (objs, nets, symbol_matrix, symbol x/y/getWidth()/getHeight(), '
    'NetSymbol wire/source/sink/sourcePort/sinkPort, FeedbackStopSymbol.fb_start); rendered pixels of the routed '
    'polylines are not inspected',
    'Schematic iterates over sets keyed by object address (list(set(..)) in getAllInstanceSinks, Intersection() of wires), so '
    'its drawing of one netlist varies from process to process; the harness pins both iterations to creation order and to '
    'reverse creation order (subclass override + order-preserving stand-in for the module-level Intersection helper) and '
    'explores both; other iteration orders are not explored',
    'matplotlib.textpath.TextPath (text extent of port names, a pure function) is memoised by the harness for speed',
    'a wire that is driven but read by nobody needs no net (the statement speaks of "the nets drawn for it")',
    'when several in-ports of the block share one wire, touching one of them satisfies "the pin that really drives the wire"',
    'blocks with in-out ports, with a read-but-undriven wire or with an instance output among several drivers of a wire '
    'are outside the statement and skipped (counted)',
    'exceptions swallowed by placeAndRoute are not violations by themselves; an exception that escapes the '
    'constructor is reported under clause "exception" (no drawing is yielded)',
    'a netlist exceeding the %g s wall-clock guard twice in a row is reported as non-terminating' % GUARD_S,
    'n = 3 and n = 4 are covered on the stated sub-spaces only (the full n = 3 space has 2.2e8 wirings); all wires 1 bit',
]
BOUNDS = {
    'quick': 'catalogue at the quick grids (widths <= 2, arities <= 4); netlists n <= 2 complete (i,o <= 2), n = 3 on the stated '
             'sub-space; 2 set-iteration orders; guard %g s' % GUARD_S,
    'thorough': 'catalogue at the thorough grids (widths <= 3); netlists n <= 2 complete, n = 3 without Mux2 complete for i >= 1 except (i,o) = (2,2), '
                'n = 3 with one Mux2 and n = 4 (<= 2 Reg, <= 1 And2) on the stated sub-spaces; 2 set-iteration orders; guard %g s' % GUARD_S,
}


# ------------------------------------------------------------------ netlists

class Two(Logic):
    """harness-defined 2-output leaf: x = a, y = not a"""

    def __init__(self, parent, name, a, x, y):
        super().__init__(parent, name)
        self.a = self.addIn('a', a)
        self.x = self.addOut('x', x)
        self.y = self.addOut('y', y)

    def propagate(self):
        self.x.put(self.a.get())
        self.y.put(1 - self.a.get())


class Wrapper(Logic):
    def __init__(self, parent, name):
        super().__init__(parent, name)


def build_netlist(nl):
    """nl = {'types': [...], 'i', 'o', 'assign': [...][, 'alias': 1]} -> (hw, wrapper)
    alias: the two in-ports of the wrapper are bound to one and the same wire"""
    types, i, o, assign = nl['types'], nl['i'], nl['o'], nl['assign']
    alias = bool(nl.get('alias'))
    same = bool(nl.get('samename'))     # internal wires carry the short names of the outer wires bound to the in-ports
    nsame = 0
    src = schem.sources(types, i)
    snk = schem.sinks(types, o)
    hw = py4hw.HWSystem()
    wr = Wrapper(hw, 'w')
    to_out = {a for pin, a in zip(snk, assign) if pin[0] == 'out'}
    wires = []
    for n, s in enumerate(src):
        if s[0] == 'in':
            w = wires[0] if (alias and s[1] == 1) else hw.wire('i%d' % s[1])
        else:
            # a wire that leaves through an out-port is created outside, the others are internal
            nm = 'n%d_%d' % (s[1], s[2])
            if same and n not in to_out and nsame < i:
                nm = 'i%d' % (i - 1 - nsame)        # a different wire of another scope with the same short name
                nsame += 1
            w = (hw if n in to_out else wr).wire(nm)
        wires.append(w)
    for k in range(i):
        wr.addIn('i%d' % k, wires[k])
    pin_src = {pin: a for pin, a in zip(snk, assign)}
    for j, t in enumerate(types):
        ins = [wires[pin_src[('inst', j, p)]] for p in range(schem.TYPES[t][0])]
        outs = [wires[src.index(('inst', j, p))] for p in range(schem.TYPES[t][1])]
        name = 'u%d' % j
        if t == 'Not':
            py4hw.Not(wr, name, ins[0], outs[0])
        elif t == 'And2':
            py4hw.And2(wr, name, ins[0], ins[1], outs[0])
        elif t == 'Reg':
            py4hw.Reg(wr, name, ins[0], outs[0])
        elif t == 'Mux2':
            py4hw.Mux2(wr, name, ins[0], ins[1], ins[2], outs[0])
        elif t == 'Two':
            Two(wr, name, ins[0], outs[0], outs[1])
        else:
            raise ValueError(t)
    for k in range(o):
        wr.addOut('o%d' % k, wires[pin_src[('out', k)]])
    return hw, wr


def _self_check(nl, wr, wires):
    """the py4hw netlist must be the enumerated one (harness self-test)"""
    mdl = schem.model(nl)
    kids = list(wr.children.values())
    got = set()
    for e in wires.values():
        for d, dp in e['drivers']:
            dk = ('in', wr.inPorts.index(d)) if d in wr.inPorts else ('inst', kids.index(d), d.outPorts.index(dp))
            for r, p in e['readers']:
                rk = ('out', wr.outPorts.index(r)) if r in wr.outPorts else ('inst', kids.index(r), r.inPorts.index(p))
                got.add((dk, rk))
    exp = {(d, r) for e in mdl.values() for d in e['drivers'] for r in e['readers']}
    if got != exp:
        raise core_error('netlist built by the harness differs from the enumerated one: %r' % (nl,))


def core_error(msg):
    from mc import core
    return core.HarnessError(msg)


def netlist_shapes(tier):
    """-> list of (seq, i, o, alias) whose whole wiring space is enumerated"""
    L = schem.LETTER
    out = []
    allio = [(i, o) for i in range(3) for o in range(3)]
    for n in (1, 2):
        for seq in itertools.product('NARMT', repeat=n):
            for i, o in allio:
                out.append((seq, i, o))
    if tier == 'quick':
        for seq in itertools.product('NARMT', repeat=3):
            if sum(seq.count(x) for x in 'AT') <= 1 and 'M' not in seq:
                for io in ((1, 1), (2, 1), (1, 2)):
                    out.append((seq,) + io)
    else:
        for seq in itertools.product('NART', repeat=3):
            few = sum(seq.count(x) for x in 'AT') <= 1
            for i, o in allio:
                if i >= 1 and ((i, o) not in ((2, 2), (1, 2)) or few):
                    out.append((seq, i, o))
        for seq in itertools.product('NRM', repeat=3):
            if seq.count('M') == 1:
                for io in ((1, 1), (2, 1), (1, 2)):
                    out.append((seq,) + io)
        for seq in itertools.product('NRA', repeat=4):
            if seq.count('A') <= 1 and seq.count('R') <= 2:
                out.append((seq, 1, 1))
    # a two-output block whose outputs can both reach one multi-input sink that sits two columns away
    # (two different wires from one child to the same far sink): {Two, Not|Reg, And2|Mux2} in every order
    for a in 'NR':
        for b in 'AM':
            for seq in itertools.permutations(('T', a, b)):
                if b == 'A' or tier != 'quick' or seq[0] == 'T':
                    out.append((tuple(seq), 1, 1))
    res = []
    for seq, i, o in out:
        types = [L[x] for x in seq]
        if schem.space(types, i, o) > 0:
            res.append((''.join(seq), i, o, 0))
            heavy = (i, o) == (2, 2) and 'M' in seq
            if i == 2 and len(seq) <= 2 and (o <= 1 or tier != 'quick') and not heavy:
                res.append((''.join(seq), i, o, 1))         # both in-ports on one wire
            if i >= 1 and len(seq) <= 2 and (o <= 1 or tier != 'quick') and not heavy:
                res.append((''.join(seq), i, o, 2))         # internal wires named like the outer wires on the in-ports
    return res


# ------------------------------------------------------------------ drawing under a guard

class _MemoPath:
    """TextPath with a memoised get_extents() (pure function of the text; 2/3 of the run time otherwise)"""

    def __init__(self, tp):
        self._tp = tp
        self._ext = None

    def get_extents(self, *a, **k):
        if a or k:
            return self._tp.get_extents(*a, **k)
        if self._ext is None:
            self._ext = self._tp.get_extents()
        return self._ext

    def __getattr__(self, n):
        return getattr(self._tp, n)


def _memoise_textpath():
    """LogicSymbol.getTextExtend() builds a matplotlib TextPath for every port name of every symbol.  The harness
    memoises that third-party constructor per (position, text, size, prop); py4hw itself is untouched."""
    import matplotlib.textpath as tp
    if getattr(tp.TextPath, '_c18_memo', False):
        return
    orig = tp.TextPath
    cache = {}

    def cached(xy, s, size=None, prop=None, *a, **k):
        if a or k or prop is not None:
            return orig(xy, s, size, prop, *a, **k)
        key = (tuple(xy), s, size)
        if key not in cache:
            cache[key] = _MemoPath(orig(xy, s, size=size))
        return cache[key]
    cached._c18_memo = True
    tp.TextPath = cached

class _Timeout(BaseException):
    """BaseException so that placeAndRoute's `except Exception` cannot swallow it"""


def _alarm(signum, frame):
    raise _Timeout()


ORDERS = ('fwd', 'rev')
_SUB = {}


def _schematic_class():
    """Schematic iterates over two sets whose order depends on object addresses (`list(set(ret))` in
    getAllInstanceSinks, `Intersection()` of wires), so the same netlist can be drawn differently from run to run.
    The harness pins both orders: 'fwd' = creation order, 'rev' = reverse creation order; each is one of the orders
    the unmodified code can take.  Done by a subclass + an order-preserving stand-in for the module-level
    Intersection helper; nothing under /repo is edited."""
    if 'cls' not in _SUB:
        from py4hw.schematic import Schematic

        class OrderedSchematic(Schematic):
            c18_order = 'fwd'

            def getAllInstanceSinks(self, sym):
                ret = super().getAllInstanceSinks(sym)
                pos = {id(s): n for n, s in enumerate(self.objs)}
                ret.sort(key=lambda s: pos[id(s)], reverse=(self.c18_order == 'rev'))
                return ret
        _SUB['cls'] = OrderedSchematic
    return _SUB['cls']


def _ordered_intersection(order):
    def inter(lst1, lst2):
        s2 = set(lst2)
        out = []
        for x in lst1:
            if x in s2 and not any(x is y for y in out):
                out.append(x)
        if order == 'rev':
            out.reverse()
        return out
    return inter


def draw(block, order='fwd'):
    """-> ('ok', Schematic) | ('timeout', None) | ('exception', text)"""
    import py4hw.schematic as S
    _memoise_textpath()
    cls = _schematic_class()
    cls.c18_order = order
    buf = io.StringIO()
    saved = S.Intersection
    S.Intersection = _ordered_intersection(order)
    old = signal.signal(signal.SIGALRM, _alarm)
    signal.setitimer(signal.ITIMER_REAL, GUARD_S)
    try:
        with contextlib.redirect_stdout(buf), contextlib.redirect_stderr(buf):
            sch = cls(block, placeAndRoute=True)
        return 'ok', sch
    except _Timeout:
        return 'timeout', None
    except Exception as e:
        return 'exception', '%s: %s' % (type(e).__name__, str(e)[:200])
    finally:
        signal.setitimer(signal.ITIMER_REAL, 0)
        signal.signal(signal.SIGALRM, old)
        S.Intersection = saved


def examine(block, order='fwd', wires=None):
    """-> {'skipped': [...]} | {'findings': [...], 'markers': n, 'signature': ..., 'wires': truth}"""
    if wires is None:
        wires, problems = schem.truth(block)
        if problems:
            return {'skipped': problems}
    st, sch = draw(block, order)
    if st == 'timeout':
        st, sch = draw(block, order)    # must reproduce; otherwise the second drawing is judged
        if st == 'timeout':
            return {'findings': [{'clause': 'timeout', 'wire': None, 'wire_id': None,
                                  'what': 'Schematic() still running after %g s, twice' % GUARD_S}],
                    'markers': 0, 'signature': ('timeout',), 'wires': wires}
    if st == 'exception':
        return {'findings': [{'clause': 'exception', 'wire': None, 'wire_id': None, 'what': sch}],
                'markers': 0, 'signature': ('exception', sch), 'wires': wires}
    findings = schem.judge(block, sch, wires)
    if not findings:
        findings = schem.judge_geometry(block, sch, wires)
    return {'findings': findings, 'markers': schem.markers(sch),
            'signature': schem.drawing_signature(sch), 'wires': wires}


_PRIORITY = ('self_loop', 'same_wire_two_pins', 'comb_cycle', 'feedback', 'long_edge', 'fanout', 'port_to_port', 'other')


def one_wire_on_two_pins(block):
    """True if some child has one wire on two of its pins, or two ports of the block share a wire"""
    for c in block.children.values():
        ws = [id(p.wire) for p in list(c.inPorts) + list(c.outPorts) if p.wire is not None]
        if len(set(ws)) != len(ws):
            return True
    ws = [id(p.wire) for p in list(block.inPorts) + list(block.outPorts) if p.wire is not None]
    return len(set(ws)) != len(ws)


def _dup_suffix(block, f):
    # root-cause tag for the geometric foreign-pin clause (see known finding F-C18-2)
    if f['clause'] == 'drawn_foreign_pin' and one_wire_on_two_pins(block):
        return ':with_one_wire_on_two_pins_of_a_symbol'
    return ''


def netlist_family(block, wires, finding):
    if finding['wire_id'] is not None and finding['wire_id'] in wires:
        return schem.wire_family(block, wires, wires[finding['wire_id']])
    fams = {schem.wire_family(block, wires, e) for e in wires.values()}
    for f in _PRIORITY:
        if f in fams:
            return f
    return 'other'


def summarize(findings):
    """JSON-able, id-free"""
    return [{'clause': f['clause'], 'wire': f['wire'], 'what': f['what']} for f in findings]


# ------------------------------------------------------------------ shards

def shards(tier):
    out = []
    n = len(catalog.configs(tier, small=False))
    of = max(1, n // (20 if tier == 'quick' else 45))
    for k in range(of):                 # strided, so that every shard sees many different blocks
        out.append({'kind': 'catalog', 'tier': tier, 'k': k, 'of': of})
    # netlist shapes are packed into shards of about CHUNK netlists: parts = [seq, i, o, alias, lo, hi]
    parts, size = [], 0
    for seq, i, o, alias in netlist_shapes(tier):
        types = [schem.LETTER[x] for x in seq]
        sp = schem.space(types, i, o)
        lo = 0
        while lo < sp:
            hi = min(sp, lo + CHUNK - size)
            parts.append([seq, i, o, alias, lo, hi])
            size += hi - lo
            lo = hi
            if size >= CHUNK:
                out.append({'kind': 'netlist', 'parts': parts})
                parts, size = [], 0
    if parts:
        out.append({'kind': 'netlist', 'parts': parts})
    return out


def cost(d):
    if d['kind'] == 'catalog':
        return 10 ** 6 - d['k']
    return sum((p[5] - p[4]) * len(p[0]) for p in d['parts'])


class _Acc:
    def __init__(self, desc):
        self.desc = desc
        self.viol = []
        self.per_sig = {}
        self.sigs = set()
        self.res = {'evaluations': 0, 'distinct_nontrivial': 0, 'skipped_precondition': 0, 'programs': 0,
                    'configs': 0, 'constructor_rejected': 0, 'samples': [], 'capped': False}

    def add(self, sig, detail):
        n = self.per_sig.get(sig, 0)
        self.per_sig[sig] = n + 1
        if n < KEEP_PER_SIG:
            self.viol.append({'sig': sig, 'shard': self.desc, 'trace': [], 'detail': detail})

    def done(self):
        r = self.res
        r['distinct_outcomes'] = len(self.sigs)
        r['violations'] = self.viol
        r['violating_cases_per_sig'] = dict(self.per_sig)
        if r['evaluations'] < 2:
            r['vacuous_ok'] = True
        return r


def run_shard(desc):
    acc = _Acc(desc)
    if desc['kind'] == 'catalog':
        _run_catalog(desc, acc)
    else:
        _run_netlists(desc, acc)
    return acc.done()


def _run_netlists(desc, acc):
    todo = [(seq, i, o, alias, idx) for seq, i, o, alias, lo, hi in desc['parts'] for idx in range(lo, hi)]
    timeouts = 0
    for n, (seq, i, o, alias, idx) in enumerate(todo):
        types = [schem.LETTER[x] for x in seq]
        nl = {'types': types, 'i': i, 'o': o, 'assign': schem.assignment(types, i, o, idx)}
        if alias == 1:
            nl['alias'] = 1
        elif alias == 2:
            nl['samename'] = 1
        hw, wr = build_netlist(nl)
        wires, problems = schem.truth(wr)
        if problems:
            raise core_error('enumerated netlist is outside the domain: %r %r' % (nl, problems))
        if n % 97 == 0:
            _self_check(nl, wr, wires)
        acc.res['programs'] += 1
        nontrivial = False
        for order in ORDERS:
            ex = examine(wr, order, wires)
            acc.res['evaluations'] += 1
            nontrivial = nontrivial or bool(ex['markers'])
            acc.sigs.add(ex['signature'])
            if len(acc.res['samples']) < 2 and ex['markers']:
                acc.res['samples'].append({'netlist': nl, 'order': order, 'markers': ex['markers'],
                                           'grid': list(ex['signature'][:2]), 'nets': ex['signature'][3],
                                           'findings': len(ex['findings'])})
            seen = set()
            for f in ex['findings']:
                sig = 'C18:netlist:%s:%s%s' % (netlist_family(wr, wires, f), f['clause'], _dup_suffix(wr, f))
                if sig in seen:
                    continue
                seen.add(sig)
                acc.add(sig, {'kind': 'netlist', 'netlist': nl, 'order': order, 'findings': summarize(ex['findings'])[:8]})
                if f['clause'] == 'timeout':
                    timeouts += 1
        if nontrivial:
            acc.res['distinct_nontrivial'] += 1
        if timeouts >= KEEP_PER_SIG:
            acc.res['capped'] = True
            acc.res['abandoned_after_timeouts'] = len(todo) - n - 1
            break


def _structural_nodes(root, path=()):
    out = []
    if root.isStructural():
        out.append((path, root))
        for name, ch in root.children.items():
            out.extend(_structural_nodes(ch, path + (name,)))
    return out


def build_catalog(source, cfg):
    d = catalog.build(source, cfg, 'top')
    hw = d.sys
    wires, problems = schem.truth(hw)
    n = 0
    for e in wires.values():
        if e['readers'] and not e['drivers']:
            py4hw.Constant(hw, 'c18drv%d' % n, 0, e['wire'])
            n += 1
    return hw


def _run_catalog(desc, acc):
    cfgs = catalog.configs(desc['tier'], small=False)[desc['k']::desc['of']]
    timeouts = 0
    for n, (source, cfg) in enumerate(cfgs):
        if timeouts >= KEEP_PER_SIG:
            acc.res['capped'] = True
            acc.res['abandoned_after_timeouts'] = len(cfgs) - n
            break
        acc.res['configs'] += 1
        try:
            hw = build_catalog(source, cfg)
        except Exception:
            acc.res['constructor_rejected'] += 1        # the block's constructor refuses this configuration
            continue
        for path, node in _structural_nodes(hw):
            wires, problems = schem.truth(node)
            if problems:
                acc.res['skipped_precondition'] += 1
                acc.res.setdefault('skipped_examples', [])
                if len(acc.res['skipped_examples']) < 2:
                    acc.res['skipped_examples'].append({'design': catalog.name(source, cfg), 'path': list(path), 'why': problems[:3]})
                continue
            acc.res['programs'] += 1
            nontrivial = False
            for order in ORDERS:
                ex = examine(node, order, wires)
                acc.res['evaluations'] += 1
                nontrivial = nontrivial or bool(ex['markers'])
                acc.sigs.add((type(node).__name__,) + tuple(ex['signature']))
                if len(acc.res['samples']) < 2 and ex['markers'] and path:
                    acc.res['samples'].append({'design': catalog.name(source, cfg), 'path': list(path), 'order': order,
                                               'class': type(node).__name__, 'markers': ex['markers'],
                                               'grid': list(ex['signature'][:2]), 'nets': ex['signature'][3]})
                seen = set()
                for f in ex['findings']:
                    sig = 'C18:catalog:%s:%s%s' % (type(node).__name__, f['clause'], _dup_suffix(node, f))
                    if sig in seen:
                        continue
                    seen.add(sig)
                    acc.add(sig, {'kind': 'catalog', 'source': source, 'cfg': cfg, 'path': list(path), 'order': order,
                                  'design': catalog.name(source, cfg), 'findings': summarize(ex['findings'])[:8]})
                    if f['clause'] == 'timeout':
                        timeouts += 1
            if nontrivial:
                acc.res['distinct_nontrivial'] += 1


# ------------------------------------------------------------------ replay

def replay(v):
    d = v['detail']
    if d['kind'] == 'netlist':
        hw, block = build_netlist(d['netlist'])
    else:
        hw = build_catalog(d['source'], d['cfg'])
        block = hw
        for name in d['path']:
            block = block.children[name]
    ex = examine(block, d.get('order', 'fwd'))
    if 'skipped' in ex:
        return {'violates': False, 'skipped': ex['skipped']}
    return {'violates': bool(ex['findings']), 'clauses': sorted({f['clause'] for f in ex['findings']}),
            'findings': summarize(ex['findings'])[:20], 'markers': ex['markers'], 'grid': list(ex['signature'][:2])}
