"""C17 — the UART link delivers every byte once, unchanged and in order; the line is 8N1.

Closed system built from the real blocks:

    producer --valid,v--> UARTSerializer --tx--> UARTDeserializer --valid,v--> consumer
                 <-ready--      ^ tx_clk_pulse     ^ rx_sample  | clock_desync    <-ready--
                                +--- ClockGenerationAndRecovery(rx = tx, desync) ---+

Explicit-state BFS (mc.core.Explorer) over (live system snapshot, environment + monitor state from
mc.refmodels.proto_uart).  Environment automata: a producer that may offer any alphabet byte at any
cycle and holds it until accepted, a consumer that drives the deserializer's `ready` freely subject to a
stall budget once a byte is pending, an independent software 8N1 receiver on `tx`.  Scoreboard: FIFO
of accepted bytes compared at every delivery and at every byte recovered from the line.

Observed on the unchanged tree (left firing, thorough tier only): with a stall budget of 5.5 bit periods or more a byte
is lost and its successor delivered twice (sig C17:n=<n>:lost).  UARTDeserializer raises valid only after it has seen
ready = 1 and completes the transfer on a second ready = 1 cycle, so it needs two ready cycles per byte; when the consumer
offers only one between two frame ends (11 bit periods back-to-back) the next frame end overwrites v/state_v.  Budgets of
up to 5 bit periods close without violation."""
import types

import py4hw
from mc import core
from mc.refmodels import proto_uart as ref

LEVEL = 'model_checking'
RULE = ('one shard per (divider ratio n, alphabet slice, stall budget S): BFS to closure over the product of the live '
        'serializer/clock-recovery/deserializer loop with the producer, consumer, scoreboard and soft-receiver automata; '
        'in every state every enabled environment move is taken (offer nothing / any alphabet byte unless one is being held; '
        'ready 0 or 1 unless the stall budget is exhausted); a transition is non-trivial when it carries an accept, a delivery '
        'or a byte recovered from the line, i.e. when an oracle comparison is actually executed')
ASSUMPTIONS = [
    'handshake convention on both ports: a transfer happens in a cycle in which valid and ready are both 1 on the wires going '
    'into the clock edge.  For the deserializer this is the only reading under which "presented on the ready/valid port" is an '
    'event the consumer can observe: UARTDeserializer raises valid only after it has seen ready = 1 once, keeps v and valid '
    'until a second cycle with ready = 1 and then drops valid, so there is exactly one valid & ready cycle per presented byte '
    '(validated by hand at n = 2, 3, 4 with back-to-back bytes: all bytes delivered in order)',
    'the producer holds valid and v stable from the cycle it raises valid until the transfer; v is driven 0 while valid is 0 '
    '(the serializer reads v only together with valid)',
    'a UART has no flow control: once a byte is pending on the receive side (= the soft receiver has sampled its stop bit and '
    'the byte has not been delivered) the consumer withholds ready for at most S consecutive cycles; while nothing is pending '
    'ready is unconstrained.  S = one bit period (quick) / eight bit periods (thorough); a whole frame is eleven',
    'bounded-liveness reading of "later presented": (a) an accepted byte must start on the line before the line has been idle '
    '(high, no frame in progress) for 2 frame times = 40n cycles; (b) a byte framed on the line must be delivered before the '
    'consumer has offered ready = 1 during 40n line-high cycles',
    'ClockDivider ratio n = sysFreq / (2 * uartFreq) is realised with sysFreq = 2n, uartFreq = 1; one bit lasts 2n system '
    'clocks, so "at least 4 system clocks per bit" is n >= 2; the soft receiver uses the realised bit period 2n',
    'at most 2 bytes are outstanding (the producer does not start a new offer while 2 accepted bytes are undelivered); within '
    'the stall budget the implementation never reaches 2 undelivered + 1 offered, so this only bounds faulty behaviour',
    'state key = every wire except the three poked inputs + every leaf attribute + monitor state; nothing is merged '
    '(the stale deserializer v is kept in the key)',
    'violation clause labels (lost/duplicated/corrupted/reordered/spurious) are a classification of the first failing '
    'comparison using the delivery history of the counterexample; the verdict does not depend on the label',
]

Q_ALPHA = [0x00, 0xFF, 0x55, 0xAA, 0x01, 0x80]
T_ALPHA = [0x01, 0x02, 0x04, 0x08, 0x10, 0x20, 0x40, 0x80, 0x00, 0xFF, 0x55, 0xAA, 0x0F, 0xF0, 0x7E, 0x81]
FRAME_CYCLES = lambda n: 20 * n     # 10 bits of 2n cycles


def live_bound(n):
    return 2 * FRAME_CYCLES(n)


# ---------------------------------------------------------------- system under test
_OTHER_LINKS = []


def _other_link_mid_frame(n=2):
    """A second, unrelated UART link in the same process, stopped while a frame is on its line, kept alive: what a link
    does must not depend on other links of the process."""
    from py4hw.logic.protocol.uart.serdes import UARTSerializer, UARTDeserializer
    from py4hw.logic.protocol.uart.clock import ClockGenerationAndRecovery
    from py4hw.base import HWSystem
    hw = HWSystem()
    W = hw.wire
    s_ready, s_valid, s_v = W('s_ready'), W('s_valid'), W('s_v', 8)
    tx, txp, rxs, desync = W('tx'), W('tx_clk_pulse'), W('rx_sample'), W('desync')
    d_ready, d_valid, d_v = W('d_ready'), W('d_valid'), W('d_v', 8)
    ClockGenerationAndRecovery(hw, 'cgr', tx, desync, txp, rxs, 2 * n, 1)
    UARTSerializer(hw, 'ser', s_ready, s_valid, s_v, txp, tx)
    UARTDeserializer(hw, 'des', tx, rxs, d_ready, d_valid, d_v, desync)
    sim = hw.getSimulator()
    s_valid.put(1)
    s_v.put(0xA5)
    d_ready.put(1)
    sim.clk(6 * 2 * n)          # start bit and a few data bits are out, the frame is not finished
    _OTHER_LINKS.append((hw, sim))
    del _OTHER_LINKS[:-2]


def build_system(n, vw=8, sw=8, freq=None):
    from py4hw.logic.protocol.uart.serdes import UARTSerializer, UARTDeserializer
    from py4hw.logic.protocol.uart.clock import ClockGenerationAndRecovery
    with core.quiet():
        _other_link_mid_frame()
    hw = py4hw.HWSystem()
    W = hw.wire
    c = types.SimpleNamespace(sys=hw, n=n)
    c.s_ready, c.s_valid, c.s_v = W('s_ready'), W('s_valid'), W('s_v', sw)     # sw > 8: the low byte of a wider bus is sent
    c.tx, c.txp, c.rxs, c.desync = W('tx'), W('tx_clk_pulse'), W('rx_sample'), W('desync')
    c.d_ready, c.d_valid, c.d_v = W('d_ready'), W('d_valid'), W('d_v', vw)      # vw > 8: the byte arrives on a wider data bus
    fs, fu = freq if freq else (2 * n, 1)       # system / line frequency; the half bit period is int(fs / (2 fu)) = n clocks
    ClockGenerationAndRecovery(hw, 'cgr', c.tx, c.desync, c.txp, c.rxs, fs, fu)
    UARTSerializer(hw, 'ser', c.s_ready, c.s_valid, c.s_v, c.txp, c.tx)
    UARTDeserializer(hw, 'des', c.tx, c.rxs, c.d_ready, c.d_valid, c.d_v, c.desync)
    c.free = [c.s_valid, c.s_v, c.d_ready]
    und = core.undriven_inputs(hw)
    extra = [w for w in und if w not in c.free and w.sinks]
    if extra:
        raise core.HarnessError('unexpected undriven wires with readers: %r' % [w.getFullPath() for w in extra])
    c.sim = hw.getSimulator()
    return c


def observe(c):
    return (c.s_ready.get(), c.d_valid.get(), c.d_v.get(), c.tx.get())


# ---------------------------------------------------------------- shards
def _shard(n, alpha, s_bits, family, merge, max_states, validate_every=997):
    return {'family': family, 'n': n, 'alphabet': list(alpha), 'S_bit_periods': s_bits, 'S': s_bits * 2 * n,
            'merge_stale_v': merge, 'max_states': max_states, 'validate_every': validate_every}


def shards(tier):
    import itertools
    out = []
    # directed closed-loop runs at large ratios (every cycle simulated; the BFS families stop at 16 clocks per bit): 4 bytes,
    # back to back and with idle gaps, consumer always ready / ready every other cycle
    for n in ((217, 300, 50, 512) if tier == 'quick' else (217, 300, 50, 512, 434, 1000, 33)):
        for gap in (0, 3):
            for rdy in (1, 2):
                out.append({'family': 'directed', 'n': n, 'alphabet': [0x41, 0x00, 0xFF, 0x5A], 'gap_frames': gap, 'ready_every': rdy,
                            'S_bit_periods': 0, 'S': 0})
    # the ratio given by real frequencies (not as (ratio, 1)), odd ratios and a non-integer ratio: both dividers round the same
    # way, the half bit period is int(fs / (2 fu)) clocks
    for fs, fu in ((1843200, 115200), (153600, 9600), (32, 2), (5, 1), (7, 1), (9, 1), (11, 1), (33, 1), (50E6, 115200 * 16), (100, 18)):
        out.append({'family': 'directed', 'n': int(fs / (2 * fu)), 'freq': [fs, fu], 'alphabet': [0x41, 0x00, 0xFF, 0x5A],
                    'gap_frames': 0, 'ready_every': 1, 'S_bit_periods': 0, 'S': 0})
    # the byte taken from / delivered on data buses wider than 8 bits (upper bits of the offered word set)
    for n in (2, 5):
        out.append({'family': 'directed', 'n': n, 'alphabet': [0x1241, 0xFF00, 0x0180, 0xA55A], 'gap_frames': 0, 'ready_every': 1,
                    'S_bit_periods': 0, 'S': 0, 'sw': 16, 'vw': 16})
    if tier == 'quick':
        # the byte delivered on a data bus wider than 8 bits
        out.append(dict(_shard(2, [0x00, 0xFF, 0x41], 1, 'alphabet6', False, 400000, validate_every=97), vw=16))
        for n in (2, 3):
            out.append(_shard(n, Q_ALPHA, 1, 'alphabet6', False, 400000, validate_every=97))
        # one long-stall graph (n = 2, alphabet {00, FF}, stalls <= 8 bit periods): the smallest graph that reaches the
        # listed known finding F-C17-1, so that the quick tier reports it on every run (and any other loss at long stalls)
        out.append(_shard(2, [0x00, 0xFF], 8, 'sweep256', True, 400000))
        return out
    for n in (2, 3, 4, 5, 6, 8):
        # (a) arbitrary sequences over the 16-value alphabet, short stalls
        out.append(_shard(n, T_ALPHA, 1, 'alphabet16', True, 1500000))
        # (b) stalls up to 8 bit periods: the graph grows with n^2 * |alphabet|^2.75, so the alphabet is sliced for n >= 5
        if n <= 4:
            out.append(_shard(n, Q_ALPHA, 8, 'alphabet6_longstall', True, 1500000))
        else:
            for pair in itertools.combinations(Q_ALPHA, 2):
                out.append(_shard(n, pair, 8, 'pairs_of_alphabet6_longstall', True, 1500000))
    for b in range(256):
        nb = ~b & 0xFF
        if b < nb:      # {b, ~b} and {~b, b} are the same alphabet: 128 shards cover all 256 values
            out.append(_shard(2, [b, nb], 8, 'sweep256', True, 400000))
    return out


def cost(d):
    return d['n'] ** 2 * len(d['alphabet']) ** 2.5 * (1 + d['S_bit_periods'])


BOUNDS = {
    'quick': 'directed closed-loop runs (4 bytes, back to back and with 3-frame gaps, consumer ready always / every other cycle) at 100, 434, 600 and '
             '1024 clocks per bit (thorough also 66, 868, 2000); one graph with a 16-bit data bus; n in {2, 3} (4 and 6 system clocks per bit); all sequences over the alphabet {00, FF, 55, AA, 01, 80} with any '
             'idle gaps incl. none; consumer stalls of at most one bit period once a byte is pending, unconstrained otherwise; '
             '<= 2 bytes outstanding; reachable product graph closed, full state key; plus one graph at n = 2 over {00, FF} with stalls '
             '<= 8 bit periods',
    'thorough': 'n in {2, 3, 4, 5, 6, 8}: (a) all sequences over the 16-value alphabet (single-bit bytes, 00, FF, 55, AA, 0F, F0, '
                '7E, 81) with stalls <= 1 bit period; (b) stalls <= 8 bit periods: all sequences over the 6-value quick alphabet for '
                'n <= 4, all sequences over each of the 15 two-value sub-alphabets of it for n in {5, 6, 8}; (c) at n = 2 all 256 '
                'byte values, each in the alphabet {b, ~b} (128 graphs), stalls <= 8 bit periods; '
                'every graph closed unless reported capped; exploration continues past violating transitions (they are not '
                'expanded) so the rest of the graph is still checked; stale deserializer v merged (see assumptions).  '
                'Ratios n = 7 and n > 8, three or more distinct values outside the listed alphabets in one sequence, and stalls '
                'longer than 8 bit periods are out of bound',
}
for k in ('quick', 'thorough'):
    BOUNDS[k] += '; also directed runs with the ratio given by real frequencies, odd ratios 5..33 and non-integer ratios'
ASSUMPTIONS.append(
    'thorough tier only: the deserializer v wire is dropped from the state key while d_valid = 0, the deserializer hand-off FSM is '
    'idle (state_v = 0) and the monitor has no byte pending.  Argument: v has no reader inside the system (its only sink is the '
    'environment, which reads it only in a valid & ready cycle); in such a state valid can only rise after the hand-off FSM leaves '
    'idle, which happens in the same clock() call that rewrites v; so two such states differing only in v have the same futures.  '
    'If a faulty implementation did present a stale v, the representative kept still carries one concrete stale value, and because '
    'every merged state is extended with every alphabet byte the comparison fails for all but at most one of them.  The quick tier '
    'uses the full key')


# ---------------------------------------------------------------- exploration
def make_build(d):
    n = d['n']

    def build():
        c = build_system(n, d.get('vw', 8), d.get('sw', 8), d.get('freq'))
        c.ms = ref.mon_init()
        # path bookkeeping, carried with each state but NOT part of the dedup key (it describes the BFS-tree path by which the
        # state was first reached, i.e. exactly the trace reported for a violation): (cycle, ready edges so far, ready of
        # the previous cycle, deliveries so far, ((frame-end cycle, ready edges before it), ...)); only used to group
        # violating transitions into classes so that each class gets its own replayed, classified representative
        c.aux = (0, 0, 0, 0, ())
        c.viol = None
        c.ev = ()
        c.obs = None
        c.stats = {'accepts': 0, 'deliveries': 0, 'line_bytes': 0, 'max_outstanding': 0, 'max_stall': 0,
                   'back_to_back_accepts': 0, 'deliver_while_next_in_flight': 0, 'accept_while_prev_undelivered': 0}
        return c
    return build


def make_inputs(d):
    S = d['S']
    alpha = list(d['alphabet'])

    def inputs(c):
        prod, fifo, line, stall = c.ms[0], c.ms[1], c.ms[2], c.ms[3]
        readies = (1,) if (len(fifo) > len(line) and stall >= S) else (1, 0)
        if prod is not None:
            pv = [(1, prod)]
        else:
            pv = [(0, 0)]
            if len(fifo) < 2:
                pv += [(1, b) for b in alpha]
        # default environment answers first (ready, idle) so the first counterexample has the fewest deviations
        for r in readies:
            for va, v in pv:
                yield (va, v, r)
    return inputs


def step(c, x):
    obs = observe(c)
    for w, v in zip(c.free, x):
        w.put(v)
    prev = c.ms
    c.ms, c.viol, c.ev = ref.mon_step(prev, obs, (x[0], x[1] & 0xFF, x[2]), c.n, live_bound(c.n))     # the byte is the low 8 bits
    cyc, rc, last_ready, ndel, fes = c.aux
    c.ndel_before = ndel
    if c.desync.get():           # the deserializer completed a frame at the edge of the previous cycle
        fes += ((cyc - 1, rc - last_ready),)
    for kind, b in c.ev:
        if kind == 'deliver':
            ndel += 1
    c.aux = (cyc + 1, rc + x[2], x[2], ndel, fes)
    c.obs = obs
    st = c.stats
    for kind, b in c.ev:
        if kind == 'accept':
            st['accepts'] += 1
            if prev[0] is not None:
                st['back_to_back_accepts'] += 1      # the byte was already on offer when ready rose: no idle gap
            if prev[1]:
                st['accept_while_prev_undelivered'] += 1
        elif kind == 'deliver':
            st['deliveries'] += 1
            if len(prev[2]) > 0:
                st['deliver_while_next_in_flight'] += 1
        else:
            st['line_bytes'] += 1
    if len(c.ms[1]) > st['max_outstanding']:
        st['max_outstanding'] = len(c.ms[1])
    if c.ms[3] > st['max_stall']:
        st['max_stall'] = c.ms[3]
    c.sim.clk(1)


def make_key_fn(d):
    merge = d.get('merge_stale_v', False)
    idx = {}

    def key_fn(c, st, snap, ex):
        wv, av = snap
        if merge:
            if not idx:
                des = c.sys.children['des']
                idx['v'] = st.wires.index(c.d_v)
                idx['valid'] = st.wires.index(c.d_valid)
                idx['state_v'] = [i for i, (l, k) in enumerate(st.slots) if l is des and k == 'state_v'][0]
                if c.d_v.sinks:
                    raise core.HarnessError('deserializer v has a reader inside the system; merging is not justified')
            if wv[idx['valid']] == 0 and av[idx['state_v']] == 0 and len(ex[0][1]) <= len(ex[0][2]):
                wv = list(wv)
                wv[idx['v']] = 0
        try:
            kw = bytes([wv[i] for i in st.key_idx])
        except (ValueError, TypeError):
            kw = tuple(wv[i] for i in st.key_idx)
        return (kw, av, ex[0])      # ex[1] is path bookkeeping, deliberately not in the key
    return key_fn


KNOWN_SUFFIX = 'fewer_than_2_ready_edges_between_frame_ends'


def window_of(fes, j):
    """fes = ((frame-end cycle, ready edges strictly before it), ...) in order; j = index of the byte in question.
    Returns ((first cycle, cycle of the next frame end), ready edges in [first, next)) or (None, 99) if byte j's frame or
    the following frame has not been completed by the deserializer."""
    if j + 1 < len(fes):
        return (fes[j][0], fes[j + 1][0]), fes[j + 1][1] - fes[j][1]
    return None, 99


def _set_extra(c, e):
    c.ms, c.aux = e


def explore(d, stop_on_first=False):
    outcomes = set()

    def check(c, x):
        if c.viol is not None:
            base, detail = c.viol
            return {'base': base, 'few_ready': window_of(c.aux[4], c.ndel_before)[1] < 2, 'detail': detail, 'inputs(valid,v,ready)': list(x),
                    'wires_into_edge(s_ready,d_valid,d_v,tx)': list(c.obs)}
        outcomes.add((c.obs, c.ev))
        return None

    ex = core.Explorer(make_build(d), make_inputs(d), check, step=step,
                       extra_state=lambda c: (c.ms, c.aux), set_extra=_set_extra,
                       max_states=d.get('max_states', 400000), validate_every=d.get('validate_every', 997),
                       key_fn=make_key_fn(d))
    ex.run(stop_on_first=stop_on_first)
    ex.outcomes = outcomes
    return ex


def run_trace(d, trace, keep=40):
    """Plain loop on a fresh system, monitor with full history.  Returns (clause or None, detail, log).
    When the first failing comparison is 'a later outstanding byte was delivered instead of the head', the run is
    continued with the default environment (producer idle, ready = 1) for three frame times to see whether the
    skipped head still arrives (reordered) or never does (lost).
    A loss gets the suffix KNOWN_SUFFIX iff, counted on this replayed trace, the consumer's ready was 1 going into fewer
    than 2 clock edges in the window [cycle at whose edge the deserializer completed the lost byte's frame, cycle at whose
    edge it completed the next frame) -- frame completions are read off the deserializer's clock_desync output, which is
    1 in the cycle after a completion."""
    with core.quiet():
        c = make_build(d)()
    delivered, accepted, recovered = [], [], []
    log = []
    desync_log = []
    clause, detail = None, None
    for i, x in enumerate(trace):
        x = tuple(x)
        desync_log.append(c.desync.get())
        with core.quiet():
            step(c, x)
        log.append({'cycle': i, 'valid,v,ready': list(x), 's_ready,d_valid,d_v,tx': list(c.obs), 'events': [list(e) for e in c.ev]})
        if c.viol is not None:
            base, detail = c.viol
            clause = ref.classify(base, detail, delivered)
            detail = dict(detail, cycle=i, accepted_before=list(accepted), delivered_before=list(delivered), recovered_from_line_before=list(recovered))
            if clause == 'reordered':
                head = detail['outstanding'][0]
                hold = c.ms[0]
                later = []
                for _ in range(3 * FRAME_CYCLES(d['n'])):
                    with core.quiet():
                        step(c, (1, hold, 1) if hold is not None else (0, 0, 1))
                    for kind, b in c.ev:
                        if kind == 'deliver':
                            later.append(b)
                        if kind == 'accept':
                            hold = None
                detail['delivered_afterwards(ready=1,3 frames)'] = later
                if head not in later:
                    clause = 'lost'
            if clause == 'lost':
                frame_ends = [k - 1 for k, ds in enumerate(desync_log) if ds]
                j = len(delivered)          # index (in acceptance order) of the byte that was not delivered
                detail['deserializer_frame_end_cycles'] = frame_ends
                if j + 1 < len(frame_ends):
                    lo, hi = frame_ends[j], frame_ends[j + 1]
                    ready_cycles = [k for k in range(lo, hi) if trace[k][2]]
                    detail['window_cycles[first,next_frame_end)'] = [lo, hi]
                    detail['ready_cycles_in_window'] = ready_cycles
                    detail['ready_edges_in_window'] = len(ready_cycles)
                    if len(ready_cycles) < 2:
                        clause = 'lost:' + KNOWN_SUFFIX
            break
        for kind, b in c.ev:
            {'accept': accepted, 'deliver': delivered, 'line': recovered}[kind].append(b)
    return clause, detail, log[-keep:]


def run_directed(d):
    """closed-loop producer (offers the next byte as soon as the previous one was accepted and the gap has passed) and a
    periodic consumer; the input sequence it produces is then judged by run_trace like any other trace"""
    try:
        with core.quiet():
            c = make_build(d)()
    except core.HarnessError:
        raise
    except Exception as e:
        # every clock ratio of at least 4 is admissible: a link that cannot be built delivers nothing
        core.reset_prepared()
        return {'configs': 1, 'states': 0, 'transitions': 0, 'traces_validated_against_impl': 0, 'evaluations': 0,
                'distinct_nontrivial': 0, 'distinct_outcomes': 2, 'vacuous_ok': True, 'samples': [{'shard': d}],
                'violations': [{'sig': 'C17:n=%d:link_cannot_be_built' % d['n'], 'shard': d, 'trace': [],
                                'detail': {'clause': 'link_cannot_be_built', 'raised': repr(e)[:200], 'directed': True}}]}
    n, todo = d['n'], list(d['alphabet'])
    frame = FRAME_CYCLES(n)
    trace, wait, cyc = [], 0, 0
    horizon = (len(todo) + 3) * frame * (1 + d['gap_frames']) + 4 * frame
    sent = 0
    while cyc < horizon:
        rdy = 1 if cyc % d['ready_every'] == 0 else 0
        hold = c.ms[0]
        if hold is not None:
            x = (1, todo[sent] if sent < len(todo) and (todo[sent] & 0xFF) == hold else hold, rdy)
        elif sent < len(todo) and wait <= 0:
            x = (1, todo[sent], rdy)
        else:
            x = (0, 0, rdy)
        with core.quiet():
            step(c, x)
        trace.append(list(x))
        wait -= 1
        for kind, b in c.ev:
            if kind == 'accept':
                sent += 1
                wait = d['gap_frames'] * frame
        cyc += 1
        if c.viol is not None:
            break
    clause, det2, log = run_trace(d, trace)
    st = c.stats
    res = {'configs': 1, 'states': 0, 'transitions': len(trace), 'traces_validated_against_impl': 1, 'evaluations': st['accepts'] + st['deliveries'],
           'distinct_nontrivial': st['deliveries'], 'distinct_outcomes': 2, 'vacuous_ok': True, 'violations': [],
           'samples': [{'shard': d, 'cycles': len(trace), 'accepted': st['accepts'], 'delivered': st['deliveries']}]}
    if clause is None and st['deliveries'] != len(todo) and not c.viol:
        clause, det2 = 'lost', {'accepted': st['accepts'], 'delivered': st['deliveries'], 'offered': len(todo), 'cycles': len(trace)}
    if clause is not None:
        res['violations'].append({'sig': 'C17:n=%d:%s' % (n, clause), 'shard': d, 'trace': [],     # regenerated by the closed-loop driver
                                  'detail': {'clause': clause, 'history': det2, 'directed': True, 'trace_cycles': len(trace),
                                             'last_cycles': log[-12:]}})
    return res


def run_shard(d):
    if d['family'] == 'directed':
        return run_directed(d)
    ex = explore(d)
    st = ex.c.stats
    res = {'configs': 1, 'states': ex.states, 'transitions': ex.transitions,
           'traces_validated_against_impl': ex.validated, 'capped': ex.capped,
           'closed_graphs': 1 if ex.closed else 0, 'capped_graphs': 1 if ex.capped else 0,
           'distinct_outcomes': len(ex.outcomes),
           'evaluations': st['accepts'] + st['deliveries'] + st['line_bytes'],
           'distinct_nontrivial': st['deliveries'] + st['line_bytes'],
           'depth': ex.depth, 'stats': st, 'violations': [], 'violating_transitions': len(ex.violations),
           'width_violations': [{'trace': [list(x) for x in t], 'bad': b} for t, b in ex.width_violations[:3]],
           'samples': [{'shard': {k: d[k] for k in ('family', 'n', 'alphabet', 'S')}, 'inputs': ['s_valid', 's_v', 'd_ready'],
                        'input_sequence_len': len(t), 'input_sequence_tail': t[-12:]} for t in ex.sample_traces[-1:]]}
    if ex.width_violations:
        raise core.HarnessError('wire value outside its width in the UART loop: %r' % (ex.width_violations[0][1],))
    # BFS order => the first violation of each base clause is a shortest one; classify that one on a fresh system
    # violating transitions are grouped by (base clause, 'fewer than 2 ready edges in the frame-end window' computed from the
    # path bookkeeping) so that a different failure is not hidden behind an earlier one of the same base clause
    seen_base, seen_sig = set(), set()
    for kind, trace, detail in ex.violations:
        if detail.get('sigkey') in ('raised', 'history_dependent'):
            sig = 'C17:n=%d:%s' % (d['n'], detail['sigkey'])
            if sig not in seen_sig:
                seen_sig.add(sig)
                res['violations'].append({'sig': sig, 'shard': d, 'trace': [list(x) for x in trace], 'detail': detail})
            continue
        grp = (detail['base'], detail.get('few_ready'))
        if grp in seen_base:
            continue
        seen_base.add(grp)
        trace = [list(x) for x in trace]
        clause, det2, log = run_trace(d, trace)
        if clause is None:
            raise core.HarnessError('violation found by the explorer does not reproduce on a fresh system: %r' % (detail,))
        sig = 'C17:n=%d:%s' % (d['n'], clause)
        if sig in seen_sig:
            continue
        seen_sig.add(sig)
        res['violations'].append({'sig': sig, 'shard': d, 'trace': trace,
                                  'detail': dict(detail, clause=clause, trace_cycles=len(trace),
                                                 violating_transitions_in_shard=len(ex.violations),
                                                 history=det2, last_cycles=log[-16:])})
    if not ex.violations and not ex.capped:
        # non-vacuity of the interesting corners (harness self-check, not a verdict)
        if (st['back_to_back_accepts'] == 0 or st['max_outstanding'] < 2 or st['max_stall'] < d['S'] or st['deliveries'] == 0
                or st['line_bytes'] == 0):
            raise core.HarnessError('closed exploration never exercised back-to-back / 2 outstanding / full stall: %r' % (st,))
    return res


def finish(cov, results, tier):
    for k in ('accepts', 'deliveries', 'line_bytes', 'back_to_back_accepts', 'deliver_while_next_in_flight',
              'accept_while_prev_undelivered'):
        cov[k] = sum(r.get('stats', {}).get(k, 0) for r in results)
    cov['violating_transitions'] = sum(r.get('violating_transitions', 0) for r in results)
    cov['max_outstanding'] = max([r.get('stats', {}).get('max_outstanding', 0) for r in results] or [0])
    cov['max_depth_cycles'] = max([r.get('depth', 0) for r in results] or [0])
    cov['states_per_shard_max'] = max([r.get('states', 0) for r in results] or [0])
    cov['byte_values_covered'] = len({b for r in results for b in r['shard']['alphabet']})
    cov['ratios_n'] = sorted({r['shard']['n'] for r in results})
    cov['stall_budgets_bit_periods'] = sorted({r['shard']['S_bit_periods'] for r in results})
    cov['per_family'] = {}
    for r in results:
        f = cov['per_family'].setdefault(r['shard']['family'], {'shards': 0, 'states': 0, 'transitions': 0, 'closed': 0, 'capped': 0})
        f['shards'] += 1
        f['states'] += r.get('states', 0)
        f['transitions'] += r.get('transitions', 0)
        f['closed'] += r.get('closed_graphs', 0)
        f['capped'] += 1 if r.get('capped') else 0
    cov['key'] = ('all wires except the 3 poked inputs + all leaf attributes + monitor state'
                  + ('; stale deserializer v merged while idle (see assumptions)' if tier == 'thorough' else '; no merging'))


def replay(v):
    d = v['shard']
    if d.get('family') == 'directed':
        r = run_directed(d)
        return {'shard': d, 'violates': bool(r['violations']), 'detail': [x['detail'] for x in r['violations']][:1]}
    clause, detail, log = run_trace(d, v['trace'], keep=30)
    return {'shard': d, 'violates': clause is not None, 'clause': clause, 'detail': detail, 'last_cycles': log}
