"""C03 — emitted Verilog is self-consistent: it parses, resolves and elaborates.

Every text py4hw returns for (a) the whole design catalogue x placements, (b) pairs of
catalogue blocks that are emitted under the same module name, (c) an exhaustive naming grid
(port / wire / instance names incl. reserved words and names that collide after prefixing),
is parsed and elaborated by the /verif front end, which applies the rules R1..R7; R8 (same
module name => same interface) is checked across the whole run."""
import hashlib
import itertools
import re

import py4hw
from py4hw.base import Logic
from mc import core, catalog
from mc.props import c01
from mc.vlog import sim as V
from mc.vlog import parser as VP
from mc.vlog.lexer import VlogError, ParseError

LEVEL = 'exploration'
RULE = ('every Verilog text produced for: the design catalogue of C01 (all placements), every pair of catalogue blocks whose '
        'top block maps to the same module name and every pair of two different configurations of one library class in both orders (built side by side), and the exhaustive naming grid (port names x local wire '
        'name x instance name x top-level wire names from a list with reserved words, prefixes w_/i_, clk, r, q), a sample of the '
        'behavioural classes generated for C02, and family hist: the five circuits of C19 (shared named modules, counter, transpiled '
        'FSM, own clock domain, several transpiled classes) after every history of <= H requests / simulation steps / one structural '
        'edit (which gives a combinational block its first register), hierarchy text from the generator that served the history and '
        'from a fresh one; each text is '
        'parsed + elaborated; rules R1 parse, R2 declared exactly once, R3 no reserved word, R4 modules defined once, R5 ports/'
        'parameters exist with equal widths, R6 exactly one driver of the right kind, R7 legal parameters/replications, R8 same '
        'module name => same port list. non-trivial = text with at least one module instance or procedural block')
ASSUMPTIONS = ['Verilog-2005 front end in mc/vlog is the judge of legality (its own reserved-word list from IEEE 1364-2005 Annex B)',
               'distinct port names within one Logic and distinct child names are the user\'s responsibility (py4hw enforces the latter)',
               'top-level wires poked by the harness are external drivers',
               'generation that raises is a refusal (counted), not a violation']
BOUNDS = {'quick': 'catalogue at quick grids, naming grid over 6 names (4320 wrappers + 120 top-level namings), every reserved word as an input and as an in/out port name, 6 clock-driver and 2 Interface variants, hist H = 2 (365 histories)',
          'thorough': 'catalogue at thorough grids, naming grid over 10 names (72000 wrappers + 720 top-level namings), hist H = 3 (2925 histories)'}

NAMES_T = ['a', 'w_a', 'i_a', 'reg', 'wire', 'output', 'signed', 'clk', 'r', 'q']
NAMES_Q = ['a', 'w_a', 'i_a', 'reg', 'clk', 'q']
CHUNK = 60


def naming_space(tier):
    N = NAMES_T if tier == 'thorough' else NAMES_Q
    out = []
    for p0, p1, p2 in itertools.permutations(N, 3):
        for l in N:
            for c0 in N:
                out.append(('wrap', p0, p1, p2, l, c0))
    for x, y, z in itertools.permutations(N, 3):
        out.append(('top', x, y, z))
    # a block that uses, besides its own local wire <name>, a caller-owned wire of the same name that is not one of its ports
    for l in N:
        out.append(('alias', l))
    # every IEEE 1364-2005 reserved word as a port name of a non-inlined block
    from mc.vlog.lexer import RESERVED_2005
    for word in sorted(RESERVED_2005):
        out.append(('resv', word))
    # ... and as the name of an in/out port (a pad cell whose bidirectional pin carries the word)
    for word in sorted(RESERVED_2005):
        out.append(('resvio', word))
    # clock drivers built with / without their optional clock wire, on a sub-block and on the system itself
    for v in ('sub_wire', 'sub_wire_reg', 'sub_nowire', 'top_nowire', 'sub_nowire_gated', 'two_subs_nowire'):
        out.append(('clkdrv', v))
    # structural blocks whose ports are created from an Interface (forward signals and a back channel)
    for v in ('named', 'unnamed'):
        out.append(('iface', v))
    return out


def z_bit(parent, z):
    b = parent.wire('zb')
    py4hw.Bit(parent, 'zbit', z, 0, b)
    return b


def build_naming(g):
    hw = py4hw.HWSystem()
    if g[0] == 'wrap':
        _, p0, p1, p2, l, c0 = g
        x, y, z = hw.wire('x'), hw.wire('y'), hw.wire('z')
        W = Logic(hw, 'dut')
        W.addIn(p0, x)
        W.addIn(p1, y)
        W.addOut(p2, z)
        lw = W.wire(l)
        py4hw.And2(W, 'g0', x, y, lw)
        py4hw.Reg(W, c0, lw, z)
        return hw, ['w_x', 'w_y']
    if g[0] == 'iface':
        x = hw.wire('x')
        itf = py4hw.Interface(hw, 'ch')
        data, valid = itf.addSourceToSink('data', 2), itf.addSourceToSink('valid', 1)
        ready = itf.addSinkToSource('ready', 1)
        pfx = ('m', 's') if g[1] == 'named' else ('', '')
        P = Logic(hw, 'prod')
        P.addIn('x', x)
        P.addInterfaceSource(pfx[0], itf)
        py4hw.Constant(P, 'kd', 3, data)
        py4hw.And2(P, 'av', x, ready, valid)
        C = Logic(hw, 'cons')
        C.addInterfaceSink(pfx[1], itf)
        z = hw.wire('z', 2)
        C.addOut('z', z)
        rq = C.wire('rq')
        py4hw.Reg(C, 'r', data, z, enable=valid)
        py4hw.Reg(C, 'rr', z_bit(C, z), rq)
        py4hw.Not(C, 'n', rq, ready)
        return hw, ['w_x']
    if g[0] == 'clkdrv':
        v = g[1]
        x, z, z2 = hw.wire('x'), hw.wire('z'), hw.wire('z2')
        W = Logic(hw, 'dut')
        W.addIn('p_in', x)
        W.addOut('p_out', z)
        py4hw.Reg(W, 'r0', x, z)
        py4hw.Reg(hw, 'rtop', z, z2)
        if v == 'sub_wire':
            ck = hw.wire('clk25')
            py4hw.Buf(hw, 'ckbuf', x, ck)
            W.clockDriver = py4hw.ClockDriver('clk25', 25E6, wire=ck)
        elif v == 'sub_wire_reg':
            # a derived clock: the wire is produced by a register (an instance, not an assign) and read by nothing but the domain
            ck, nck = hw.wire('clk25'), hw.wire('nclk25')
            tg = hw.wire('tg')
            py4hw.Reg(hw, 'tgr', nck, tg)
            py4hw.Not(hw, 'tgn', tg, nck)
            py4hw.Reg(hw, 'ckreg', tg, ck)
            W.clockDriver = py4hw.ClockDriver('clk25', 25E6, wire=ck)
        elif v == 'sub_nowire':
            W.clockDriver = py4hw.ClockDriver('clk25', 25E6)
        elif v == 'sub_nowire_gated':
            W.clockDriver = py4hw.ClockDriver('gclk', base=hw.clockDriver, enable=x)
        elif v == 'two_subs_nowire':
            W.clockDriver = py4hw.ClockDriver('clk25', 25E6)
            W2 = Logic(hw, 'dut2')
            W2.addIn('p_in', z)
            z3 = hw.wire('z3')
            W2.addOut('p_out', z3)
            py4hw.Reg(W2, 'r0', z, z3)
            W2.clockDriver = py4hw.ClockDriver('clk50', 50E6)
        else:
            hw.clockDriver = py4hw.ClockDriver('sysclk', 1E6)
        return hw, ['w_x']
    if g[0] == 'resv':
        word = g[1]
        x, z = hw.wire('x'), hw.wire('z')
        W = Logic(hw, 'dut')
        W.addIn(word, x)
        W.addOut('p_out', z)
        py4hw.Reg(W, 'r0', x, z)
        return hw, ['w_x']
    if g[0] == 'resvio':
        word = g[1]
        x, z, oe = hw.wire('x'), hw.wire('z'), hw.wire('oe')
        bd = hw.bidir_wire('bd', 1)
        py4hw.Constant(hw, 'koe', 1, oe)
        W = Logic(hw, 'dut')
        W.addOut('pin', z)
        W.addIn('pout', x)
        W.addIn('poe', oe)
        W.addInOut(word, bd)
        py4hw.BidirBuf(W, 'buf', z, x, oe, bd)
        return hw, ['w_x', 'w_bd']
    if g[0] == 'alias':
        l = g[1]
        x, y, z = hw.wire('x'), hw.wire('y'), hw.wire('z')
        W = Logic(hw, 'dut')
        W.addIn('p0', x)
        W.addIn('p1', y)
        W.addOut('p2', z)
        lw = W.wire(l)
        ow = hw.wire(l)
        py4hw.And2(W, 'g0', x, y, lw)
        py4hw.Buf(W, 'g1', lw, ow)
        py4hw.Reg(W, 'r0', ow, z)
        return hw, ['w_x', 'w_y']
    _, xn, yn, zn = g
    x, y, z = hw.wire(xn), hw.wire(yn), hw.wire(zn)
    m = hw.wire('m')
    py4hw.And2(hw, 'g0', x, y, m)
    py4hw.Reg(hw, 'r0', m, z)
    return hw, ['w_' + xn, 'w_' + yn]


def twin_pairs(tier):
    """blocks emitted under the same module name, and different configurations of one class, side by side"""
    return catalog.twin_pairs(tier) + catalog.class_pairs(tier)


build_twin = catalog.build_twin


def gen_programs(tier):
    from mc import progen
    progs = progen.programs(tier)
    keep = [i for i, p in enumerate(progs) if i % 7 == 0 or p['family'] in progen.STRUCT]
    return progs, keep


def items(tier):
    out = [('cat', i) for i in range(len(c01._designs(tier)))]
    out += [('twin', i) for i in range(len(twin_pairs(tier)))]
    out += [('name', i) for i in range(len(naming_space(tier)))]
    return out


HIST_OPS = ['G1r', 'G2', 'G3', 'G4', 'L', 'P', 'S', 'M']
HIST_KINDS = ['comb', 'seq', 'fsm', 'multiclk', 'beh', 'lanes']


def hist_space(tier):
    """(circuit of C19, request/simulation/edit history): the text of a hierarchy request made AFTER the history - on the
    generator that served the history and on a fresh one - is linted like any other text"""
    H = 3 if tier == 'thorough' else 2
    return [(k, list(h)) for k in HIST_KINDS for n in range(H + 1) for h in itertools.product(HIST_OPS, repeat=n)]


def hist_texts(kind, hist):
    from mc.props import c19
    with core.quiet():
        c = c19.build(kind)
        for op in hist:
            if op == 'S':
                for w, v in zip(c.free, c19.INPUTS[c.step % len(c19.INPUTS)]):
                    w.put(v)
                c.sim.clk(1)
                c.step += 1
            elif op == 'M':
                if not c.edited:
                    c.edit()
                    c.edited = True
                    c.sim = c.sys.getSimulator()
            else:
                try:
                    c19.request(c, op, None)
                except Exception:
                    pass
        ext = ['w_' + w.name for w in c.free]
        texts = []
        for g in (c.gen, py4hw.VerilogGenerator(c.sys)):
            try:
                texts.append(g.getVerilogForHierarchy())
            except Exception:
                texts.append(None)
    return texts, ext


def shards(tier):
    counts = {'cat': len(c01._designs(tier)), 'twin': len(twin_pairs(tier)), 'name': len(naming_space(tier)),
              'gen': len(gen_programs(tier)[1]), 'hist': len(hist_space(tier))}
    out = []
    for fam, n in counts.items():
        ch = CHUNK * (8 if fam == 'name' else 1)
        for lo in range(0, n, ch):
            out.append({'tier': tier, 'family': fam, 'lo': lo, 'hi': min(n, lo + ch)})
    return out


HEX = re.compile(r'_[0-9a-f]{8,}\b')


def module_signatures(text):
    """name -> (ports tuple, body digest) for every module in the text"""
    sigs = {}
    try:
        mods = VP.parse(text)
    except VlogError:
        return sigs
    chunks = re.split(r'\bendmodule\b', text)
    for m, ch in zip(mods, chunks):
        ports = tuple((p.dir, p.name, repr(_rng(p.range))) for p in m.ports)
        body = sorted(l.strip() for l in HEX.sub('_ID', ch).split('\n') if l.strip() and not l.strip().startswith('//'))
        sigs[m.name] = (ports, hashlib.sha1('\n'.join(body).encode()).hexdigest()[:12])
    return sigs


def _rng(r):
    if r is None:
        return None
    try:
        return (V.const_eval(r[0], {}), V.const_eval(r[1], {}))
    except VlogError:
        return 'param'


def check_text(text, external, fam, label, res, desc):
    res['evaluations'] += 1
    if 'always' in text or re.search(r'\bi_\w+\s*\(', text):
        res['distinct_nontrivial'] += 1
    res['_outcomes'].add(hashlib.sha1(HEX.sub('_ID', text).encode()).hexdigest())

    def viol(rule, msg):
        norm = re.sub(r'\d+', '#', HEX.sub('_ID', msg))
        norm = re.sub(r'\(line #\)', '', norm).strip()[:90]
        sig = 'C03:%s:%s:%s' % (rule, label, norm)
        if sum(1 for v in res['violations'] if v['sig'] == sig) < 2:
            res['violations'].append({'sig': sig, 'shard': desc, 'trace': [], 'detail': {'rule': rule, 'message': msg}})
    try:
        d = V.elaborate(text, external=external, lint_only=True)
    except ParseError as e:
        viol('R1', 'text does not parse: %s' % e)
        return
    except V.ElabError as e:
        viol('R4' if 'not defined' in str(e) else 'R5', str(e))
        return
    except V.Unsupported as e:
        res['outside_subset'] += 1
        return
    for rule, mod, msg in d.issues:
        viol(rule, '%s: %s' % (HEX.sub('_ID', mod), msg))
    for nm, sg in module_signatures(text).items():
        if not HEX.search(nm) and nm != 'HWSystem':
            res['modsigs'].setdefault(nm, {}).setdefault(repr(sg[0]), [sg[1], label, desc])
            res['modbodies'].setdefault(nm, {}).setdefault(sg[1], [label, desc])


def run_shard(d):
    res = {'evaluations': 0, 'distinct_nontrivial': 0, 'refused': 0, 'constructor_rejected': 0, 'outside_subset': 0,
           'violations': [], 'samples': [], '_outcomes': set(), 'modsigs': {}, 'modbodies': {}}
    tier, fam = d['tier'], d['family']
    gm = None
    if fam == 'gen':
        from mc.props import c02
        progs, keep = gen_programs(tier)
        sel = keep[d['lo']:d['hi']]
        gm = c02.GenModule([progs[i] for i in sel], 'c03_%d' % d['lo'])
    try:
        _run_items(d, res, tier, fam, gm)
    finally:
        if gm:
            gm.close()
    res['distinct_outcomes'] = len(res.pop('_outcomes'))
    res['vacuous_ok'] = True
    return res


def _run_items(d, res, tier, fam, gm):
    for i in range(d['lo'], d['hi']):
        desc = {'family': fam, 'index': i, 'tier': tier}
        if fam == 'hist':
            kind, hist = hist_space(tier)[i]
            desc['design'] = 'C19 circuit %s after %s' % (kind, ' '.join(hist) or '(nothing)')
            texts, ext = hist_texts(kind, hist)
            for which, text in zip(('reused', 'fresh'), texts):
                if text is None:
                    res['refused'] += 1
                else:
                    check_text(text, ext, fam, 'hist:%s:%s' % (kind, which), res, desc)
            continue
        try:
            if fam == 'cat':
                s, c, p = c01._designs(tier)[i]
                label = '%s:%s' % (s, c.get('block'))
                desc['design'] = catalog.name(s, c, p)
                with core.quiet():
                    dd = catalog.build(s, c, p)
                sys_, ext = dd.sys, ['w_' + w.name for _, w in dd.ins]
                if any(isinstance(l, py4hw.BidirBuf) for l in sys_.allLeaves()):
                    ext.append('w_bd')
            elif fam == 'twin':
                nm, a, b = twin_pairs(tier)[i]
                label = 'twin:%s' % re.sub(r'\d+', '#', nm)
                desc['design'] = 'twin %s: %s | %s' % (nm, catalog.name(*a), catalog.name(*b))
                with core.quiet():
                    sys_, ins, outs = build_twin(a, b)
                ext = ['w_' + w.name for _, w in ins]
            elif fam == 'gen':
                from mc.props import c02
                progs, keep = gen_programs(tier)
                p = progs[keep[i]]
                label = 'gen:%s:%s' % (p['kind'], p['family'])
                desc['design'] = p['body']
                with core.quiet():
                    sys_, ins, outs, dut = c02.build_gen(gm.cls(i - d['lo']), p)
                ext = ['w_a', 'w_b']
            else:
                g = naming_space(tier)[i]
                label = 'naming:%s' % g[0]
                desc['design'] = list(g)
                with core.quiet():
                    sys_, ext = build_naming(g)
        except Exception as e:
            core.reset_prepared()
            res['constructor_rejected'] += 1
            continue
        try:
            text = c01.generate(sys_)
        except Exception as e:
            res['refused'] += 1
            continue
        check_text(text, ext, fam, label, res, desc)
        if len(res['samples']) < 1:
            res['samples'].append({'design': desc['design'], 'text_head': text[:300]})


def finish(cov, results, tier):
    # R8: same module name => same interface, across everything generated in this run
    merged = {}
    for r in results:
        for nm, bysig in r.get('modsigs', {}).items():
            for ports, info in bysig.items():
                merged.setdefault(nm, {}).setdefault(ports, info)
        r.pop('modsigs', None)
    n = 0
    for nm, bysig in sorted(merged.items()):
        if len(bysig) > 1:
            n += 1
            (pa, ia), (pb, ib) = list(bysig.items())[:2]
            results[0]['violations'].append({
                'sig': 'C03:R8:%s' % re.sub(r'\d+', '#', nm), 'shard': ia[2], 'trace': [],
                'detail': {'rule': 'R8', 'message': 'module name %s is emitted with different port lists' % nm,
                           'ports_1': pa, 'from_1': ia[2].get('design'), 'ports_2': pb, 'from_2': ib[2].get('design')}})
    # same name and same ports but a different body: the instance would be bound to whichever body was emitted first
    bodies = {}
    for r in results:
        for nm, byb in r.get('modbodies', {}).items():
            for h, info in byb.items():
                bodies.setdefault(nm, {}).setdefault(h, info)
        r.pop('modbodies', None)
    nb = 0
    for nm, byb in sorted(bodies.items()):
        if len(byb) > 1 and len(merged.get(nm, {})) <= 1:
            nb += 1
            (ha, ia), (hb, ib) = list(byb.items())[:2]
            results[0]['violations'].append({
                'sig': 'C03:R8body:%s' % re.sub(r'\d+', '#', nm), 'shard': ia[1], 'trace': [],
                'detail': {'rule': 'R8', 'message': 'module name %s is emitted with the same ports but different bodies' % nm,
                           'from_1': ia[1].get('design'), 'from_2': ib[1].get('design')}})
    cov['shared_module_names_with_conflicting_body'] = nb
    cov['shared_module_names_seen'] = len(merged)
    cov['shared_module_names_with_conflicting_interface'] = n
    cov['outside_subset'] = sum(r.get('outside_subset', 0) for r in results)


def replay(v):
    d = v['shard']
    tier, fam, i = d['tier'], d['family'], d['index']
    if fam == 'cat':
        s, c, p = c01._designs(tier)[i]
        dd = catalog.build(s, c, p)
        sys_, ext = dd.sys, ['w_' + w.name for _, w in dd.ins]
    elif fam == 'twin':
        nm, a, b = twin_pairs(tier)[i]
        sys_, ins, outs = build_twin(a, b)
        ext = ['w_' + w.name for _, w in ins]
    elif fam == 'gen':
        from mc.props import c02
        progs, keep = gen_programs(tier)
        p = progs[keep[i]]
        gm = c02.GenModule([p], 'c03replay')
        sys_, ins, outs, dut = c02.build_gen(gm.cls(0), p)
        ext = ['w_a', 'w_b']
    elif fam == 'hist':
        kind, hist = hist_space(tier)[i]
        texts, ext = hist_texts(kind, hist)
        which = 0 if ':reused:' in v['sig'] else 1
        text = texts[which]
    else:
        sys_, ext = build_naming(naming_space(tier)[i])
    if fam != 'hist':
        text = c01.generate(sys_)
    out = {'design': d.get('design'), 'text': HEX.sub('_ID', text)}
    try:
        dsg = V.elaborate(text, external=ext, lint_only=True)
        out['issues'] = [list(x) for x in dsg.issues]
        out['violates'] = bool(dsg.issues)
    except VlogError as e:
        out['error'] = '%s: %s' % (type(e).__name__, e)
        out['violates'] = not isinstance(e, V.Unsupported)
    if v['sig'].startswith('C03:R8'):
        out['violates'] = True
        out['note'] = 'R8 is a cross-design finding; see detail of the violation record'
    return out
