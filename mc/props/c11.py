"""C11 -- ill-formed netlists are rejected when they are built or checked.

Part 'seq'  : explicit-state BFS over the reference netlist model
              (mc.refmodels.netlist); every transition is executed on fresh real
              py4hw objects by replaying the operation history, then compared.
Part 'blk'  : library catalogue at width 2: checkIntegrity acceptance, single
              undriven input, single removed internal driver, duplicated driver.
"""
import json

import py4hw
import py4hw.debug
from py4hw.base import Logic, Wire, BidirWire, HWSystem, disconnectWireFromLogicObject

from mc import core
from mc.refmodels import netlist as nl

LEVEL = 'model_checking'
RULE = ('seq: breadth-first over reference-netlist states (dedup on the full observable structure), all enabled '
        'operations of the alphabet {Wire x|y in top|child, Buf u|v, Constant v|k, Logic top/c top/u c/u, '
        'wrapper(addOut on wire + inner Constant), rename, reparent, reparentAndRename, disconnectWireFromLogicObject(wire, top-level child)} at every state up to depth D; '
        'every transition = the operation history replayed on a fresh HWSystem and compared (must-raise per the '
        'statement, earlier child/wire/driver identity, full structure); non-trivial = transitions whose call must '
        'raise.  blk: per catalogue block one correct design (all inputs driven by Constant), one design per '
        'undriven top-level input, one per removed internal driver (plain disconnect, and disconnect with the '
        'dangling out-port re-attached to a fresh driven wire), one duplicated driver; expected verdict of '
        'checkIntegrity from an independent traversal (any in/out port on a wire without source).  names: every history of <= D '
        'calls over the wire-creating APIs (Logic.wire, Wire(), Logic.wires, bidir_wire, Interface.addSourceToSink / addSinkToSource on '
        'new Interface objects, removeSourceToSink) with names chosen to collide: a call asking for an existing name raises and the '
        'earlier wire stays, a call with new names succeeds and registers what it hands out; and for 6 library primitives a structural '
        'user class with the same short class name instantiated before / after the primitive (driver registered, second driver refused, '
        'integrity check accepts)')
ASSUMPTIONS = [
    'a parent\'s wires/children are what Logic._wires / Logic.children hold (the anchors\' definition) AND what the wire objects '
    'themselves say (Wire.parent, Wire.name): two wire objects handed to the caller never claim the same (parent, name), listed or not; '
    'a wire object that a refused rename/reparent has merely taken out of its parent\'s table is recorded as an observation',
    'side effects of a refused constructor that the statement does not forbid (half-built child registered under its '
    'own new name, reader registered on the input wire) are modelled in mc/refmodels/netlist.py and cross-checked '
    'against the live objects on every transition',
    'after disconnectWireFromLogicObject the former driver\'s port has wire None; the statement speaks of ports '
    'attached to wires, so plain-disconnect cases where no port remains on the undriven wire are skipped (counted), '
    'and a second variant re-attaches that port to a fresh driven wire so the undriven wire is the only defect',
    'in-out ports / BidirWire are outside the statement ("ordinary (unidirectional) wire") and not inspected',
]
BOUNDS = {
    'quick': 'seq: all operation sequences up to depth 5 with <= 3 wires alive (names x/y in top or child c; children '
             'u/v/k/c); blk: 102 catalogue designs at width 2, every single fault of each',
    'thorough': 'seq: depth 7 with <= 4 wires; blk: catalogue at widths 2 and 3',
}
for k in ('quick', 'thorough'):
    BOUNDS[k] += '; also the same name given twice in 13 spellings (children and wires, top level and inside a block)'
TIERS = {
    'quick': {'seq': [(5, 3)], 'L': 2, 'widths': (2,)},
    'thorough': {'seq': [(7, 4)], 'L': 3, 'widths': (2, 3)},
}


# ===========================================================================
# part 1: construction sequences
# ===========================================================================

def _tup(x):
    return tuple(_tup(y) for y in x) if isinstance(x, (list, tuple)) else x


class Real:
    """The live side: a fresh HWSystem plus the wires created so far (handle order)."""

    def __init__(self):
        self.top = HWSystem()
        self.clk = self.top._wires.get('clk')
        self.W = []

    def obj(self, path):
        o = self.top
        for n in path:
            o = o.children[n]
        return o

    def do(self, op):
        """Executes op; returns None if accepted, else repr of the exception."""
        k = op[0]
        try:
            if k == 'wire':
                w = Wire(self.obj(op[1]), op[2], 1)
                self.W.append(w)
            elif k == 'logic':
                Logic(self.obj(op[1]), op[2])
            elif k == 'buf':
                py4hw.Buf(self.top, op[1], self.W[op[2]], self.W[op[3]])
            elif k == 'const':
                py4hw.Constant(self.top, op[1], 1, self.W[op[2]])
            elif k == 'wrap':
                L = Logic(self.top, op[1])
                L.addOut('r', self.W[op[2]])
                py4hw.Constant(L, 'k', 1, self.W[op[2]])
            elif k == 'disc':
                disconnectWireFromLogicObject(self.W[op[1]], self.top.children[op[2]])
            elif k == 'rename':
                self.W[op[1]].rename(op[2])
            elif k == 'reparent':
                self.W[op[1]].reparent(self.obj(op[2]))
            elif k == 'reparentAndRename':
                self.W[op[1]].reparentAndRename(self.obj(op[2]), op[3])
            else:
                raise core.HarnessError('unknown op %r' % (op,))
        except core.HarnessError:
            raise
        except Exception as e:
            return '%s: %s' % (type(e).__name__, str(e)[:120])
        return None

    def abstract(self):
        """Same shape as nl.Net.key(), read from the live objects."""
        ids, order = {}, []

        def walk(o, path):
            ids[id(o)] = path
            order.append((path, o))
            for n, c in getattr(o, 'children', {}).items():
                walk(c, path + (n,))
        walk(self.top, ())
        wh = {id(w): h for h, w in enumerate(self.W)}
        wh[id(self.clk)] = nl.CLK

        def H(w):
            return None if w is None else wh.get(id(w), '?')

        def port(p):
            return (ids.get(id(p.parent), '?'), p.name)
        objs = tuple((path, type(o).__name__, tuple(getattr(o, 'children', {}).keys()),
                      tuple(sorted(((n, H(w)) for n, w in getattr(o, '_wires', {}).items()), key=repr)),
                      tuple((p.name, H(p.wire)) for p in getattr(o, 'inPorts', [])),
                      tuple((p.name, H(p.wire)) for p in getattr(o, 'outPorts', [])))
                     for path, o in sorted(order, key=lambda t: t[0]))
        wires = tuple((w.name, ids.get(id(w.parent), '?'),
                       None if w.source is None else port(w.source),
                       tuple(port(p) for p in w.sinks)) for w in self.W)
        return (objs, wires)

    def entity(self, c):
        if c[0] == 'child':
            return self.obj(c[1]).children.get(c[2])
        if c[0] == 'wire':
            return self.obj(c[1])._wires.get(c[2])
        w = self.W[c[1]]
        if w.source is not None:
            return w.source
        # no registered source: the driver is the primitive block whose output port is attached to the wire
        for leaf in self.top.allLeaves():
            if leaf is not self.top and leaf.isPrimitive():
                for p in leaf.outPorts:
                    if p.wire is w:
                        return p
        return None


def _descr(x, real=None):
    if x is None:
        return None
    if isinstance(x, Wire):
        h = [i for i, w in enumerate(real.W) if w is x] if real else []
        return 'Wire #%s (name=%s)' % (h[0] if h else '?', x.name)
    if isinstance(x, Logic):
        return '%s(name=%s)' % (type(x).__name__, x.name)
    return '%s port %s of %s' % (type(x).__name__, getattr(x, 'name', '?'), getattr(getattr(x, 'parent', None), 'name', '?'))


def check_transition(hist, op, pre):
    """Replays hist on fresh objects, applies op, compares with statement + model.

    -> dict: 'kind' in {'ok','raise','refused'} or 'violation': (kind, detail) or 'diverged': detail;
             'post' = model state after the call (None when not to be expanded)."""
    real = Real()
    for h in hist:
        real.do(h)
    conf = nl.conflicts(pre, op)
    before = [real.entity(c) for c in conf]
    if any(b is None for b in before):
        raise core.HarnessError('model says %r exists before %r but the live objects do not have it' % (conf, op))
    exc = real.do(op)
    if conf:
        after = [real.entity(c) for c in conf]
        replaced = [c for c, b, a in zip(conf, before, after) if a is not b]
        if exc is None or replaced:
            kind = 'not-raised' if exc is None else 'earlier-%s-replaced' % replaced[0][0]
            return {'violation': (kind, {
                'conflict_with': [list(map(str, c)) for c in conf], 'raised': exc,
                'earlier_entities': [_descr(b, real) for b in before],
                'now_in_their_place': [_descr(a, real) for a in after],
                'earlier_entity_still_in_place': [a is b for a, b in zip(after, before)],
                'statement': 'the call that would create the conflict raises an error and the earlier driver, '
                             'child or wire stays in place'}), 'post': None}
    # a wire of parent P named n is a Wire object whose own parent/name fields say so (what getFullPath() shows), whether or
    # not P's table still lists it: after ANY call, accepted or refused, no two wire objects may claim the same (parent, name)
    claim = {}
    for h, w in enumerate(real.W):
        k = (id(w.parent), w.name)
        if k in claim:
            return {'violation': ('two-wire-objects-claim-one-name', {
                'raised': exc, 'wires': [claim[k], h], 'name': w.name, 'parent': _descr(w.parent, real),
                'listed_in_parent_table': [real.W[claim[k]].parent._wires.get(w.name) is real.W[claim[k]],
                                           w.parent._wires.get(w.name) is w],
                'statement': 'a parent never ends up with two wires of the same name'}), 'post': None}
        claim[k] = h
    outcome, post = nl.apply(pre, op)
    got = real.abstract()
    if ((exc is None) != (outcome == 'ok') or got != post.key()) and op[0] in ('rename', 'reparent', 'reparentAndRename'):
        # follow an implementation that mutates the wire before validating the destination (the statement does not
        # forbid that residue by itself; what it forbids - a later call silently evicting the other wire - is then
        # found on the following transitions)
        outcome2, post2 = nl.apply(pre, op, residue=True)
        if (exc is None) == (outcome2 == 'ok') and got == post2.key():
            outcome, post = outcome2, post2
    if ((exc is None) != (outcome == 'ok') or got != post.key()) and op[0] == 'disc':
        # follow an implementation that disconnects by the object's own port list (structural blocks too); whether that leads
        # to a wire with two drivers is decided by the statement's rule on the following transitions
        outcome2, post2 = nl.apply(pre, op, general=True)
        if (exc is None) == (outcome2 == 'ok') and got == post2.key():
            outcome, post = outcome2, post2
    if (exc is None) != (outcome == 'ok') or got != post.key():
        det = {'model_outcome': outcome, 'raised': exc, 'model': repr(post.key())[:1500], 'live': repr(got)[:1500]}
        if exc is None:
            return {'violation': ('structure', det), 'post': None}
        if got == pre.key():
            # refused without any side effect (cleaner than the modelled residue): nothing to expand
            return {'kind': 'raise' if conf else 'refused', 'post': pre, 'conf': conf, 'exc': exc}
        return {'diverged': det, 'post': None}
    kind = 'ok' if exc is None else ('raise' if conf else 'refused')
    return {'kind': kind, 'post': post, 'conf': conf, 'exc': exc}


def _model_bfs(L, max_wires):
    """Model-only BFS to depth L -> (levels: list of list of (net, hist)), all keys)."""
    init = nl.Net()
    seen = {init.key()}
    levels = [[(init, [])]]
    for _ in range(L):
        nxt = []
        for net, hist in levels[-1]:
            for op in nl.enabled_ops(net, max_wires):
                _, post = nl.apply(net, op)
                k = post.key()
                if k not in seen:
                    seen.add(k)
                    nxt.append((post, hist + [op]))
        levels.append(nxt)
    return levels, seen


def seq_shards(tier):
    out = []
    T = TIERS[tier]
    for D, mw in T['seq']:
        L = min(T['L'], D)
        levels, _ = _model_bfs(L, mw)
        out.append({'part': 'seq', 'D': D, 'max_wires': mw, 'L': L, 'root': True, 'prefix': []})
        for net, hist in levels[L]:
            out.append({'part': 'seq', 'D': D, 'max_wires': mw, 'L': L, 'root': False,
                        'prefix': [list(o) for o in hist]})
    return out


def run_seq(d):
    D, mw, L = d['D'], d['max_wires'], d['L']
    prefix = [_tup(o) for o in d['prefix']]
    levels, shallow = _model_bfs(L, mw)
    if d['root']:
        start, depth_budget = nl.Net(), L
        seen = {start.key()}
    else:
        start = nl.Net()
        for op in prefix:
            _, start = nl.apply(start, op)
        depth_budget = D - L
        seen = set(shallow)            # states of depth <= L are expanded by the root / their own shard
        seen.add(start.key())
    res = {'states': 1, 'transitions': 0, 'traces_validated_against_impl': 0, 'evaluations': 0,
           'distinct_nontrivial': 0, 'refused': 0, 'pruned': 0, 'violations': [], 'capped': False,
           'observations': {'wire_left_unregistered_after_refused_call': 0,
                            'wire_evicted_by_accepted_call': 0}}
    outcomes = set()
    samples = []
    seen_sig = set()
    frontier = [(start, prefix)]
    for depth in range(depth_budget):
        nxt = []
        for net, hist in frontier:
            for op in nl.enabled_ops(net, mw):
                r = check_transition(hist, op, net)
                res['transitions'] += 1
                res['traces_validated_against_impl'] += 1
                if 'violation' in r:
                    kind, det = r['violation']
                    opname = op[0]
                    if op[0] in ('rename', 'reparent', 'reparentAndRename') and not net.registered(op[1]):
                        opname += '-of-wire-dropped-by-refused-call'
                    sig = 'C11:seq:%s:%s' % (kind, opname)
                    outcomes.add('violation')
                    if sig not in seen_sig:      # BFS: the first one is a shortest one in this shard
                        seen_sig.add(sig)
                        res['violations'].append({'sig': sig, 'shard': {'part': 'seq'},
                                                  'trace': [list(o) for o in hist + [op]], 'detail': det})
                    continue
                if 'diverged' in r:
                    res['pruned'] += 1
                    res['capped'] = True
                    if len(samples) < 4:
                        samples.append({'unmodelled_residue_after': [list(o) for o in hist + [op]], **r['diverged']})
                    continue
                outcomes.add((r['kind'], op[0], tuple(c[0] for c in r['conf'])))
                if r['kind'] == 'raise':
                    res['distinct_nontrivial'] += 1
                elif r['kind'] == 'refused':
                    res['refused'] += 1
                post = r['post']
                un_pre, un_post = set(net.unregistered_wires()), set(post.unregistered_wires())
                if un_post - un_pre:
                    key = 'wire_left_unregistered_after_refused_call' if r['kind'] != 'ok' else 'wire_evicted_by_accepted_call'
                    res['observations'][key] += 1
                k = post.key()
                if k not in seen:
                    seen.add(k)
                    res['states'] += 1
                    nxt.append((post, hist + [op]))
                    if len(samples) < 2 and r['kind'] == 'raise' and len(hist) >= 2:
                        samples.append({'history': [list(o) for o in hist + [op]], 'last_call': 'raised: ' + r['exc'],
                                        'conflict': [list(map(str, c)) for c in r['conf']]})
        frontier = nxt
    res['distinct_outcomes'] = len(outcomes)
    res['vacuous_ok'] = True        # deep shards may legitimately see few outcome classes; the root shard does not
    res['samples'] = samples
    res['configs'] = 1
    return res


def replay_seq(v):
    trace = [_tup(o) for o in v['trace']]
    net = nl.Net()
    steps = []
    bad = None
    for i, op in enumerate(trace):
        r = check_transition(trace[:i], op, net)
        if 'violation' in r:
            steps.append({'op': list(op), 'violation': r['violation'][0], 'detail': r['violation'][1]})
            bad = i
            break
        if 'diverged' in r:
            steps.append({'op': list(op), 'diverged': r['diverged']})
            break
        steps.append({'op': list(op), 'outcome': r['kind'], 'raised': r['exc']})
        net = r['post']
    return {'steps': steps, 'violates': bad is not None, 'first_bad_step': bad}


# ===========================================================================
# parts 2+3: catalogue, acceptance, single faults
# ===========================================================================

class Shell(Logic):
    """A structural wrapper written for the check: ports on both wires, one inner Buf."""

    def __init__(self, parent, name, a, r):
        super().__init__(parent, name)
        self.addIn('a', a)
        self.addOut('r', r)
        m = self.wire('m', a.getWidth())
        py4hw.Buf(self, 'b0', a, m)
        py4hw.Buf(self, 'b1', m, r)


def _catalogue(w):
    """name -> (inputs [(n,width)], outputs [(n,width)], ctor(hw, I, O)).  w = data width."""
    C = {}
    P = py4hw

    def add(name, ins, outs, ctor):
        C[name] = (ins, outs, ctor)

    ab, r = [('a', w), ('b', w)], [('r', w)]
    for cls in ('And2', 'Nand2', 'Nor2', 'Or2', 'Xor2', 'Add', 'Sub', 'Div', 'Mod', 'SignedDiv', 'Max2', 'Min2',
                'SignedMax2', 'SignedMin2', 'SignedAdd', 'SignedSub', 'ShiftLeft', 'ShiftRight', 'RotateLeft',
                'RotateRight'):
        add(cls, ab, r, lambda hw, I, O, cls=cls: getattr(P, cls)(hw, 'dut', I['a'], I['b'], O['r']))
    add('ShiftRight_arith', ab, r, lambda hw, I, O: P.ShiftRight(hw, 'dut', I['a'], I['b'], O['r'], arithmetic=True))
    for cls in ('Mul', 'SignedMul'):
        add(cls, ab, [('r', 2 * w)], lambda hw, I, O, cls=cls: getattr(P, cls)(hw, 'dut', I['a'], I['b'], O['r']))
    add('Add_ci_co', ab + [('ci', 1)], r + [('co', 1)],
        lambda hw, I, O: P.Add(hw, 'dut', I['a'], I['b'], O['r'], ci=I['ci'], co=O['co']))
    add('AddCarryIn', ab + [('ci', 1)], r, lambda hw, I, O: P.AddCarryIn(hw, 'dut', I['a'], I['b'], O['r'], I['ci']))
    add('SubBorrowIn', ab + [('bi', 1)], r, lambda hw, I, O: P.SubBorrowIn(hw, 'dut', I['a'], I['b'], O['r'], I['bi']))
    for cls in ('Buf', 'Not', 'Neg', 'Abs'):
        add(cls, [('a', w)], r, lambda hw, I, O, cls=cls: getattr(P, cls)(hw, 'dut', I['a'], O['r']))
    add('Abs_inverted', [('a', w)], r + [('inv', 1)], lambda hw, I, O: P.Abs(hw, 'dut', I['a'], O['r'], O['inv']))
    add('Sign', [('a', w)], [('r', 1)], lambda hw, I, O: P.Sign(hw, 'dut', I['a'], O['r']))
    for cls in ('SignExtend', 'ZeroExtend'):
        add(cls, [('a', w)], [('r', 2 * w)], lambda hw, I, O, cls=cls: getattr(P, cls)(hw, 'dut', I['a'], O['r']))
    for cls in ('AndBits', 'OrBits'):
        add(cls, [('a', w)], [('r', 1)], lambda hw, I, O, cls=cls: getattr(P, cls)(hw, 'dut', I['a'], O['r']))
    add('Bit', [('a', w)], [('r', 1)], lambda hw, I, O: P.Bit(hw, 'dut', I['a'], w - 1, O['r']))
    bits = [('b%d' % i, 1) for i in range(w)]
    for cls in ('BitsMSBF', 'BitsLSBF'):
        add(cls, [('a', w)], bits,
            lambda hw, I, O, cls=cls: getattr(P, cls)(hw, 'dut', I['a'], [O[n] for n, _ in bits]))
    add('BufEnable', [('a', w), ('en', 1)], r, lambda hw, I, O: P.BufEnable(hw, 'dut', I['a'], I['en'], O['r']))
    add('Constant', [], r, lambda hw, I, O: P.Constant(hw, 'dut', 1, O['r']))
    add('Demux', [('a', w), ('sel', 1)], [('r0', w), ('r1', w)],
        lambda hw, I, O: P.Demux(hw, 'dut', I['a'], I['sel'], [O['r0'], O['r1']]))
    ins3 = [('in%d' % i, w) for i in range(3)]
    for cls in ('And', 'Or', 'Nor', 'Xor'):
        add(cls, ins3, r, lambda hw, I, O, cls=cls: getattr(P, cls)(hw, 'dut', [I[n] for n, _ in ins3], O['r']))
    add('AnyEqual', ins3, [('r', 1)], lambda hw, I, O: P.AnyEqual(hw, 'dut', [I[n] for n, _ in ins3], O['r']))
    for cls in ('ShiftLeftConstant', 'ShiftRightConstant', 'RotateLeftConstant', 'RotateRightConstant'):
        add(cls, [('a', w)], r, lambda hw, I, O, cls=cls: getattr(P, cls)(hw, 'dut', I['a'], 1, O['r']))
    add('Mux_2', [('sel', 1), ('in0', w), ('in1', w)], r,
        lambda hw, I, O: P.Mux(hw, 'dut', I['sel'], [I['in0'], I['in1']], O['r']))
    in4 = [('in%d' % i, w) for i in range(4)]
    add('Mux_4', [('sel', 2)] + in4, r, lambda hw, I, O: P.Mux(hw, 'dut', I['sel'], [I[n] for n, _ in in4], O['r']))
    add('Mux2', [('sel', 1), ('sel0', w), ('sel1', w)], r,
        lambda hw, I, O: P.Mux2(hw, 'dut', I['sel'], I['sel0'], I['sel1'], O['r']))
    add('Repeat', [('i', 1)], r, lambda hw, I, O: P.Repeat(hw, 'dut', I['i'], O['r']))
    sel2 = [('s0', 1), ('s1', 1)]
    in2 = [('in0', w), ('in1', w)]
    for cls in ('Select', 'OneHotMux'):
        add(cls, sel2 + in2, r,
            lambda hw, I, O, cls=cls: getattr(P, cls)(hw, 'dut', [I['s0'], I['s1']], [I['in0'], I['in1']], O['r']))
    add('OneHotDemux', sel2 + [('a', w)], [('o0', w), ('o1', w)],
        lambda hw, I, O: P.OneHotDemux(hw, 'dut', [I['s0'], I['s1']], I['a'], [O['o0'], O['o1']]))
    add('SelectDefault', sel2 + in2 + [('default', w)], r,
        lambda hw, I, O: P.SelectDefault(hw, 'dut', [I['s0'], I['s1']], [I['in0'], I['in1']], I['default'], O['r']))
    dec = [('b%d' % i, 1) for i in range(1 << w)]
    add('Decoder', [('a', w)], dec, lambda hw, I, O: P.Decoder(hw, 'dut', I['a'], [O[n] for n, _ in dec]))
    mb = [('b%d' % i, 1) for i in range(w)]
    add('Minterm', mb, [('r', 1)], lambda hw, I, O: P.Minterm(hw, 'dut', [I[n] for n, _ in mb], 2, O['r']))
    add('SumOfMinterms', [('a', w)], [('r', 1)], lambda hw, I, O: P.SumOfMinterms(hw, 'dut', I['a'], [1, 2], O['r']))
    for cls in ('ConcatenateMSBF', 'ConcatenateLSBF'):
        add(cls, in2, [('r', 2 * w)],
            lambda hw, I, O, cls=cls: getattr(P, cls)(hw, 'dut', [I['in0'], I['in1']], O['r']))
    add('Range', [('a', w)], [('r', w - 1)], lambda hw, I, O: P.Range(hw, 'dut', I['a'], w - 1, 1, O['r']))
    add('Digit7Segment', [('v', 4)], [('led', 7)], lambda hw, I, O: P.Digit7Segment(hw, 'dut', I['v'], O['led']))
    pa = [('a%d' % i, 1) for i in range(3)]
    pr = [('r%d' % i, 1) for i in range(3)]
    add('PriorityEncoder', pa, pr,
        lambda hw, I, O: P.PriorityEncoder(hw, 'dut', [I[n] for n, _ in pa], [O[n] for n, _ in pr]))
    add('BidirBuf', [('pout', w), ('poe', 1)], [('pin', w)],
        lambda hw, I, O: P.BidirBuf(hw, 'dut', O['pin'], I['pout'], I['poe'], hw.bidir_wire('bd', w)))
    # arithmetic (sequential ones too)
    add('Counter', [('reset', 1), ('inc', 1)], [('q', w)],
        lambda hw, I, O: P.Counter(hw, 'dut', I['reset'], I['inc'], O['q']))
    add('ModuloCounter', [('reset', 1), ('inc', 1)], [('q', w), ('carryout', 1)],
        lambda hw, I, O: P.ModuloCounter(hw, 'dut', 3, I['reset'], I['inc'], O['q'], O['carryout']))
    add('StepUpCounter', [('reset', 1), ('inc', 1), ('step', w)], [('q', w)],
        lambda hw, I, O: P.StepUpCounter(hw, 'dut', I['reset'], I['inc'], I['step'], O['q']))
    add('BinaryToBCD', [('a', w)], [('r', 4)], lambda hw, I, O: P.BinaryToBCD(hw, 'dut', I['a'], O['r']))
    add('CountLeadingZeros', [('a', w)], [('r', w), ('z', 1)],
        lambda hw, I, O: P.CountLeadingZeros(hw, 'dut', I['a'], O['r'], O['z']))
    # relational
    for cls in ('EqualConstant', 'NotEqualConstant'):
        add(cls, [('a', w)], [('r', 1)], lambda hw, I, O, cls=cls: getattr(P, cls)(hw, 'dut', I['a'], 1, O['r']))
    add('Equal', ab, [('r', 1)], lambda hw, I, O: P.Equal(hw, 'dut', I['a'], I['b'], O['r']))
    cmp3 = [('gt', 1), ('eq', 1), ('lt', 1)]
    add('Comparator', ab, cmp3, lambda hw, I, O: P.Comparator(hw, 'dut', I['a'], I['b'], O['gt'], O['eq'], O['lt']))
    add('ComparatorSignedUnsigned', ab, [('gtu', 1), ('eq', 1), ('ltu', 1), ('gt', 1), ('lt', 1)],
        lambda hw, I, O: P.ComparatorSignedUnsigned(hw, 'dut', I['a'], I['b'], O['gtu'], O['eq'], O['ltu'], O['gt'], O['lt']))
    add('FPComparator_SP', [('a', 32), ('b', 32)], cmp3,
        lambda hw, I, O: P.FPComparator_SP(hw, 'dut', I['a'], I['b'], O['gt'], O['eq'], O['lt']))
    add('FixedPointComparator', ab, cmp3,
        lambda hw, I, O: P.FixedPointComparator(hw, 'dut', I['a'], (1, w - 1, 0), I['b'], (1, w - 1, 0), O['gt'], O['eq'], O['lt']))
    add('Swap', ab + [('swap', 1)], [('ra', w), ('rb', w)],
        lambda hw, I, O: P.Swap(hw, 'dut', I['a'], I['b'], I['swap'], O['ra'], O['rb']))
    # storage
    add('Latch', [('d', w), ('enable', 1)], [('q', w)], lambda hw, I, O: P.Latch(hw, 'dut', I['d'], O['q'], I['enable']))
    add('Reg', [('d', w)], [('q', w)], lambda hw, I, O: P.Reg(hw, 'dut', I['d'], O['q']))
    add('Reg_en_rst', [('d', w), ('e', 1), ('rst', 1)], [('q', w)],
        lambda hw, I, O: P.Reg(hw, 'dut', I['d'], O['q'], enable=I['e'], reset=I['rst'], reset_value=1))
    add('TReg', [('t', 1)], [('q', 1)], lambda hw, I, O: P.TReg(hw, 'dut', I['t'], O['q']))
    add('TReg_en_rst', [('t', 1), ('e', 1), ('rst', 1)], [('q', 1)],
        lambda hw, I, O: P.TReg(hw, 'dut', I['t'], O['q'], enable=I['e'], reset=I['rst']))
    add('DelayLine', [('a', w), ('en', 1), ('reset', 1)], r,
        lambda hw, I, O: P.DelayLine(hw, 'dut', I['a'], I['en'], I['reset'], O['r'], 2))
    add('DelayLine_plain', [('a', w)], r, lambda hw, I, O: P.DelayLine(hw, 'dut', I['a'], None, None, O['r'], 2))
    add('PipelinePhase', [('reset', 1), ('in0', w), ('in1', w)], [('out0', w), ('out1', w)],
        lambda hw, I, O: P.PipelinePhase(hw, 'dut', I['reset'], [I['in0'], I['in1']], [O['out0'], O['out1']]))
    mem_i = [('read_address', 1), ('write_address', 1), ('write', 1), ('writedata', w)]
    for cls in ('AsynchronousMemory', 'SynchronousMemory'):
        add(cls, mem_i, [('readdata', w)],
            lambda hw, I, O, cls=cls: getattr(P, cls)(hw, 'dut', I['read_address'], I['write_address'], I['write'],
                                                      O['readdata'], I['writedata']))
    dp_i = [(n + s, wd) for s in ('_a', '_b') for n, wd in mem_i]
    add('DualPortSynchronousMemory', dp_i, [('readdata_a', w), ('readdata_b', w)],
        lambda hw, I, O: P.DualPortSynchronousMemory(
            hw, 'dut', I['read_address_a'], I['write_address_a'], I['write_a'], O['readdata_a'], I['writedata_a'],
            I['read_address_b'], I['write_address_b'], I['write_b'], O['readdata_b'], I['writedata_b']))
    add('ShiftRegisterBidirectional', [('left_in', w), ('right_in', w), ('shift_left', 1), ('shift_right', 1)],
        [('left_out', w), ('right_out', w)],
        lambda hw, I, O: P.ShiftRegisterBidirectional(hw, 'dut', I['left_in'], I['right_in'], O['left_out'],
                                                      O['right_out'], I['shift_left'], I['shift_right'], 2))
    add('Stack_ShiftRegister', [('din', w), ('push', 1), ('pop', 1)], [('dout', w)],
        lambda hw, I, O: P.Stack_ShiftRegister(hw, 'dut', I['din'], O['dout'], I['push'], I['pop'], None, None, 2))
    # clock
    add('GatedClock', [('enin', 1)], [('enout', 1)],
        lambda hw, I, O: P.GatedClock(hw, 'dut', I['enin'], O['enout'], hw.clockDriver))
    add('ClockDivider', [], [('clkout', 1)], lambda hw, I, O: P.ClockDivider(hw, 'dut', 8, 1, O['clkout']))
    add('ClockDivider_reset', [('reset', 1)], [('clkout', 1)],
        lambda hw, I, O: P.ClockDivider(hw, 'dut', 8, 1, O['clkout'], reset=I['reset']))
    for dr in ('pos', 'neg', 'both'):
        add('EdgeDetector_' + dr, [('a', 1)], [('r', 1)],
            lambda hw, I, O, dr=dr: P.EdgeDetector(hw, 'dut', I['a'], O['r'], dr))
    add('AutoReset', [], [('reset', 1)], lambda hw, I, O: P.AutoReset(hw, 'dut', O['reset']))
    # the check's own structural wrapper (an out port whose only defect can be a missing inner driver)
    add('Shell(custom)', [('a', w)], r, lambda hw, I, O: Shell(hw, 'dut', I['a'], O['r']))
    return C


def build_design(block, w, undriven=None):
    """-> hw with the block 'dut', every declared input driven by a Constant except `undriven`."""
    ins, outs, ctor = _catalogue(w)[block]
    hw = HWSystem()
    I = {n: hw.wire('i_' + n, wd) for n, wd in ins}
    O = {n: hw.wire('o_' + n, wd) for n, wd in outs}
    for i, (n, wd) in enumerate(ins):
        if n != undriven:
            py4hw.Constant(hw, 'k_' + n, (i + 1) & ((1 << wd) - 1), I[n])
    ctor(hw, I, O)
    return hw, I, O


def all_ports(hw):
    """(logic, port, 'in'|'out') for every in/out port in the hierarchy."""
    out = []
    for o in core.all_logic(hw):
        for p in o.inPorts:
            out.append((o, p, 'in'))
        for p in o.outPorts:
            out.append((o, p, 'out'))
    return out


def undriven_port_wires(hw):
    """The statement's condition, by an independent traversal: ports attached to a wire that no block drives."""
    bad = []
    for o, p, d in all_ports(hw):
        w = p.wire
        if w is None or isinstance(w, BidirWire) or not isinstance(w, Wire):
            continue
        if w.source is None:
            bad.append('%s[%s] (%s) on wire %s' % (o.getFullPath(), p.name, d, w.getFullPath()))
    return bad


def detached_ports(hw):
    return ['%s[%s]' % (o.getFullPath(), p.name) for o, p, d in all_ports(hw) if p.wire is None]


def integrity(hw):
    try:
        py4hw.debug.checkIntegrity(hw)
    except Exception as e:
        return '%s: %s' % (type(e).__name__, str(e)[:160])
    return None


def driven_wires(hw):
    return [w for w in core.all_wires(hw) if not isinstance(w, BidirWire) and w.source is not None]


def _case(block, w, fault):
    """Builds one (block, fault) case, runs checkIntegrity, compares with the oracle.
    fault: None | ['undriven', input] | ['disconnect', idx] | ['reattach', idx] | ['dup', output]
    -> dict(expected=..., got=..., violates=bool, skipped=bool, label=...)"""
    fault = list(fault) if fault else None
    if fault and fault[0] == 'dup':
        hw, I, O = build_design(block, w)
        wire = O[fault[1]]
        src = wire.source
        if src is None:
            return {'skipped': True, 'why': 'output not driven by a primitive', 'violates': False}
        aux = hw.wire('aux_in', wire.getWidth())
        py4hw.Constant(hw, 'k_aux', 0, aux)
        exc = None
        try:
            py4hw.Buf(hw, 'second_driver', aux, wire)
        except Exception as e:
            exc = '%s: %s' % (type(e).__name__, str(e)[:160])
        ok = exc is not None and wire.source is src
        return {'expected': 'construction raises, earlier driver stays', 'got': exc, 'driver_kept': wire.source is src,
                'violates': not ok, 'label': 'dup:' + fault[1], 'wire': wire.getFullPath()}
    hw, I, O = build_design(block, w, undriven=fault[1] if fault and fault[0] == 'undriven' else None)
    label = 'baseline'
    info = {}
    if fault and fault[0] == 'undriven':
        label = 'in:' + fault[1]
    elif fault and fault[0] in ('disconnect', 'reattach'):
        # the same objects are first checked while still well-formed (must be accepted), then damaged in place:
        # the verdict of the second check must not depend on anything remembered from the first
        pre = integrity(hw)
        if pre is not None:
            return {'expected': 'accepted before the fault is applied', 'got': pre, 'violates': True,
                    'label': 'precheck', 'why': 'well-formed hierarchy refused'}
        dw = driven_wires(hw)
        wire = dw[fault[1]]
        port = wire.source
        disconnectWireFromLogicObject(wire, port.parent)
        info = {'wire': wire.getFullPath(), 'former_driver': port.parent.getFullPath() + '[' + port.name + ']'}
        label = '%s:%s' % (fault[0], wire.getFullPath().replace('/HWSystem[HWSystem]', ''))
        if fault[0] == 'reattach':
            nw = Wire(hw, '__reattached__', wire.getWidth())
            port.wire = nw
            nw.setSource(port)
        elif not undriven_port_wires(hw):
            return {'skipped': True, 'why': 'no port remains on the undriven wire (former driver port is detached)',
                    'violates': False, 'label': label, **info}
    bad = undriven_port_wires(hw)
    det = detached_ports(hw)
    got = integrity(hw)
    expected_raise = bool(bad)
    if det and not bad:
        return {'skipped': True, 'why': 'detached port and no undriven port wire', 'violates': False, 'label': label}
    return {'expected': 'raise' if expected_raise else 'accept', 'got': got, 'undriven_port_wires': bad[:4],
            'violates': expected_raise != (got is not None), 'label': label,
            'explicit': bool(got and 'with no source' in got), **info}


CHUNK = 120     # fault cases per shard (a case rebuilds the design)


def _fault_list(block, w):
    hw, I, O = build_design(block, w)
    ins, outs, _ = _catalogue(w)[block]
    ndrv = len(driven_wires(hw))
    faults = [None] + [['undriven', n] for n, _ in ins]
    faults += [[k, i] for k in ('disconnect', 'reattach') for i in range(ndrv)]
    faults += [['dup', n] for n, _ in outs]
    return faults


def blk_shards(tier):
    out = []
    for w in TIERS[tier]['widths']:
        for name in _catalogue(w):
            try:
                with core.quiet():
                    n = len(_fault_list(name, w))
            except Exception:
                core.reset_prepared()
                n = 1
            for lo in range(0, n, CHUNK):
                out.append({'part': 'blk', 'block': name, 'w': w, 'lo': lo, 'hi': min(n, lo + CHUNK)})
    return out


def run_blk(d):
    block, w = d['block'], d['w']
    res = {'evaluations': 0, 'distinct_nontrivial': 0, 'skipped_precondition': 0, 'configs': 1,
           'violations': [], 'samples': []}
    try:
        hw, I, O = build_design(block, w)
    except Exception as e:
        core.reset_prepared()
        return {'constructor_rejected': 1, 'configs': 1, 'vacuous_ok': True, 'distinct_outcomes': 0,
                'samples': [{'config': d, 'rejected': repr(e)[:200]}], 'violations': []}
    faults = _fault_list(block, w)[d.get('lo', 0):d.get('hi')]
    outcomes = set()
    seen_sig = set()
    for f in faults:
        c = _case(block, w, f)
        if c.get('skipped'):
            res['skipped_precondition'] += 1
            continue
        res['evaluations'] += 1
        outcomes.add((c['expected'], c['got'] is None, c.get('explicit')))
        if c['expected'] != 'accept':
            res['distinct_nontrivial'] += 1
        if c['violates']:
            if f is None or (c['expected'] == 'accept' and f[0] != 'dup'):
                sig = 'C11:accept:%s' % block if f is None else 'C11:accept:%s:%s' % (block, c['label'])
            else:
                sig = 'C11:fault:%s:%s' % (block, c['label'])
            if sig not in seen_sig:
                seen_sig.add(sig)
                res['violations'].append({'sig': sig, 'shard': d, 'trace': [f], 'detail': c})
        elif len(res['samples']) < 2 and f is not None and f[0] in ('undriven', 'reattach'):
            res['samples'].append({'block': block, 'w': w, 'fault': f, 'expected': c['expected'], 'got': c['got']})
    res['distinct_outcomes'] = len(outcomes)
    res['vacuous_ok'] = d.get('lo', 0) > 0 or len(faults) < 2    # later chunks may hold one kind of fault only
    return res


def replay_blk(v):
    d = v['shard']
    f = v['trace'][0]
    c = _case(d['block'], d['w'], f)
    return {'case': c, 'violates': bool(c.get('violates'))}


# ===========================================================================
# module contract
# ===========================================================================

def shards(tier):
    return (seq_shards(tier) + blk_shards(tier) + [{'part': 'selfdup', 'w': w} for w in ((1, 2, 3) if tier == 'thorough' else (1, 2))]
            + names_shards(tier))


def _selfdup_cases(w):
    """one block asked to drive the same ordinary wire from two of its own outputs: the second
    attachment would give the wire two drivers and must raise, leaving the first driver in place"""
    P = py4hw

    def mk(f):
        hw = HWSystem()
        return hw, f
    cases = {
        'BitsLSBF': lambda hw: P.BitsLSBF(hw, 'dut', hw.wire('a', 2), [hw.wire('x'), hw._wires['x']]),
        'BitsMSBF': lambda hw: P.BitsMSBF(hw, 'dut', hw.wire('a', 2), [hw.wire('x'), hw._wires['x']]),
        'Demux': lambda hw: P.Demux(hw, 'dut', hw.wire('a', w), hw.wire('sel'), [hw.wire('x', w), hw._wires['x']]),
        'Swap': lambda hw: P.Swap(hw, 'dut', hw.wire('a', w), hw.wire('b', w), hw.wire('s'), hw.wire('x', w), hw._wires['x']),
        'Decoder': lambda hw: P.Decoder(hw, 'dut', hw.wire('a', 1), [hw.wire('x'), hw._wires['x']]),
        'Abs': lambda hw: P.Abs(hw, 'dut', hw.wire('a', 1), hw.wire('x'), hw._wires['x']),
        'Comparator': lambda hw: P.Comparator(hw, 'dut', hw.wire('a', w), hw.wire('b', w), hw.wire('x'), hw._wires['x'], hw.wire('lt')),
        'CountLeadingZeros': lambda hw: P.CountLeadingZeros(hw, 'dut', hw.wire('a', 2), hw.wire('x', 1), hw._wires['x']) if w == 1 else None,
        'ModuloCounter': lambda hw: P.ModuloCounter(hw, 'dut', 2, hw.wire('rs'), hw.wire('inc'), hw.wire('x'), hw._wires['x']),
    }
    return cases


def run_selfdup(d):
    res = {'part': 'selfdup', 'evaluations': 0, 'distinct_nontrivial': 0, 'configs': 0, 'violations': [], 'samples': [],
           'distinct_outcomes': 2, 'vacuous_ok': True}
    for name, f in _selfdup_cases(d['w']).items():
        hw = HWSystem()
        raised = None
        try:
            r = f(hw)
            if r is None:
                continue
        except Exception as e:
            raised = e
        res['evaluations'] += 1
        res['configs'] += 1
        x = hw._wires.get('x')
        if raised is None:
            res['violations'].append({'sig': 'C11:selfdup:not-raised:%s' % name, 'shard': d, 'trace': [name],
                                      'detail': {'block': name, 'note': 'two outputs of one block attached to the same wire without an error',
                                                 'final_source': None if x is None or x.getSource() is None else x.getSource().name}})
        else:
            res['distinct_nontrivial'] += 1
    # an in/out pin of a block on an ordinary wire that already has a driver, and duplicate wire names where one of the
    # two is a bidirectional wire: all must raise and leave the earlier driver / wire in place
    w = d['w']

    def direct(name, f, keep):
        hw = HWSystem()
        raised = None
        try:
            first = f(hw)
        except Exception as e:
            raised = e
            first = None
        res['evaluations'] += 1
        res['configs'] += 1
        ok = raised is not None and keep(hw)
        if ok:
            res['distinct_nontrivial'] += 1
        else:
            res['violations'].append({'sig': 'C11:direct:%s:%s' % ('not-raised' if raised is None else 'earlier-entity-replaced', name),
                                      'shard': d, 'trace': [name], 'detail': {'case': name, 'raised': repr(raised)[:200]}})

    def inout_after_driver(hw):
        pad = hw.wire('pad', w)
        hw._k = py4hw.Constant(hw, 'k', 1, pad)
        py4hw.BidirBuf(hw, 'bb', hw.wire('pin', w), hw.wire('pout', w), hw.wire('poe'), pad)
    direct('inout_pin_on_driven_plain_wire', inout_after_driver,
           lambda hw: hw._wires['pad'].getSource() is not None and hw._wires['pad'].getSource().parent is hw._k)

    def wire_then_bidir(hw):
        hw._first = hw.wire('x', w)
        hw.bidir_wire('x', w)
    direct('wire_then_bidir_wire_same_name', wire_then_bidir, lambda hw: hw._wires.get('x') is hw._first)

    def bidir_then_bidir(hw):
        hw._first = hw.bidir_wire('x', w)
        hw.bidir_wire('x', w)
    direct('bidir_wire_twice_same_name', bidir_then_bidir, lambda hw: hw._wires.get('x') is hw._first)

    def bidir_then_wire(hw):
        hw._first = hw.bidir_wire('x', w)
        hw.wire('x', w)
    direct('bidir_wire_then_wire_same_name', bidir_then_wire, lambda hw: hw._wires.get('x') is hw._first)
    res['samples'].append({'selfdup_blocks': sorted(_selfdup_cases(d['w']))})
    return res


# ===========================================================================
# part 'names': every way of creating a wire, and blocks whose class shares its short name with another class
# ===========================================================================

NAME_OPS = [('wire', 'tx_valid'), ('wire', 'x_0'), ('Wire', 'tx_ready'), ('wires', 'x', 2), ('wires', 'tx', 1),
            ('s2k', 'tx', 'valid'), ('k2s', 'tx', 'ready'), ('s2k', 'x', '0'), ('rm_s2k', 'tx'), ('bidir', 'tx_valid')]


def _names_requested(op):
    k = op[0]
    if k in ('wire', 'Wire', 'bidir'):
        return [op[1]]
    if k == 'wires':
        return ['%s_%d' % (op[1], i) for i in range(op[2])]
    if k in ('s2k', 'k2s'):
        return ['%s_%s' % (op[1], op[2])]
    return []


def _names_do(hw, ifs, op):
    """-> list of (name, wire object handed to the caller)"""
    k = op[0]
    if k == 'wire':
        return [(op[1], hw.wire(op[1], 1))]
    if k == 'Wire':
        return [(op[1], Wire(hw, op[1], 1))]
    if k == 'bidir':
        return [(op[1], hw.bidir_wire(op[1], 1))]
    if k == 'wires':
        ws = hw.wires(op[1], op[2], 1)
        return [('%s_%d' % (op[1], i), w) for i, w in enumerate(ws)]
    if k in ('s2k', 'k2s'):
        itf = py4hw.Interface(hw, op[1])          # a new Interface object every time (two may share a name)
        ifs.setdefault(op[1], []).append(itf)
        w = itf.addSourceToSink(op[2], 1) if k == 's2k' else itf.addSinkToSource(op[2], 1)
        return [('%s_%s' % (op[1], op[2]), w)]
    if k == 'rm_s2k':
        for itf in ifs.get(op[1], []):
            if itf.sourceToSink:
                itf.removeSourceToSink(itf.sourceToSink[0][0])
                break
        return []
    raise core.HarnessError('unknown names op %r' % (op,))


def run_names_history(hist):
    """executes the history on a fresh system; statement: a call that asks for a wire whose name already exists in the parent
    raises and the earlier wire stays; a call whose names are all new does not raise and registers what it hands out.
    -> (violation kind, detail) or None"""
    hw = HWSystem()
    ifs = {}
    model = {'clk': hw._wires['clk']}
    for i, op in enumerate(hist):
        req = _names_requested(op)
        clash = [n for n in req if n in model]
        raised = None
        got = []
        try:
            got = _names_do(hw, ifs, op)
        except core.HarnessError:
            raise
        except Exception as e:
            raised = e
        for n, w in model.items():
            if hw._wires.get(n) is not w:
                return ('earlier-wire-replaced', {'step': i, 'op': list(op), 'name': n})
        if clash and raised is None:
            return ('not-raised', {'step': i, 'op': list(op), 'existing_names': clash,
                                   'handed_out_the_existing_wire': [n for n, w in got if model.get(n) is w]})
        if not clash and raised is not None and op[0] != 'rm_s2k':
            return ('refused-without-conflict', {'step': i, 'op': list(op), 'raised': repr(raised)[:160]})
        # names created before a refusal (wires('x', 2) stops at the first clash) stay: read them back from the parent
        for n in req:
            w = hw._wires.get(n)
            if w is not None and n not in model:
                model[n] = w
        for n, w in got:
            if model.get(n) is not w:
                return ('handed-out-wire-not-registered', {'step': i, 'op': list(op), 'name': n})
    return None


def _same_name_cases():
    """a structural (gate-level) user class with the short name of a library primitive, instantiated BEFORE the primitive"""
    def structural(clsname, nin):
        def __init__(self, parent, name, ins, r):
            Logic.__init__(self, parent, name)
            for i, w in enumerate(ins):
                self.addIn('i%d' % i, w)
            self.addOut('r', r)
            py4hw.Buf(self, 'inner', ins[0], r)
        return type(clsname, (Logic,), {'__init__': __init__})
    P = py4hw
    return {
        'Buf': (1, lambda hw, n, i, r: P.Buf(hw, n, i[0], r)),
        'Not': (1, lambda hw, n, i, r: P.Not(hw, n, i[0], r)),
        'And2': (2, lambda hw, n, i, r: P.And2(hw, n, i[0], i[1], r)),
        'Mux2': (3, lambda hw, n, i, r: P.Mux2(hw, n, i[0], i[1], i[2], r)),
        'Reg': (1, lambda hw, n, i, r: P.Reg(hw, n, i[0], r)),
        'Constant': (0, lambda hw, n, i, r: P.Constant(hw, n, 1, r)),
    }, structural


def run_same_name(res, d):
    cases, structural = _same_name_cases()
    for cname, (nin, mk) in cases.items():
        for first in ('structural', 'primitive'):
            hw = HWSystem()
            ins = [hw.wire('i%d' % k) for k in range(max(nin, 1))]
            for k, w in enumerate(ins):
                py4hw.Constant(hw, 'ki%d' % k, 0, w)
            r0, r1 = hw.wire('r0'), hw.wire('r1')
            S = structural(cname, max(nin, 1))
            res['evaluations'] += 1
            res['configs'] += 1
            try:
                if first == 'structural':
                    S(hw, 'user', ins, r0)
                    prim = mk(hw, 'lib', ins, r1)
                else:
                    prim = mk(hw, 'lib', ins, r1)
                    S(hw, 'user', ins, r0)
            except Exception as e:
                # every wire has exactly one driver here (the structural block's own port does not drive): nothing to refuse
                res['violations'].append({'sig': 'C11:samename:well-formed-netlist-refused:%s' % cname, 'shard': d, 'trace': [cname, first],
                                          'detail': {'class': cname, 'instantiated_first': first, 'raised': repr(e)[:200]}})
                core.reset_prepared()
                continue
            bad = None
            if r1.getSource() is None or r1.getSource().parent is not prim:
                bad = ('driver-not-registered', 'the library %s drives r1 but the wire has no (or another) source' % cname)
            else:
                raised = None
                try:
                    py4hw.Constant(hw, 'second', 1, r1)
                except Exception as e:
                    raised = e
                if raised is None:
                    bad = ('not-raised', 'a second driver of r1 was accepted')
                elif r1.getSource().parent is not prim:
                    bad = ('earlier-driver-replaced', 'the first driver of r1 is no longer its source')
                else:
                    res['distinct_nontrivial'] += 1
                    # the half-built refused block is a user error already reported; integrity is judged on a clean copy
                    hw2 = HWSystem()
                    ins2 = [hw2.wire('i%d' % k) for k in range(max(nin, 1))]
                    for k, w in enumerate(ins2):
                        py4hw.Constant(hw2, 'ki%d' % k, 0, w)
                    a0, a1 = hw2.wire('r0'), hw2.wire('r1')
                    if first == 'structural':
                        S(hw2, 'user', ins2, a0)
                        mk(hw2, 'lib', ins2, a1)
                    else:
                        mk(hw2, 'lib', ins2, a1)
                        S(hw2, 'user', ins2, a0)
                    try:
                        with core.quiet():
                            py4hw.debug.checkIntegrity(hw2)
                    except Exception as e:
                        bad = ('integrity-refuses-driven-design', repr(e)[:160])
            if bad:
                res['violations'].append({'sig': 'C11:samename:%s:%s' % (bad[0], cname), 'shard': d, 'trace': [cname, first],
                                          'detail': {'class': cname, 'instantiated_first': first, 'problem': bad[1]}})


SPELLINGS = ['u', 'u ', ' u', 'u\n', '\tu', 'a b', 'U', 'u1', '1', 'ü', 'u.v', 'u[0]', 'x' * 300]


def run_spellings(res, d):
    """the same name given twice - for children and for wires, at the top and inside a block - whatever characters it is made of:
    the second call raises, the first child / wire stays where it was and stays the only one answering to that name"""
    for nm in SPELLINGS:
        for depth in (0, 1):
            for kind in ('child', 'wire'):
                hw = HWSystem()
                par = hw if depth == 0 else Logic(hw, 'blk')
                a, b, c = hw.wire('a'), hw.wire('b'), hw.wire('c')
                res['evaluations'] += 1
                res['configs'] += 1
                raised = None
                try:
                    if kind == 'child':
                        first = py4hw.Buf(par, nm, a, b)
                    else:
                        first = par.wire(nm)
                except Exception as e:
                    core.reset_prepared()
                    continue                    # a name the library does not accept at all: nothing to compare
                try:
                    if kind == 'child':
                        py4hw.Not(par, nm, a, c)
                    else:
                        par.wire(nm, 2)
                except Exception as e:
                    raised = e
                table = par.children if kind == 'child' else par._wires
                holders = [k for k, v in table.items() if v is first]
                bad = None
                if raised is None:
                    bad = ('not-raised', 'the second %s named %r was accepted' % (kind, nm))
                elif not holders:
                    bad = ('earlier-%s-replaced' % kind, 'the first %s named %r is no longer listed by its parent' % (kind, nm))
                elif kind == 'child' and (b.getSource() is None or b.getSource().parent is not first):
                    bad = ('earlier-driver-replaced', 'wire b is no longer driven by the first child')
                else:
                    res['distinct_nontrivial'] += 1
                if bad:
                    sig = 'C11:spelling:%s:%s' % (bad[0], kind)
                    if not any(v['sig'] == sig for v in res['violations']):
                        res['violations'].append({'sig': sig, 'shard': d, 'trace': [nm, depth, kind],
                                                  'detail': {'name': nm, 'inside_a_block': bool(depth), 'problem': bad[1],
                                                             'raised': repr(raised)[:160] if raised else None}})


class _IfSrc(Logic):
    """primitive producer whose ports come from an Interface"""
    def __init__(self, parent, name, itf):
        super().__init__(parent, name)
        self.itf = self.addInterfaceSource('s', itf)

    def propagate(self):
        for n, w in self.itf.sourceToSink:
            w.put(1)


class _IfSink(Logic):
    """primitive consumer whose ports come from an Interface (it drives the back channel)"""
    def __init__(self, parent, name, itf):
        super().__init__(parent, name)
        self.itf = self.addInterfaceSink('k', itf)

    def propagate(self):
        for n, w in self.itf.sinkToSource:
            w.put(1)


def run_iface_ports(res, d):
    """blocks whose ports are created through addInterfaceSource / addInterfaceSink are drivers like any other: a second producer
    on the interface, or a second consumer on its back channel, is refused and the first driver stays; a producer/consumer pair
    passes the integrity check; a lone consumer (forward wires undriven) does not"""
    def mk():
        hw = HWSystem()
        itf = py4hw.Interface(hw, 'ch')
        itf.addSourceToSink('data', 2)
        itf.addSourceToSink('valid', 1)
        itf.addSinkToSource('ready', 1)
        return hw, itf

    def viol(kind, case, detail):
        res['violations'].append({'sig': 'C11:ifaceports:%s:%s' % (kind, case), 'shard': d, 'trace': [case], 'detail': detail})

    for case, first, second in (('two_producers', _IfSrc, _IfSrc), ('two_consumers', _IfSink, _IfSink)):
        hw, itf = mk()
        a = first(hw, 'a', itf)
        wires = [w for n, w in (itf.sourceToSink if first is _IfSrc else itf.sinkToSource)]
        res['evaluations'] += 1
        res['configs'] += 1
        if any(w.getSource() is None or w.getSource().parent is not a for w in wires):
            viol('driver-not-registered', case, {'wires': [w.name for w in wires if w.getSource() is None]})
            continue
        raised = None
        try:
            second(hw, 'b', itf)
        except Exception as e:
            raised = e
        if raised is None:
            viol('not-raised', case, {'note': 'a second primitive driver on the interface wires was accepted'})
        elif any(w.getSource() is None or w.getSource().parent is not a for w in wires):
            viol('earlier-driver-replaced', case, {})
        else:
            res['distinct_nontrivial'] += 1
    hw, itf = mk()
    _IfSrc(hw, 'p', itf)
    _IfSink(hw, 'c', itf)
    res['evaluations'] += 1
    try:
        with core.quiet():
            py4hw.debug.checkIntegrity(hw)
    except Exception as e:
        viol('integrity-refuses-driven-design', 'pair', {'raised': repr(e)[:200]})
    hw, itf = mk()
    _IfSink(hw, 'c', itf)
    res['evaluations'] += 1
    try:
        with core.quiet():
            py4hw.debug.checkIntegrity(hw)
        viol('integrity-accepts-undriven', 'lone_consumer', {'note': 'data/valid have no driver'})
    except Exception:
        res['distinct_nontrivial'] += 1


def run_names(d):
    import itertools
    res = {'part': 'names', 'evaluations': 0, 'distinct_nontrivial': 0, 'configs': 0, 'violations': [], 'samples': [],
           'traces_validated_against_impl': 0, 'transitions': 0, 'distinct_outcomes': 2, 'vacuous_ok': True}
    if d.get('first') is None:
        run_same_name(res, d)
        run_iface_ports(res, d)
        run_spellings(res, d)
        return res
    seen = set()
    for n in range(0, d['D']):
        for tail in itertools.product(NAME_OPS, repeat=n):
            hist = [tuple(d['first'])] + list(tail)
            r = run_names_history(hist)
            res['evaluations'] += 1
            res['traces_validated_against_impl'] += 1
            res['transitions'] += len(hist)
            names = [x for op in hist for x in _names_requested(op)]
            if len(names) != len(set(names)):
                res['distinct_nontrivial'] += 1          # some name is requested twice: one call must raise
            if r is not None:
                sig = 'C11:names:%s:%s' % (r[0], r[1]['op'][0])
                if sig not in seen:
                    seen.add(sig)
                    res['violations'].append({'sig': sig, 'shard': d, 'trace': [list(o) for o in hist[:r[1]['step'] + 1]], 'detail': r[1]})
    if d['first'] == list(NAME_OPS[0]):
        res['samples'].append({'history': [list(o) for o in hist]})
    return res


def names_shards(tier):
    D = 4 if tier == 'thorough' else 3
    return [{'part': 'names', 'first': None}] + [{'part': 'names', 'first': list(op), 'D': D} for op in NAME_OPS]


def cost(d):
    if d['part'] == 'names':
        return 1 if d.get('first') is None else len(NAME_OPS) ** d['D']
    if d['part'] == 'selfdup':
        return 1
    if d['part'] == 'seq':
        return 1000 * (d['D'] - (0 if d['root'] else d['L'])) + 10 * len(json.dumps(d['prefix']))
    return d.get('hi', 1) - d.get('lo', 0)


def run_shard(d):
    if d['part'] == 'names':
        return run_names(d)
    if d['part'] == 'selfdup':
        return run_selfdup(d)
    return run_seq(d) if d['part'] == 'seq' else run_blk(d)


def replay(v):
    if v['shard'].get('part') == 'names':
        if v['shard'].get('first') is None:
            r = {'evaluations': 0, 'configs': 0, 'distinct_nontrivial': 0, 'violations': []}
            run_same_name(r, v['shard'])
            run_iface_ports(r, v['shard'])
            run_spellings(r, v['shard'])
            hit = [x for x in r['violations'] if x['sig'] == v['sig']]
            return {'violates': bool(hit), 'detail': hit[:1]}
        r = run_names_history([tuple(o) for o in v['trace']])
        return {'history': v['trace'], 'violates': r is not None, 'detail': r}
    if v['shard'].get('part') == 'selfdup':
        r = run_selfdup(v['shard'])
        hit = [x for x in r['violations'] if x['sig'] == v['sig']]
        return {'violates': bool(hit), 'detail': hit[:1]}
    if v['shard'].get('part') == 'seq':
        return replay_seq(v)
    return replay_blk(v)


def finish(cov, results, tier):
    # one witness per signature: keep a shortest trace (shards find the same defect behind different prefixes)
    best = {}
    for r in results:
        for v in r['violations']:
            if v['sig'] not in best or len(v['trace']) < len(best[v['sig']]['trace']):
                best[v['sig']] = v
    for r in results:
        r['violations'] = [v for v in r['violations'] if best[v['sig']] is v]
    obs = {}
    for r in results:
        for k, n in r.get('observations', {}).items():
            obs[k] = obs.get(k, 0) + n
    cov['observations'] = obs
    cov['catalogue_blocks'] = sorted({r['shard']['block'] for r in results if r['shard'].get('part') == 'blk'})
    cov['constructor_rejected_blocks'] = sorted({r['shard']['block'] for r in results if r.get('constructor_rejected')})
    cov['note_states'] = ('seq states are summed over shards; a state reachable from several depth-L prefixes is '
                          'counted once per shard that reaches it')
