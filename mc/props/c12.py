"""C12 — number-format helpers are bit-exact and arithmetically exact.

Pure function enumeration (no simulator): every helper named in the property's
anchors is called on every element of a stated finite space and compared with
struct (the platform's IEEE-754 encoding), fractions.Fraction and integer
arithmetic (mc/refmodels/fp.py, mc/refmodels/fxp.py).

Sections (one family of shards each):
  hp     all 2^16 half-precision patterns                               (exhaustive)
  sp/dp  {sign} x {every exponent field} x {mantissa top-k/bottom-k bits} (alphabet)
  c2     signed_to_c2 / c2_to_signed / signExtend, all widths 1..10       (exhaustive at the bound)
  arith  FPNum add/sub/mul/compare/to_float/convert on all ordered pairs of a mini-float alphabet (alphabet)
  fixed  FixedPoint helper add/sub/mult, every format up to the width bound, all raw pairs (exhaustive at the bound)
"""
import math
from fractions import Fraction

from py4hw.helper import FPNum, FloatingPointHelper, IntegerHelper, FixedPoint, signExtend

from mc.refmodels import fp, fxp

LEVEL = 'exploration'
EXHAUSTIVE = False      # sp/dp and the FPNum arithmetic are enumerated over stated alphabets, not over 2^32 / 2^64
RULE = {
    'quick': 'hp: all 2^16 patterns; sp/dp: both signs x every exponent field value x the 64 mantissas whose set bits '
             'lie in the top 3 or bottom 3 positions plus the 8 values just below 2^mbits, runs of ones with a hole and the alternating patterns; two\'s complement: widths 1..10, every in-range value (signExtend '
             'also every out-of-range value in [-2^w, 2^(w+1)) and target widths w..w+6); FPNum arithmetic: all ordered '
             'pairs of a 400-value alphabet (half patterns: 9 exponent fields x 22 mantissas x 2 signs, plus 12 sp '
             'boundary values), each pair also through chains of operations on results ((a*b)^2, (a*b)^16, (a+b)*(a-b), ...); FixedPoint: every (s,i,f), s in {0,1}, width 1..5, all raw pairs. A case is non-trivial '
             'when its pattern / expected result is not all-zero. Exhaustive for hp, two\'s complement and FixedPoint at '
             'the bound; sp, dp and FPNum pairs are exhaustive over the stated alphabets only.',
    'thorough': 'hp: all 2^16 patterns; sp/dp: both signs x every exponent field value x the 1024 mantissas whose set '
                'bits lie in the top 5 or bottom 5 positions; two\'s complement: widths 1..10 as in quick; FPNum '
                'arithmetic: all ordered pairs of a 600-value alphabet (half patterns: 18 exponent fields x 16 mantissas '
                'x 2 signs, plus 12 sp and 12 dp boundary values); FixedPoint: every (s,i,f), s in {0,1}, width 1..7, '
                'all raw pairs. Non-trivial and exhaustiveness as in quick.',
}
ASSUMPTIONS = [
    '"NaN payloads excepted": for a NaN input any NaN pattern / any float NaN is accepted as output',
    'FPNum.convert to a narrower format is checked only on values exactly representable there (the statement says '
    '"every representable value"); sp_to_ieee754 / sp_to_ieee754_parts, which take a Python number (a double), are '
    'also checked on doubles that are not singles against the platform encoding struct.pack("<f") (section "narrow"); '
    'doubles beyond the largest single are not constrained',
    'FPNum results are read through their components (s, e, m, p) as the rational s * 2^e * m / p, and additionally '
    'through to_float() / convert() when the exact result is representable; the sign of a zero result is not compared',
    'FPNum.compare of +0 with -0: both 0 (rational order) and +1/-1 (sign order) are accepted; infinities and NaN are '
    'outside the arithmetic clause ("exactly, as rationals") and are skipped and counted',
    'FPNum.to_float on a rational that is NOT a double is not constrained by the statement; it is checked to be one of '
    'the two neighbouring doubles (faithful), not necessarily the nearest',
    'FixedPoint.mult "truncated product": dropping low-order bits of the two\'s-complement product (floor) and '
    'truncation toward zero are both accepted, but one reading must explain every pair of a format',
    'FixedPoint formats whose constructor raises (int_bits == 0) are counted as constructor_rejected',
    'fp_to_parts is checked for value only ((-1)^s * 2^e * m == v, 1 <= m < 2); ieee754_parts_to_sp/dp only on finite parts',
    'reference code in mc/refmodels/fp.py and fxp.py, struct and fractions.Fraction are trusted',
]
BOUNDS = {
    'quick': 'hp 2^16; sp 2x256x64; dp 2x2048x64; narrowing double->single 2x255x(64+)x12 doubles around rounding boundaries; c2 widths 1..10; FPNum 300^2 pairs; FixedPoint widths <= 5',
    'thorough': 'hp 2^16; sp 2x256x1024; dp 2x2048x1024; narrowing double->single as in quick; c2 widths 1..10; FPNum 600^2 pairs; FixedPoint widths <= 7',
}

H = FloatingPointHelper
_NAR = {'hp': (), 'sp': ('hp',), 'dp': ('sp', 'hp')}     # narrower formats
_WID = {'hp': ('sp', 'dp'), 'sp': ('dp',), 'dp': ()}     # wider formats


# ---------------------------------------------------------------- plumbing
def _call(fn, *a):
    try:
        return True, fn(*a)
    except Exception as e:      # an in-domain call that raises is a failure of the clause being checked
        return False, '%s: %s' % (type(e).__name__, str(e)[:120])


class Acc:
    """Collects coverage and at most one (the first = smallest) failing case per (check, class)."""

    def __init__(self, section, desc):
        self.section, self.desc = section, desc
        self.evals = self.nontriv = self.skipped = 0
        self.outcomes = set()
        self.viol = {}
        self.sample = None

    def fail(self, check, klass, case, detail):
        sig = 'C12:%s:%s:%s' % (self.section, check, klass)
        if sig not in self.viol:
            d = dict(detail)
            d['check'] = check
            self.viol[sig] = {'sig': sig, 'shard': self.desc, 'trace': [case], 'detail': d}

    def result(self, **extra):
        r = {'evaluations': self.evals, 'distinct_nontrivial': self.nontriv, 'skipped_precondition': self.skipped,
             'distinct_outcomes': len(self.outcomes), 'violations': list(self.viol.values()),
             'samples': [self.sample] if self.sample else [], 'configs': 1}
        r.update(extra)
        return r


def _klass(bits, fmt):
    c = fp.classify(bits, fmt)
    if c[0] != 'fin':
        return c[0]
    s, e, m = fp.fields(bits, fmt)
    if e == 0 and m == 0:
        return 'neg_zero' if s else 'pos_zero'
    return 'subnormal' if e == 0 else 'normal'


def _eq_bits(got, exp, fmt, isnan):
    if not isinstance(got, int) or isinstance(got, bool):
        return False
    if isnan:
        return 0 <= got < (1 << (1 + sum(fp.geometry(fmt)[:2]))) and fp.is_nan_bits(got, fmt)
    return got == exp


# ---------------------------------------------------------------- per-pattern checks (hp, sp, dp)
def pattern_checks(fmt, x):
    """Every conversion clause on one bit pattern x of format fmt.
    Returns (list of (check, detail), outcome tuple)."""
    out = []
    cls = fp.classify(x, fmt)
    isnan = cls[0] == 'nan'
    finite = cls[0] == 'fin'
    v = fp.bits_to_float(x, fmt)                 # platform decoding
    s, e, m = fp.fields(x, fmt)
    obs = []

    def bad(check, got, exp):
        out.append((check, {'input_bits': hex(x), 'format': fmt, 'got': got if not isinstance(got, int) else hex(got),
                            'expected': exp if not isinstance(exp, int) else hex(exp)}))

    def want_bits(check, res, exp, f):
        ok, got = res
        obs.append(got if ok else 'exc')
        if not ok or not _eq_bits(got, exp, f, isnan):
            bad(check, got, 'any NaN' if isnan else exp)

    def want_float(check, res, exp):
        ok, got = res
        obs.append(repr(got) if ok else 'exc')
        if not ok or not fp.same_float(got, exp):
            bad(check, repr(got), repr(exp))

    def want_eq(check, res, exp):
        ok, got = res
        if not ok or got != exp:
            bad(check, repr(got), repr(exp))

    # --- FPNum: bit pattern -> number -> everything
    ok, n = _call(FPNum, x, fmt)
    if not ok:
        bad('FPNum(bits)', n, 'an FPNum')
    else:
        want_float('FPNum(bits).to_float', _call(n.to_float), v)
        want_bits('FPNum(bits).convert(same)', _call(n.convert, fmt), x, fmt)
        for wf in _WID[fmt]:
            want_bits('FPNum(bits).convert(wider)', _call(n.convert, wf), fp.float_to_bits(v, wf), wf)
        for nf in _NAR[fmt]:
            if finite:
                eb = fp.exact_bits(cls[2], s, nf)
            elif isnan:
                eb = 0
            else:
                eb = fp.join(s, fp.geometry(nf)[3], 0, nf)
            if eb is not None:
                want_bits('FPNum(bits).convert(narrower,representable)', _call(n.convert, nf), eb, nf)
    # --- FPNum: Python float -> number -> bit pattern
    ok, n2 = _call(FPNum, v)
    if not ok:
        bad('FPNum(float)', n2, 'an FPNum')
    else:
        want_bits('FPNum(float).convert', _call(n2.convert, fmt), x, fmt)
    # --- FPNum field helpers
    unpack = getattr(FPNum, 'unpack_ieee754_%s_parts' % fmt)
    pack = getattr(FPNum, 'pack_ieee754_%s_parts' % fmt)
    want_eq('FPNum.unpack_parts', _call(unpack, x), (s, e, m))
    want_eq('FPNum.pack_parts', _call(pack, s, e, m), x)
    # --- hp: round trip through the wider patterns
    if fmt == 'hp':
        for wf in ('sp', 'dp'):
            wb = fp.float_to_bits(v, wf)
            ok, n3 = _call(FPNum, wb, wf)
            if not ok:
                bad('FPNum(bits)', n3, 'an FPNum')
            else:
                want_bits('FPNum(wider bits).convert(hp)', _call(n3.convert, 'hp'), x, 'hp')
    # --- FloatingPointHelper (sp / dp only)
    if fmt in ('sp', 'dp'):
        to_py = getattr(H, 'ieee754_to_' + fmt)
        from_py = getattr(H, fmt + '_to_ieee754')
        parts = getattr(H, fmt + '_to_ieee754_parts')
        parts_to = getattr(H, 'ieee754_parts_to_' + fmt)
        want_float('ieee754_to_' + fmt, _call(to_py, x), v)
        want_bits(fmt + '_to_ieee754', _call(from_py, v), x, fmt)
        ok, got = _call(parts, v)
        if isnan:
            if not ok or not (isinstance(got, tuple) and len(got) == 3 and got[1] == fp.geometry(fmt)[3] and got[2] != 0):
                bad(fmt + '_to_ieee754_parts', repr(got), 'parts of any NaN')
        elif not ok or tuple(got) != (s, e, m):
            bad(fmt + '_to_ieee754_parts', repr(got), repr((s, e, m)))
        if finite:
            want_float('ieee754_parts_to_' + fmt, _call(parts_to, s, e, m), v)
            ok, got = _call(H.fp_to_parts, v)
            good = False
            if ok and isinstance(got, tuple) and len(got) == 3:
                ps, pe, pm = got
                try:
                    val = Fraction(pm) * Fraction(2) ** pe
                    good = (val == abs(cls[2])) and (cls[2] == 0 or (ps == s and 1 <= pm < 2))
                except (TypeError, ValueError, OverflowError):
                    good = False
            if not good:
                bad('fp_to_parts', repr(got), '(s, e, m) with (-1)^s*2^e*m == %r and 1<=m<2' % v)
        want_eq('H.unpack_parts', _call(getattr(H, 'unpack_ieee754_%s_parts' % fmt), x), (s, e, m))
        if fmt == 'sp':
            want_eq('H.pack_sp_parts', _call(H.pack_ieee754_sp_parts, s, e, m), x)
    return out, tuple(obs)


def _run_patterns(desc, fmt, patterns):
    acc = Acc(fmt, desc)
    for x in patterns:
        fails, obs = pattern_checks(fmt, x)
        acc.evals += 1
        if x & ~(1 << (sum(fp.geometry(fmt)[:2]))):       # anything but +0 / -0
            acc.nontriv += 1
        acc.outcomes.add(hash(obs))
        if acc.sample is None and acc.evals == 3:
            acc.sample = {'section': fmt, 'bits': hex(x), 'platform_value': repr(fp.bits_to_float(x, fmt)),
                          'observed': [hex(o) if isinstance(o, int) else o for o in obs][:6]}
        for check, detail in fails:
            acc.fail(check, _klass(x, fmt), {'section': 'pattern', 'fmt': fmt, 'bits': x}, detail)
    # looking at a number (repr / str / format, also of a bound method, as a debugger or a print would) is not an operation:
    # the decoding of every finite pattern of the shard is repeated afterwards and must still be the platform value
    if fmt != 'hp' or desc.get('slice', 0) == 0:
        probe = FPNum(1, fmt)
        for look in (repr, str, lambda n: format(n), lambda n: repr(n.to_float), lambda n: '%s' % (n,)):
            _call(look, probe)
        for x in patterns:
            if fp.classify(x, fmt)[0] != 'fin':
                continue
            v = fp.bits_to_float(x, fmt)
            ok, f = _call(FPNum(x, fmt).to_float)
            acc.evals += 1
            if not ok or not isinstance(f, float) or f != v or math.copysign(1, f) != math.copysign(1, v):
                acc.fail('FPNum(bits).to_float_after_a_number_was_printed', _klass(x, fmt),
                         {'section': 'pattern', 'fmt': fmt, 'bits': x, 'after_print': 1},
                         {'input_bits': hex(x), 'format': fmt, 'got': repr(f), 'expected': repr(v)})
    return acc.result()


def _alphabet_patterns(fmt, sign, elo, ehi, k):
    eb, mb, _, _ = fp.geometry(fmt)
    ms = fp.mantissa_patterns(mb, k)
    for e in range(elo, ehi):
        for m in ms:
            yield fp.join(sign, e, m, fmt)


# ---------------------------------------------------------------- two's complement
def c2_checks(w, v):
    """v ranges over [-2^w, 2^(w+1)); the in-range part exercises signed_to_c2 / c2_to_signed, all of it signExtend."""
    out = []
    lo, hi = -(1 << (w - 1)), (1 << (w - 1))

    def bad(check, got, exp, **kw):
        d = {'w': w, 'v': v, 'got': repr(got), 'expected': exp}
        d.update(kw)
        out.append((check, d))

    obs = []
    if lo <= v < hi:
        ok, u = _call(IntegerHelper.signed_to_c2, v, w)
        obs.append(u)
        if not ok or u != fp.c2_encode(v, w):
            bad('signed_to_c2', u, fp.c2_encode(v, w))
        ok, back = _call(IntegerHelper.c2_to_signed, fp.c2_encode(v, w), w)
        if not ok or back != v:
            bad('c2_to_signed(signed_to_c2)', back, v)
    if 0 <= v < (1 << w):
        ok, sv = _call(IntegerHelper.c2_to_signed, v, w)
        obs.append(sv)
        if not ok or sv != fp.c2_decode(v, w):
            bad('c2_to_signed', sv, fp.c2_decode(v, w))
        ok, back = _call(IntegerHelper.signed_to_c2, fp.c2_decode(v, w), w)
        if not ok or back != v:
            bad('signed_to_c2(c2_to_signed)', back, v)
    for nw in range(w, w + 7):
        exp = fp.c2_decode(v % (1 << w), w) % (1 << nw)
        ok, got = _call(signExtend, v, w, nw)
        obs.append(got)
        if not ok or got != exp:
            bad('signExtend', got, exp, nw=nw)
            break
    return out, tuple(obs)


def _run_c2(desc):
    w = desc['w']
    acc = Acc('c2', desc)
    if desc.get('corner'):
        M = 1 << w
        dom = sorted({-M, -M + 1, -(M >> 1) - 1, -(M >> 1), -(M >> 1) + 1, -2, -1, 0, 1, 2, (M >> 1) - 1, M >> 1, (M >> 1) + 1,
                      M - 2, M - 1, M, M + 1, 2 * M - 1, M // 3, -(M // 3)})
    else:
        dom = range(-(1 << w), 1 << (w + 1))
    for v in dom:
        fails, obs = c2_checks(w, v)
        acc.evals += 1
        if v % (1 << w):
            acc.nontriv += 1
        acc.outcomes.add(obs)
        if acc.sample is None and v == -1:
            acc.sample = {'section': 'c2', 'w': w, 'v': v, 'observed': list(obs)}
        for check, detail in fails:
            klass = 'in_range' if -(1 << (w - 1)) <= v < (1 << w) else 'out_of_range'
            acc.fail(check, klass, {'section': 'c2', 'w': w, 'v': v}, detail)
    return acc.result()


# ---------------------------------------------------------------- FPNum arithmetic
def arith_alphabet(tier):
    T = tier == 'thorough'
    exps = (0, 1, 2, 9, 10, 11, 12, 13, 14, 15, 16, 17, 18, 19, 20, 29, 30, 31) if T else (0, 1, 13, 14, 15, 16, 17, 30, 31)
    ms = fp.mantissa_patterns(10, 2)
    out = [('hp', fp.join(s, e, m, 'hp')) for s in (0, 1) for e in exps for m in ms]
    for f in (('sp', 'dp') if T else ('sp',)):
        eb, mb, bias, emax = fp.geometry(f)
        full = (1 << mb) - 1
        for s in (0, 1):
            out += [(f, fp.join(s, 0, 1, f)), (f, fp.join(s, 0, full, f)), (f, fp.join(s, 1, 0, f)),
                    (f, fp.join(s, emax - 1, full, f)), (f, fp.join(s, bias, 1, f)), (f, fp.join(s, bias - 1, full, f))]
    return out


def _val(n):
    """The rational an FPNum denotes, read through its documented components."""
    s, e, m, p = n.components()
    if n.infinity or n.nan or p == 0:
        return None
    if not all(isinstance(t, int) and not isinstance(t, bool) for t in (s, e, m, p)) or s not in (1, -1) or m < 0 or p <= 0:
        return None
    return Fraction(s) * Fraction(m, p) * Fraction(2) ** e


def _sgn(q):
    return (q > 0) - (q < 0)


def _neighbours(q):
    """(lo, hi) doubles with lo <= q <= hi, adjacent; None on overflow."""
    try:
        d = fp.nearest_double(q)
    except OverflowError:
        return None
    if math.isinf(d):
        return None
    fd = Fraction(d)
    if fd == q:
        return d, d
    if fd < q:
        return d, math.nextafter(d, math.inf)
    return math.nextafter(d, -math.inf), d


def arith_checks(a, b):
    """a, b: (fmt, bits), both finite. Returns (fails, outcome)."""
    out = []
    ca, cb = fp.classify(a[1], a[0]), fp.classify(b[1], b[0])
    A, B = ca[2], cb[2]

    def bad(check, got, exp, **kw):
        d = {'a': [a[0], hex(a[1])], 'b': [b[0], hex(b[1])], 'A': str(A), 'B': str(B), 'got': got, 'expected': exp}
        d.update(kw)
        out.append((check, d))

    na, nb = FPNum(a[1], a[0]), FPNum(b[1], b[0])
    if _val(na) != A or _val(nb) != B:
        # the operand itself is mis-decoded (a conversion failure, reported by the pattern sections); the arithmetic
        # clause is about the rationals the operands denote, so the pair is reported once per operand class and skipped
        w = a if _val(na) != A else b
        bad('operand_decode', 'components %r' % (FPNum(w[1], w[0]).components(),), str(fp.classify(w[1], w[0])[2]),
            operand=[w[0], hex(w[1])], operand_class='%s_%s' % (w[0], _klass(w[1], w[0])))
        return out, None
    obs = []
    for op, exact in (('add', A + B), ('sub', A - B), ('mul', A * B)):
        ok, r = _call(getattr(na, op), nb)
        if not ok:
            bad(op, r, str(exact))
            obs.append('exc')
            continue
        got = _val(r) if isinstance(r, FPNum) else None
        obs.append(got)
        if got is None or got != exact:
            bad(op, 'components %r -> %s' % (r.components() if isinstance(r, FPNum) else r, got), str(exact))
            continue
        # the exact result seen through the number -> Python / bit pattern conversions
        nb2 = _neighbours(exact)
        if nb2 is not None:
            ok, f = _call(r.to_float)
            if nb2[0] == nb2[1]:
                if not ok or not isinstance(f, float) or f != nb2[0]:
                    bad(op + '.to_float(representable)', repr(f), repr(nb2[0]))
            elif not ok or not isinstance(f, float) or (f != nb2[0] and f != nb2[1]):
                bad(op + '.to_float(faithful)', repr(f), 'one of %r, %r' % nb2)
        for f2 in ('hp', 'sp', 'dp'):
            eb = fp.exact_bits(exact, 0, f2)
            if eb is not None:
                ok, g = _call(r.convert, f2)
                signbit = 1 << sum(fp.geometry(f2)[:2])
                if not ok or not isinstance(g, int) or (g != eb and not (exact == 0 and (g & ~signbit) == 0)):
                    bad(op + '.convert(representable)', hex(g) if isinstance(g, int) else g, hex(eb), target=f2)
    # results are numbers like any other: they are operands of further exact operations (products of products need
    # ever more precision: 16 half-precision factors carry a 2^320 denominator)
    def chain():
        pr = na.mul(nb)
        sq, ex = pr, A * B
        yield 'mul(mul)', sq.mul(sq), ex * ex
        for _ in range(4):
            sq, ex = sq.mul(sq), ex * ex
        yield 'mul^16', sq, ex
        sm, df = na.add(nb), na.sub(nb)
        yield 'mul(add,sub)', sm.mul(df), (A + B) * (A - B)
        yield 'add(mul(add,sub),mul)', sm.mul(df).add(pr), (A + B) * (A - B) + A * B
        yield 'sub(mul^16,mul)', sq.sub(pr), ex - A * B
        # operands of different depth: the one with many significant bits is the one whose precision has to be raised
        p2 = pr.mul(pr)
        p4 = p2.mul(p2)
        e4 = (A * B) ** 4
        yield 'add(mul^4,mul^16)', p4.add(sq), e4 + ex
        yield 'sub(mul^16,mul^4)', sq.sub(p4), ex - e4
        yield 'add(mul^4,operand)', p4.add(na), e4 + A
        # the operands themselves are values, not scratch space: unchanged after having been used (as left operands too)
        yield 'operand a after use', na, A
        yield 'operand b after use', nb, B
    if not out:
        try:
            for name, r, exact in chain():
                got = _val(r) if isinstance(r, FPNum) else None
                if got is None or got != exact:
                    bad('chain:' + name, 'components %r' % (r.components() if isinstance(r, FPNum) else r,), str(exact)[:200])
                    break
        except Exception as e:
            bad('chain', 'raised %r' % (e,), 'exact rational arithmetic')
        for w, n0, tag in ((a, na, 'a'), (b, nb, 'b')):
            ok, g = _call(n0.convert, w[0])
            if not ok or g != w[1]:
                bad('operand_%s_changed_by_use' % tag, hex(g) if isinstance(g, int) else g, hex(w[1]), note='convert() of the operand after the operations')
                break
    ok, c = _call(na.compare, nb)
    obs.append(c)
    exp = _sgn(A - B)
    allowed = {exp}
    if A == 0 and B == 0 and ca[1] != cb[1]:
        allowed.add(1 if cb[1] else -1)          # +0 vs -0: sign order also accepted
    if not ok or c not in allowed or isinstance(c, bool):
        bad('compare', c, sorted(allowed))
    return out, tuple(obs)


def _aklass(a, b):
    ka, kb = _klass(a[1], a[0]), _klass(b[1], b[0])
    z = lambda k: 'zero' if k.endswith('zero') else k
    return '%s_%s/%s_%s' % (a[0], z(ka), b[0], z(kb))


def _run_arith(desc):
    alpha = arith_alphabet(desc['tier'])
    acc = Acc('arith', desc)
    for i in range(desc['slice'], len(alpha), desc['of']):
        a = alpha[i]
        for b in alpha:
            if fp.classify(a[1], a[0])[0] != 'fin' or fp.classify(b[1], b[0])[0] != 'fin':
                acc.skipped += 1
                continue
            fails, obs = arith_checks(a, b)
            if obs is None:
                acc.skipped += 1
                for check, detail in fails:
                    acc.fail(check, detail['operand_class'], {'section': 'arith', 'a': list(a), 'b': list(b)}, detail)
                continue
            acc.evals += 1
            if obs[0] or obs[1] or obs[2]:
                acc.nontriv += 1
            acc.outcomes.add(hash(obs))
            if acc.sample is None and obs[0] and obs[2]:
                acc.sample = {'section': 'arith', 'a': [a[0], hex(a[1])], 'b': [b[0], hex(b[1])],
                              'sum': str(obs[0]), 'difference': str(obs[1]), 'product': str(obs[2]), 'compare': obs[3]}
            for check, detail in fails:
                acc.fail(check, _aklass(a, b), {'section': 'arith', 'a': list(a), 'b': list(b)}, detail)
    return acc.result(alphabet=len(alpha))


# ---------------------------------------------------------------- FixedPoint helper
def fixed_checks(fmt, ua, ub, reading):
    """reading: 'floor' | 'toward_zero' for mult. Returns (fails, outcome)."""
    fmt = tuple(fmt)
    w = fxp.width(fmt)
    out = []
    mask = (1 << w) - 1

    def bad(check, got, exp):
        out.append((check, {'format': list(fmt), 'a_raw': ua, 'b_raw': ub, 'a': str(fxp.decode(ua, fmt)),
                            'b': str(fxp.decode(ub, fmt)), 'got': got, 'expected': exp}))

    a = FixedPoint.fromRawValue(fmt[0], fmt[1], fmt[2], ua)
    b = FixedPoint.fromRawValue(fmt[0], fmt[1], fmt[2], ub)
    obs = []
    prod = Fraction(fxp.raw_int(ua, fmt) * fxp.raw_int(ub, fmt), 1 << fmt[2])     # product at the raw scale
    pe = (fxp.floor_frac(prod) if reading == 'floor' else fxp.toward_zero(prod)) & mask
    for op, exp in (('add', (ua + ub) & mask), ('sub', (ua - ub) & mask), ('mult', pe)):
        ok, r = _call(getattr(a, op), b)
        got = r.v if ok and isinstance(r, FixedPoint) else r
        obs.append(got)
        if not ok or not isinstance(r, FixedPoint) or got != exp or tuple(r.getWidths()) != fmt:
            bad(op, got, exp)
    return out, tuple(obs), (fxp.floor_frac(prod) & mask) != (fxp.toward_zero(prod) & mask)


def _run_fixed(desc):
    fmt = tuple(desc['fmt'])
    w = fxp.width(fmt)
    ok, e = _call(FixedPoint.fromRawValue, fmt[0], fmt[1], fmt[2], 0)
    if not ok:
        return {'constructor_rejected': 1, 'configs': 1, 'evaluations': 0, 'distinct_nontrivial': 0, 'vacuous_ok': True,
                'distinct_outcomes': 0, 'samples': [{'section': 'fixed', 'format': list(fmt), 'rejected': e}], 'violations': []}
    best = None
    for reading in ('floor', 'toward_zero'):
        acc = Acc('fixed', desc)
        sensitive = 0
        from mc import comb as _comb
        dom = _comb.corner_values(w) if desc.get('corner') else range(1 << w)
        for ua in dom:
            for ub in dom:
                fails, obs, sens = fixed_checks(fmt, ua, ub, reading)
                acc.evals += 1
                sensitive += sens
                if any(obs):
                    acc.nontriv += 1
                acc.outcomes.add(obs)
                if acc.sample is None and obs[2]:
                    acc.sample = {'section': 'fixed', 'format': list(fmt), 'a_raw': ua, 'b_raw': ub, 'add': obs[0],
                                  'sub': obs[1], 'mult': obs[2]}
                for check, detail in fails:
                    klass = '%s_format' % ('signed' if fmt[0] else 'unsigned')
                    acc.fail(check, klass, {'section': 'fixed', 'fmt': list(fmt), 'a': ua, 'b': ub, 'reading': reading}, detail)
        res = acc.result(mult_reading=reading, reading_sensitive_pairs=sensitive)
        if not res['violations']:
            return res
        if best is None:
            best = res
    return best


# ---------------------------------------------------------------- module contract
def shards(tier):
    T = tier == 'thorough'
    k = 5 if T else 3
    out = [{'section': 'hp', 'slice': i} for i in range(16)]
    for s in (0, 1):
        step = 16 if T else 64
        for lo in range(0, 256, step):
            out.append({'section': 'sp', 'sign': s, 'elo': lo, 'ehi': lo + step, 'k': k})
        step = 32 if T else 256
        for lo in range(0, 2048, step):
            out.append({'section': 'dp', 'sign': s, 'elo': lo, 'ehi': lo + step, 'k': k})
    out += [{'section': 'c2', 'w': w} for w in range(1, 11)]
    out += [{'section': 'sequence'}]
    out += [{'section': 'narrow', 'sign': sg, 'elo': lo, 'ehi': lo + 64} for sg in (0, 1) for lo in range(0, 256, 64)]
    # special widths / wide formats with boundary values only
    out += [{'section': 'c2', 'w': w, 'corner': 1} for w in ((15, 16, 17, 31, 32, 33, 63, 64, 65, 127, 128) if T else (16, 31, 32, 33, 63, 64, 65))]
    out += [{'section': 'fixed', 'fmt': list(f), 'corner': 1} for f in
            [(1, 7, 8), (1, 15, 16), (1, 16, 15), (1, 31, 32), (0, 16, 16), (0, 8, 8), (1, 2, 13), (1, 1, 30), (1, 30, 1)]]
    n = 64 if T else 32
    out += [{'section': 'arith', 'tier': tier, 'slice': i, 'of': n} for i in range(n)]
    out += [{'section': 'fixed', 'fmt': list(f)} for f in fxp.formats(7 if T else 5, signs=(0, 1))]
    return out


def cost(d):
    sec = d['section']
    if sec == 'dp':
        return 100 * (d['ehi'] - d['elo']) * 4 ** d['k'] / 1e3
    if sec == 'sp':
        return 60 * (d['ehi'] - d['elo']) * 4 ** d['k'] / 1e3
    if sec == 'arith':
        return 5000 if d['tier'] == 'thorough' else 500
    if sec == 'fixed':
        return 4 ** sum(d['fmt']) / 10
    return 10


def _run_sequences(d):
    """the helpers are functions of their argument only: the same call must give the same answer whatever was
    converted before it in the same process (all orders of a small set of values that compare equal / are neighbours)"""
    import itertools
    import struct
    from py4hw.helper import FloatingPointHelper as H
    acc = Acc('sequence', d)
    vals = [0.0, -0.0, 1.0, -1.0, 5e-324, -5e-324]

    def ref(fn, v):
        if fn == 'sp':
            return struct.unpack('<I', struct.pack('<f', v))[0]
        return struct.unpack('<Q', struct.pack('<d', v))[0]
    calls = [('sp', H.sp_to_ieee754), ('dp', H.dp_to_ieee754)]
    for perm in itertools.permutations(range(len(vals)), 3):
        for name, fn in calls:
            seq = [vals[i] for i in perm]
            got = []
            for v in seq:
                ok, r = _call(fn, v)
                got.append(r if ok else 'exc')
            exp = [ref(name, v) for v in seq]
            acc.evals += 1
            acc.nontriv += 1
            acc.outcomes.add(tuple(got))
            if got != exp:
                acc.fail('%s_to_ieee754_depends_on_earlier_calls' % name, 'order',
                         {'section': 'sequence', 'fn': name, 'values': [repr(v) for v in seq]},
                         {'values': [repr(v) for v in seq], 'got': [hex(g) if isinstance(g, int) else g for g in got],
                          'expected': [hex(e) for e in exp]})
    acc.sample = {'section': 'sequence', 'values': [repr(v) for v in vals], 'orders': 'all ordered triples'}
    return acc.result()


def narrow_checks(bits):
    """A double (given by its bit pattern) handed to the single-precision encoders: Python numbers are doubles, and the
    platform's encoding of a double as a single is struct.pack('<f') (round to nearest, ties to even)."""
    import struct
    v = struct.unpack('<d', struct.pack('<Q', bits))[0]
    try:
        exp = struct.unpack('<I', struct.pack('<f', v))[0]
    except OverflowError:
        return None, ()                      # beyond the largest single: not constrained
    out = []
    ok, got = _call(H.sp_to_ieee754, v)
    if not ok or got != exp:
        out.append(('sp_to_ieee754(double)', {'input_double_bits': hex(bits), 'value': repr(v),
                                              'got': hex(got) if isinstance(got, int) else got, 'expected': hex(exp)}))
    ok, parts = _call(H.sp_to_ieee754_parts, v)
    pk = None
    if ok and isinstance(parts, tuple) and len(parts) == 3:
        try:
            pk = (parts[0] << 31) + (parts[1] << 23) + parts[2]     # a mantissa carry may sit in bit 23: same number
        except TypeError:
            pk = None
    if pk != exp:
        out.append(('sp_to_ieee754_parts(double)', {'input_double_bits': hex(bits), 'value': repr(v), 'got': repr(parts),
                                                    'expected': 'parts of ' + hex(exp)}))
    return out, (got if ok else 'exc',)


def _narrow_patterns(sign, elo, ehi):
    """around every single-precision rounding boundary of the exponent range: for each single (exponent field e, mantissa
    from the 64-pattern alphabet) the doubles x, x + ulp/2 (the tie), x + ulp/4, x + 3ulp/4 and the doubles adjacent to those"""
    import struct
    ms = fp.mantissa_patterns(23, 3)
    for e in range(elo, ehi):
        if e == 255:
            continue
        for m in ms:
            x = fp.bits_to_float(fp.join(0, e, m, 'sp'), 'sp')
            nx = fp.bits_to_float(fp.join(0, e, m, 'sp') + 1, 'sp')
            if math.isinf(nx):
                nx = 2.0 ** 128
            for num in (0, 1, 2, 3):
                d = x + (nx - x) * num / 4          # exact in double
                for c in (math.nextafter(d, 0.0), d, math.nextafter(d, math.inf)):
                    b = struct.unpack('<Q', struct.pack('<d', c))[0]
                    yield b | (sign << 63)


def _run_narrow(desc):
    acc = Acc('narrow', desc)
    for b in _narrow_patterns(desc['sign'], desc['elo'], desc['ehi']):
        fails, obs = narrow_checks(b)
        if fails is None:
            acc.skipped += 1
            continue
        acc.evals += 1
        acc.nontriv += 1 if b & ~(1 << 63) else 0
        acc.outcomes.add(obs)
        if acc.sample is None and acc.evals == 5:
            acc.sample = {'section': 'narrow', 'double_bits': hex(b), 'observed': [hex(o) if isinstance(o, int) else o for o in obs]}
        for check, detail in fails:
            e = (b >> 52) & 0x7ff
            k = 'to_subnormal' if e < 1023 - 126 else 'to_normal'
            acc.fail(check, k, {'section': 'narrow', 'bits': b}, detail)
    return acc.result()


def run_shard(d):
    sec = d['section']
    if sec == 'sequence':
        return _run_sequences(d)
    if sec == 'narrow':
        return _run_narrow(d)
    if sec == 'hp':
        return _run_patterns(d, 'hp', range(d['slice'] << 12, (d['slice'] + 1) << 12))
    if sec in ('sp', 'dp'):
        return _run_patterns(d, sec, _alphabet_patterns(sec, d['sign'], d['elo'], d['ehi'], d['k']))
    if sec == 'c2':
        return _run_c2(d)
    if sec == 'arith':
        return _run_arith(d)
    if sec == 'fixed':
        return _run_fixed(d)
    raise ValueError(sec)


def replay(v):
    """Re-run the one failing case with plain calls."""
    case = v['trace'][0]
    check = v['detail']['check']
    sec = case['section']
    if sec == 'sequence':
        r = _run_sequences({'section': 'sequence'})
        hit = [x for x in r['violations'] if x['sig'] == v['sig']]
        return {'case': case, 'violates': bool(hit), 'failures': hit[:1]}
    if sec == 'pattern':
        fails, obs = pattern_checks(case['fmt'], case['bits'])
    elif sec == 'c2':
        fails, obs = c2_checks(case['w'], case['v'])
    elif sec == 'narrow':
        fails, obs = narrow_checks(case['bits'])
    elif sec == 'arith':
        fails, obs = arith_checks(tuple(case['a']), tuple(case['b']))
    elif sec == 'fixed':
        fails, obs, _ = fixed_checks(case['fmt'], case['a'], case['b'], case['reading'])
    else:
        raise ValueError(sec)
    mine = [d for c, d in fails if c == check]
    return {'case': case, 'check': check, 'violates': bool(mine), 'failures': mine[:1],
            'other_failing_checks': sorted({c for c, _ in fails if c != check})}


def finish(cov, results, tier):
    """Evidence samples: one per section; per-section evaluation counts and which sections were fully enumerated."""
    per, samp = {}, {}
    for r in results:
        sec = r['shard']['section']
        p = per.setdefault(sec, {'evaluations': 0, 'shards': 0})
        p['evaluations'] += r.get('evaluations', 0)
        p['shards'] += 1
        for s in r.get('samples', []):
            if 'rejected' not in s:
                samp.setdefault(sec, s)
    for sec, p in per.items():
        p['exhaustive'] = sec in ('hp', 'c2', 'fixed')
    cov['sections'] = per
    cov['samples'] = [samp[k] for k in sorted(samp)]
    cov['exhaustive_note'] = ('hp (all 2^16 patterns), two\'s complement and FixedPoint are fully enumerated at the stated '
                              'bound; sp, dp and FPNum arithmetic are exhaustive over the stated alphabets only')
    cov['fixedpoint_mult_readings'] = sorted({r['mult_reading'] for r in results if r.get('mult_reading')})
