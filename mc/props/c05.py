"""C05 — clock edges are atomic.

For each design with several sequential blocks: BFS over all input sequences (identity
visit order).  On every transition (state s, input x) the edge is re-executed from s under
every permutation of the simulator's clockable list and must reach the same snapshot;
Wire.prepared must be empty after every clk; clk(n) must equal every splitting of n into
smaller clk() calls (n <= 4) including total_clks; two systems stepped alternately must
behave as when stepped alone (Wire.prepared is process-global)."""
import itertools
import types

import py4hw
from py4hw.base import Logic, Wire
from mc import core
from mc.props import c04

LEVEL = 'model_checking'
RULE = ('one shard per design; BFS over the reachable states with all input vectors per state; per transition all k! '
        'permutations of Simulator.clockDrivers[drv].clockables (k<=5; above that identity, reverse, rotations and adjacent '
        'transpositions, reported as non-exhaustive) are executed from the same restored pre-state and compared snapshot '
        'against snapshot; per (state, input) every composition of n<=4 cycles into clk() calls; cross-system interleavings <= 4')
ASSUMPTIONS = ['inputs are held constant across the cycles of one clk(n) call',
               'permuting the public attribute ClockDriverSimulator.clockables models "every evaluation order of the sequential blocks"']
BOUNDS = {'quick': 'register chains/rings k<=3, widths<=2, all 512 digraphs of 3 harness sequential blocks in 64 groups, library compositions at small parameters, an FSM reading the UART serializer handshake, the Waveform recorder among the registers it watches (all sequences <= 4, all orders)',
          'thorough': 'chains/rings k<=5, widths<=2, digraphs of 3 sequential blocks, n=4 DAG+1 families, larger library compositions incl. UART transmitter'}
for k in ('quick', 'thorough'):
    BOUNDS[k] += '; also a multi-output leaf created after its consumers, clk() after a call aborted by an exception, two systems poked and then clocked in lockstep'


class MooreG(Logic):
    def __init__(self, parent, name, en, o):
        super().__init__(parent, name)
        self.en = self.addIn('en', en)
        self.o = self.addOut('o', o)
        self.s = 0

    def clock(self):
        if self.en.get():
            self.s = (self.s + 1) % 3

    def propagate(self):
        self.o.put(1 if self.s == 2 else 0)


def designs(tier):
    T = tier == 'thorough'
    out = []
    for k in range(2, 6 if T else 4):
        for w in (1, 2):
            out.append({'d': 'chain', 'k': k, 'w': w})
        out.append({'d': 'ring', 'k': k})
    for w in (1, 2):
        out.append({'d': 'swap', 'w': w})
    out.append({'d': 'regmem'})
    out.append({'d': 'twomem'})
    out.append({'d': 'bidirseq'})
    out.append({'d': 'revcomb'})
    out.append({'d': 'fsmreg'})
    out.append({'d': 'delayline', 'delay': 3, 'w': 1})
    out.append({'d': 'shiftbidir', 'depth': 3, 'w': 1})
    out.append({'d': 'stack', 'depth': 2, 'w': 1})
    out.append({'d': 'counter_chain', 'w': 2})
    out.append({'d': 'clockdiv', 'n': 2})
    out.append({'d': 'dualmem'})
    out.append({'d': 'moore'})
    out.append({'d': 'resetchain'})
    out.append({'d': 'gatedchain'})
    out.append({'d': 'twodelay'})
    # an FSM block that reads the serializer's ready output directly (no combinational flow control in between)
    out.append({'d': 'uart_seq'})
    # a multi-output combinational leaf created AFTER the consumers of its outputs, between a counter and registers
    out.append({'d': 'multiout'})
    # the clocked recorder among the sequential blocks it watches (created first / in the middle / last)
    for pos in (0, 1, 2):
        out.append({'d': 'wave', 'pos': pos})
    for k in (2, 3):
        out.append({'d': 'multidrv', 'k': k})
    if T:
        out.append({'d': 'delayline', 'delay': 4, 'w': 2})
        out.append({'d': 'shiftbidir', 'depth': 4, 'w': 1})
        out.append({'d': 'stack', 'depth': 3, 'w': 1})
        out.append({'d': 'uart_tx', 'n': 2})
    for lo in range(0, 512, 8):
        out.append({'d': 'seqg', 'n': 3, 'lo': lo, 'hi': lo + 8})
    if T:
        for code in range(64):
            out.append({'d': 'seqg4', 'n': 4, 'lo': code, 'hi': code + 1})
    return out


class _Abort(Exception):
    pass


class _Stopper:
    def __init__(self, sim):
        self.sim, self.n, self.at, self.boom = sim, 0, None, False

    def simulatorUpdated(self):
        self.n += 1
        if self.n == self.at:
            if self.boom:
                raise _Abort()
            self.sim.stop()


def shards(tier):
    return designs(tier)


def cost(d):
    return {'uart_tx': 1000, 'seqg4': 50, 'seqg': 20, 'dualmem': 100, 'regmem': 30, 'twomem': 30}.get(d['d'], 5) * d.get('k', 1)


def build(d, sub=None):
    hw = py4hw.HWSystem()
    free = []

    def I(n, w=1):
        x = hw.wire(n, w)
        free.append(x)
        return x
    k = d['d']
    if k == 'chain':
        w = d['w']
        last = I('x', w)
        for i in range(d['k']):
            q = hw.wire('q%d' % i, w)
            py4hw.Reg(hw, 'r%d' % i, last, q)
            last = q
    elif k == 'ring':
        n = d['k']
        qs = [hw.wire('q%d' % i) for i in range(n)]
        x = I('x')
        d0 = hw.wire('d0')
        py4hw.Xor2(hw, 'x0', x, qs[-1], d0)
        en = I('en')
        for i in range(n):
            py4hw.Reg(hw, 'r%d' % i, d0 if i == 0 else qs[i - 1], qs[i], enable=en if i == 1 else None)
    elif k == 'swap':
        w = d['w']
        a, b = hw.wire('a', w), hw.wire('b', w)
        x, load, e = I('x', w), I('load'), I('e')
        da = hw.wire('da', w)
        py4hw.Mux2(hw, 'm', load, b, x, da)
        py4hw.Reg(hw, 'ra', da, a)
        py4hw.Reg(hw, 'rb', a, b, enable=e)
    elif k == 'regmem':
        q, rd, dd = hw.wire('q'), hw.wire('rd'), hw.wire('dd')
        x, wa, wr = I('x'), I('wa'), I('wr')
        py4hw.Xor2(hw, 'xd', x, rd, dd)
        py4hw.Reg(hw, 'r', dd, q)
        py4hw.SynchronousMemory(hw, 'mem', q, wa, wr, rd, q)
        q2 = hw.wire('q2')
        py4hw.Reg(hw, 'r2', rd, q2)
    elif k == 'twomem':
        # two independent memories of one class in one design: one is written, the other one is read at the same address
        q, rd0, rd1 = hw.wire('q'), hw.wire('rd0'), hw.wire('rd1')
        x, wa, wr = I('x'), I('wa'), I('wr')
        py4hw.Reg(hw, 'r', x, q)
        py4hw.SynchronousMemory(hw, 'mem0', wa, wa, wr, rd0, x)
        py4hw.SynchronousMemory(hw, 'mem1', wa, q, hw.wire('never'), rd1, q)
        q2 = hw.wire('q2')
        py4hw.Xor2(hw, 'xr', rd0, rd1, hw.wire('xr'))
        py4hw.Reg(hw, 'r2', hw._wires['xr'], q2)
    elif k == 'revcomb':
        # combinational blocks between registers, created consumer first: the very first block of the system reads a block
        # that is created after it
        x, load = I('x', 2), I('load')
        q, sm, m, q2 = hw.wire('q', 2), hw.wire('sm', 2), hw.wire('m', 2), hw.wire('q2', 2)
        py4hw.Mux2(hw, 'mux', load, sm, x, m)
        py4hw.Add(hw, 'add', q, x, sm)
        py4hw.Reg(hw, 'acc', m, q)
        py4hw.Reg(hw, 'dly', sm, q2)
    elif k == 'bidirseq':
        # a bidirectional wire driven by a sequential block (prepare) and by an in/out buffer; a combinational reader
        # of the pad (the buffer's pin output) feeds a register
        bd, pin, q = hw.bidir_wire('bd'), hw.wire('pin'), hw.wire('q')
        pout, poe = I('pout'), I('poe')
        py4hw.Sequence(hw, 'seqbd', [0, 1, 1, 0, 1], bd)
        py4hw.BidirBuf(hw, 'iobuf', pin, pout, poe, bd)
        py4hw.Reg(hw, 'r', pin, q)
    elif k == 'dualmem':
        q, rda, rdb, dd = hw.wire('q'), hw.wire('rda'), hw.wire('rdb'), hw.wire('dd')
        x, wa, wr = I('x'), I('wa'), I('wr')
        py4hw.Xor2(hw, 'xd', x, rda, dd)
        py4hw.Reg(hw, 'r', dd, q)
        py4hw.DualPortSynchronousMemory(hw, 'mem', q, wa, wr, rda, q, wa, q, x, rdb, rda)
    elif k == 'fsmreg':
        from py4hw.logic.protocol.uart.clock import ClockSyncFSM
        start = I('start')
        sync, active, q, q2 = hw.wire('sync'), hw.wire('active'), hw.wire('q'), hw.wire('q2')
        ClockSyncFSM(hw, 'fsm', start, q, sync, active)
        py4hw.Reg(hw, 'r', active, q)
        py4hw.Reg(hw, 'r2', sync, q2)
    elif k == 'delayline':
        a, en, rs, r = I('a', d['w']), I('en'), I('reset'), hw.wire('r', d['w'])
        py4hw.DelayLine(hw, 'dl', a, en, rs, r, d['delay'])
    elif k == 'shiftbidir':
        w = d['w']
        py4hw.ShiftRegisterBidirectional(hw, 'sh', I('li', w), I('ri', w), hw.wire('lo', w), hw.wire('ro', w),
                                         I('sl'), I('sr'), d['depth'])
    elif k == 'stack':
        w = d['w']
        py4hw.Stack_ShiftRegister(hw, 'st', I('din', w), hw.wire('dout', w), I('push'), I('pop'), None, None, d['depth'])
    elif k == 'counter_chain':
        w = d['w']
        q, q2, t = hw.wire('q', w), hw.wire('q2', w), hw.wire('t')
        py4hw.Counter(hw, 'cnt', I('reset'), I('inc'), q)
        py4hw.Reg(hw, 'r', q, q2)
        b0 = hw.wire('b0')
        py4hw.Bit(hw, 'b0', q2, 0, b0)
        py4hw.TReg(hw, 't', b0, t)
    elif k == 'clockdiv':
        ck, q = hw.wire('ck'), hw.wire('q')
        py4hw.ClockDivider(hw, 'cd', 2 * d['n'], 1, ck, reset=I('reset'))
        py4hw.Reg(hw, 'r', ck, q)
    elif k == 'uart_tx':
        from py4hw.logic.protocol.uart.serdes import UARTSerializer
        from py4hw.logic.protocol.uart.clock import ClockGenerationAndRecovery
        ready, tx, pulse, sample = hw.wire('ready'), hw.wire('tx'), hw.wire('pulse'), hw.wire('sample')
        valid, v = I('valid'), I('v', 8)
        desync = I('desync')
        ClockGenerationAndRecovery(hw, 'ck', tx, desync, pulse, sample, 2 * d['n'], 1)
        UARTSerializer(hw, 'ser', ready, valid, v, pulse, tx)
    elif k == 'uart_seq':
        from py4hw.logic.protocol.uart.serdes import UARTSerializer
        from py4hw.logic.protocol.uart.sequencer import MsgSequencer
        ready, valid, v, tx = hw.wire('ready'), hw.wire('valid'), hw.wire('v', 8), hw.wire('tx')
        pulse = I('pulse')
        UARTSerializer(hw, 'ser', ready, valid, v, pulse, tx)
        MsgSequencer(hw, 'msg', ready, valid, v, 'aZ')
        py4hw.Reg(hw, 'rtx', tx, hw.wire('qtx'))
    elif k == 'multiout':
        inc = I('inc')
        cnt = hw.wire('cnt', 2)
        b0, b1, n0, n1 = hw.wire('b0'), hw.wire('b1'), hw.wire('n0'), hw.wire('n1')
        py4hw.Not(hw, 'inv0', b0, n0)
        py4hw.Not(hw, 'inv1', b1, n1)
        py4hw.Reg(hw, 'r0', n0, hw.wire('q0'))
        py4hw.Reg(hw, 'r1', n1, hw.wire('q1'))
        py4hw.BitsLSBF(hw, 'bits', cnt, [b0, b1])
        py4hw.Counter(hw, 'cnt', hw.wire('never'), inc, cnt)
    elif k == 'resetchain':
        # registers with individual reset / enable ports feeding plain registers (and vice versa), 2-bit data
        x, r0, r2, e1 = I('x', 2), I('rst0'), I('rst2'), I('e1')
        q0, q1, q2, q3 = hw.wire('q0', 2), hw.wire('q1', 2), hw.wire('q2', 2), hw.wire('q3', 2)
        py4hw.Reg(hw, 'r0', x, q0, reset=r0, reset_value=2)
        py4hw.Reg(hw, 'r1', q0, q1, enable=e1)
        py4hw.Reg(hw, 'r2', q1, q2, reset=r2, reset_value=1)
        py4hw.Reg(hw, 'r3', q2, q3)
    elif k == 'gatedchain':
        # a stage in a gated domain whose enable is a register output of the base domain
        x, enx = I('x'), I('enx')
        q0, q1, q2, en = hw.wire('q0'), hw.wire('q1'), hw.wire('q2'), hw.wire('en')
        py4hw.Reg(hw, 'enreg', enx, en)
        py4hw.Reg(hw, 'r0', x, q0)
        g = Logic(hw, 'g')
        g.clockDriver = py4hw.ClockDriver('gclk', base=hw.clockDriver, enable=en)
        g.addIn('d', q0)
        g.addOut('q', q1)
        py4hw.Reg(g, 'r', q0, q1)
        py4hw.Reg(hw, 'r2', q1, q2)
    elif k == 'twodelay':
        # two instances of the same structural block: their internal register wires carry the same local names
        a, b = I('a'), I('b')
        py4hw.DelayLine(hw, 'dl_a', a, None, None, hw.wire('ra'), 2)
        py4hw.DelayLine(hw, 'dl_b', b, None, None, hw.wire('rb'), 3)
        s2 = hw.wire('s2')
        py4hw.Xor2(hw, 'x', hw._wires['ra'], hw._wires['rb'], s2)
        py4hw.Reg(hw, 'rs', s2, hw.wire('qs'))
    elif k == 'moore':
        # a leaf that keeps its state in attributes only: clock() advances it (no prepare), propagate() decodes it
        en = I('en')
        o, q, q2 = hw.wire('o'), hw.wire('q'), hw.wire('q2')
        MooreG(hw, 'moore', en, o)
        py4hw.Reg(hw, 'r', o, q)
        py4hw.Reg(hw, 'r2', q, q2, enable=en)
    elif k == 'multidrv':
        # register chain whose stages alternate between the system clock driver and further (ungated) drivers
        n = d['k']
        last = I('x')
        for i in range(2 * n):
            q = hw.wire('q%d' % i)
            if i % 2 == 0:
                py4hw.Reg(hw, 'r%d' % i, last, q)
            else:
                g = Logic(hw, 'g%d' % i)
                g.clockDriver = py4hw.ClockDriver('clk%d' % i, base=hw.clockDriver)
                g.addIn('d', last)
                g.addOut('q', q)
                py4hw.Reg(g, 'r', last, q)
            last = q
    elif k in ('seqg', 'seqg4'):
        n = d['n']
        cc = c04.build(n, sub['edges'], ['s'] * n, list(range(n)), ('flat',))
        for j in cc.order:
            cc.inst(j)
        hw, free = cc.sys, cc.free
    else:
        raise ValueError(k)
    c = types.SimpleNamespace(sys=hw, free=free)
    c.sim = hw.getSimulator()
    c.st = core.SysState(hw, free=free)
    c.drv_items = list(c.sim.clockDrivers.items())
    c.base = [list(cds.clockables) for _, cds in c.drv_items]
    return c


def schedules(c):
    """all (driver order, per-driver clockable order) schedules; identity first"""
    sizes = [len(b) for b in c.base]
    per, full = [], True
    for k in sizes:
        p, f = perms(k)
        per.append(p)
        full = full and f
    dorders = list(itertools.permutations(range(len(sizes))))
    out = []
    for do in dorders:
        for combo in itertools.product(*per):
            out.append((do, combo))
    if len(out) > 720:
        out = out[:1] + out[1::max(1, len(out) // 720)]
        full = False
    return out, full


def apply_schedule(c, sch):
    do, combo = sch
    for (drv, cds), base, p in zip(c.drv_items, c.base, combo):
        cds.clockables = [base[i] for i in p]
    c.sim.clockDrivers = {c.drv_items[i][0]: c.drv_items[i][1] for i in do}


def perms(k):
    if k <= 5:
        return list(itertools.permutations(range(k))), True
    ps = {tuple(range(k)), tuple(reversed(range(k)))}
    for r in range(k):
        ps.add(tuple((i + r) % k for i in range(k)))
    for i in range(k - 1):
        p = list(range(k))
        p[i], p[i + 1] = p[i + 1], p[i]
        ps.add(tuple(p))
    return sorted(ps), False


def compositions(n):
    if n == 0:
        yield ()
        return
    for first in range(1, n + 1):
        for rest in compositions(n - first):
            yield (first,) + rest


def input_alphabet(d, c):
    widths = [w.getWidth() for w in c.free]
    if d['d'] == 'uart_tx':
        # v only matters when valid; 4 byte values
        return [(va, v, ds) for va in (0, 1) for v in ((0x00,) if not va else (0x00, 0xFF, 0x55, 0xA6)) for ds in (0, 1)]
    return list(core.vectors(widths))


def explore_design(d, sub, res):
    desc = dict(d)
    if sub:
        desc = {'d': d['d'], 'n': d['n'], 'edges': sub['edges']}

    def mk():
        return build(d, sub)
    c0 = mk()
    k = sum(len(b) for b in c0.base)
    if k < 2 and not sub:
        raise core.HarnessError('design %r has fewer than 2 sequential blocks' % (d,))
    P, full = schedules(c0)
    if not full:
        res['capped'] = True
    alpha = input_alphabet(d, c0)
    outcomes = res['_outcomes']

    def viol(kind, detail, trace):
        sig = 'C05:%s:%s' % (kind, d['d'])
        if sum(1 for v in res['violations'] if v['sig'] == sig) < 2:
            res['violations'].append({'sig': sig, 'shard': desc, 'trace': [list(t) for t in trace], 'detail': detail})

    def poke(c, x):
        for w, v in zip(c.free, x):
            w.put(v)

    def step(c, x):
        c.problem = None
        st = c.st
        pre = st.snapshot()
        t0 = c.sim.total_clks
        poke(c, x)
        c.sim.clk(1)
        if Wire.prepared:
            c.problem = {'sigkey': 'prepared_not_empty', 'left': [getattr(w, 'name', repr(w)) for w in list(Wire.prepared)][:6]}
            core.reset_prepared()
            return
        post = st.snapshot()
        # (1) every visit order
        for p in P[1:]:
            st.restore(pre)
            apply_schedule(c, p)
            poke(c, x)
            c.sim.clk(1)
            res['evaluations'] += 1
            if Wire.prepared:
                c.problem = {'sigkey': 'prepared_not_empty', 'schedule': repr(p)}
                core.reset_prepared()
                break
            got = st.snapshot()
            if got != post:
                diff = [(w.getFullPath(), a, b) for w, a, b in zip(st.wires, post[0], got[0]) if a != b]
                adiff = [(l.name, kk, a, b) for (l, kk), a, b in zip(st.slots, post[1], got[1]) if a != b]
                c.problem = {'sigkey': 'order_dependent', 'driver_order': list(p[0]),
                             'clockable_order_per_driver': [[b[i].getFullPath() for i in pp] for b, pp in zip(c.base, p[1])],
                             'wire_diff(identity,permuted)': diff[:6], 'attr_diff': adiff[:6], 'inputs': list(x)}
                break
        apply_schedule(c, P[0])
        # (3) clk(n) == any splitting
        if c.problem is None:
            for n in (2, 3, 4):
                st.restore(pre)
                poke(c, x)
                c.sim.total_clks = t0
                c.sim.clk(n)
                ref = (st.snapshot(), c.sim.total_clks)
                for comp in compositions(n):
                    if len(comp) == 1:
                        continue
                    st.restore(pre)
                    poke(c, x)
                    c.sim.total_clks = t0
                    for m in comp:
                        c.sim.clk(m)
                    res['evaluations'] += 1
                    got = (st.snapshot(), c.sim.total_clks)
                    if got != ref:
                        c.problem = {'sigkey': 'clk_n_split', 'n': n, 'split': list(comp), 'inputs': list(x),
                                     'total_clks': [ref[1], got[1]]}
                        break
                if c.problem:
                    break
                if ref[1] != t0 + n:
                    c.problem = {'sigkey': 'total_clks', 'n': n, 'got': ref[1] - t0}
                    break
        # (4) stop(): a listener asks for a stop during cycle k of clk(n) -> k cycles are simulated; the stop request is consumed:
        #     the following clk(2) simulates two cycles.  Altogether the same as k + 2 single-cycle calls.
        if c.problem is None:
            stopper = _Stopper(c.sim)
            c.sim.addListener(stopper)
            try:
                for n in (1, 2, 3):
                    for k in range(1, n + 1):
                        st.restore(pre)
                        poke(c, x)
                        c.sim.total_clks = t0
                        stopper.n, stopper.at = 0, k
                        # for n == 3 the run is not stopped but aborted: the listener raises, the caller catches and goes on
                        stopper.boom = (n == 3)
                        try:
                            c.sim.clk(n)
                        except _Abort:
                            pass
                        stopper.boom = False
                        mid = c.sim.total_clks
                        stopper.at = None
                        c.sim.clk(2)
                        got = (st.snapshot(), c.sim.total_clks)
                        st.restore(pre)
                        poke(c, x)
                        c.sim.total_clks = t0
                        for _ in range(k + 2):
                            c.sim.clk(1)
                        ref = (st.snapshot(), c.sim.total_clks)
                        res['evaluations'] += 1
                        if n == 3:
                            # aborted by an exception: the cycle counter is not part of the comparison (the statement does not
                            # say what it shows after an aborted call), the circuit state is
                            bad = got[0] != ref[0]
                        else:
                            bad = got != ref or mid != t0 + k
                        if bad:
                            c.problem = {'sigkey': 'stop_request' if n != 3 else 'run_after_aborted_call', 'n': n, 'stop_in_cycle': k, 'inputs': list(x),
                                         'cycles_after_stopped_call': mid - t0, 'total_clks(after clk(2), k+2 single calls)': [got[1] - t0, ref[1] - t0]}
                            break
                    if c.problem:
                        break
            finally:
                c.sim.listeners.remove(stopper)
        st.restore(post)
        c.sim.total_clks = t0 + 1

    def check(c, x):
        if c.problem:
            return c.problem
        outcomes.add(tuple(w.value for w in c.st.wires))
        return None

    ex = core.Explorer(mk, lambda c: alpha, check, step=step, max_states=20000 if d['d'] != 'uart_tx' else 4000,
                       validate_every=1 if sub else 3)
    ex.run()
    res['states'] += ex.states
    res['transitions'] += ex.transitions
    res['evaluations'] += ex.transitions
    res['traces_validated_against_impl'] += ex.validated
    res['programs'] += 1
    res['perms'] = max(res.get('perms', 0), len(P))
    if ex.capped:
        res['capped'] = True
    for kind, trace, detail in ex.violations:
        viol(detail.get('sigkey', 'mismatch'), detail, trace)
    if len(res['samples']) < 1 and ex.sample_traces:
        res['samples'].append({'design': desc, 'visit_orders': len(P), 'input_sequence': ex.sample_traces[-1]})


def _wave_run(d, xs, perm, split=None):
    """chain of two registers + a Waveform over their outputs and the input; fresh system, fixed visit order"""
    hw = py4hw.HWSystem()
    x, q0, q1 = hw.wire('x'), hw.wire('q0'), hw.wire('q1')
    made = 0
    wf = None
    for i in range(3):
        if i == d['pos']:
            wf = py4hw.Waveform(hw, 'wf', [x, q0, q1])
        else:
            py4hw.Reg(hw, 'r%d' % made, x if made == 0 else q0, q0 if made == 0 else q1)
            made += 1
    sim = hw.getSimulator()
    (drv, cds), = list(sim.clockDrivers.items())
    base = list(cds.clockables)
    if len(base) != 3:
        raise core.HarnessError('wave design: %d clockables' % len(base))
    cds.clockables = [base[i] for i in perm]
    if split is None:
        for v in xs:
            x.put(v)
            sim.clk(1)
    else:
        x.put(xs[0])
        for m in split:
            sim.clk(m)
    left = list(Wire.prepared)
    core.reset_prepared()
    return {'wires': [q0.get(), q1.get()], 'samples': [list(wf.data.get(w, [])) for w in (x, q0, q1)], 'prepared_left': len(left)}


def run_wave(d, res):
    L = 4
    perms3 = list(itertools.permutations(range(3)))
    for n in range(1, L + 1):
        for xs in itertools.product((0, 1), repeat=n):
            ref = _wave_run(d, xs, perms3[0])
            res['_outcomes'].add(repr(ref))
            res['transitions'] += 1
            for p in perms3[1:]:
                got = _wave_run(d, xs, p)
                res['evaluations'] += 1
                if got != ref and not any(v['sig'] == 'C05:order_dependent:wave' for v in res['violations']):
                    res['violations'].append({'sig': 'C05:order_dependent:wave', 'shard': dict(d), 'trace': [[v] for v in xs],
                                              'detail': {'visit_order': list(p), 'identity_order': ref, 'permuted_order': got}})
    # clk(n) against its splittings, recorder included
    for n in (2, 3, 4):
        for x0 in (0, 1):
            ref = _wave_run(d, (x0,), perms3[0], split=(n,))
            for comp in compositions(n):
                got = _wave_run(d, (x0,), perms3[0], split=comp)
                res['evaluations'] += 1
                if got != ref and not any(v['sig'] == 'C05:clk_n_split:wave' for v in res['violations']):
                    res['violations'].append({'sig': 'C05:clk_n_split:wave', 'shard': dict(d), 'trace': [[x0]],
                                              'detail': {'n': n, 'split': list(comp), 'one_call': ref, 'split_calls': got}})
    res['programs'] += 1
    res['states'] += 2 ** (L + 1) - 2
    res['perms'] = max(res.get('perms', 0), len(perms3))
    if not res['samples']:
        res['samples'].append({'design': dict(d), 'visit_orders': 6, 'input_sequences': 'all of length <= 4'})


def cross_system(res):
    """(4) two systems stepped alternately in every interleaving of length <= 4."""
    da, db = {'d': 'swap', 'w': 1}, {'d': 'ring', 'k': 3}
    xa = [(1, 1, 1), (0, 0, 1), (1, 0, 0), (0, 1, 1)]
    xb = [(1, 1), (0, 1), (1, 0), (1, 1)]

    def solo(d, xs, n):
        c = build(d)
        out = []
        for x in xs[:n]:
            for w, v in zip(c.free, x):
                w.put(v)
            c.sim.clk(1)
            out.append(c.st.snapshot())
        return out
    sa, sb = solo(da, xa, 4), solo(db, xb, 4)
    # both systems poked first, then both clocked (lockstep co-simulation), either one first
    for order in ('AB', 'BA'):
        ca, cb = build(da), build(db)
        for i in range(4):
            for c, xs in ((ca, xa), (cb, xb)):
                for w, v in zip(c.free, xs[i]):
                    w.put(v)
            for ch in order:
                (ca if ch == 'A' else cb).sim.clk(1)
            res['evaluations'] += 1
            for ch, c, exp in (('A', ca, sa[i]), ('B', cb, sb[i])):
                if c.st.snapshot() != exp:
                    res['violations'].append({'sig': 'C05:cross_system_leak', 'shard': {'d': 'cross'}, 'trace': [['lockstep', order, i]],
                                              'detail': {'pattern': 'poke A, poke B, then clk %s, clk %s' % (order[0], order[1]), 'system': ch, 'step': i}})
                    return
    for L in range(1, 5):
        for pat in itertools.product('AB', repeat=L):
            ca, cb = build(da), build(db)
            ia = ib = 0
            for ch in pat:
                c, xs = (ca, xa) if ch == 'A' else (cb, xb)
                i = ia if ch == 'A' else ib
                for w, v in zip(c.free, xs[i]):
                    w.put(v)
                c.sim.clk(1)
                got = c.st.snapshot()
                exp = (sa if ch == 'A' else sb)[i]
                res['evaluations'] += 1
                if got != exp:
                    res['violations'].append({'sig': 'C05:cross_system_leak', 'shard': {'d': 'cross'}, 'trace': [list(pat)],
                                              'detail': {'pattern': ''.join(pat), 'system': ch, 'step': i}})
                    return
                if ch == 'A':
                    ia += 1
                else:
                    ib += 1


def run_shard(d):
    res = {'programs': 0, 'states': 0, 'transitions': 0, 'traces_validated_against_impl': 0, 'evaluations': 0,
           'violations': [], 'samples': [], '_outcomes': set()}
    if d['d'] in ('seqg', 'seqg4'):
        n = d['n']
        if d['d'] == 'seqg':
            pairs = c04.all_pairs(n)
            sets = [c04.edges_of(n, code, pairs) for code in range(d['lo'], d['hi'])]
        else:
            sets = list(c04.edge_sets({'n': n, 'space': 'dag+1', 'lo': d['lo'], 'hi': d['hi']}))
        for edges in sets:
            explore_design(d, {'edges': edges}, res)
    elif d['d'] == 'wave':
        run_wave(d, res)
    else:
        explore_design(d, None, res)
        if d == {'d': 'swap', 'w': 1}:
            cross_system(res)
    res['distinct_outcomes'] = len(res.pop('_outcomes'))
    res['distinct_nontrivial'] = res['distinct_outcomes']
    return res


def replay(v):
    d = v['shard']
    sub = {'edges': [tuple(e) for e in d['edges']]} if 'edges' in d else None
    if d.get('d') == 'cross':
        res = {'evaluations': 0, 'violations': []}
        cross_system(res)
        return {'violates': bool(res['violations']), 'detail': res['violations'][:1]}
    if d.get('d') == 'wave':
        res = {'evaluations': 0, 'violations': [], 'samples': [], '_outcomes': set(), 'transitions': 0, 'programs': 0, 'states': 0}
        run_wave(d, res)
        hit = [x for x in res['violations'] if x['sig'] == v['sig']]
        return {'design': d, 'violates': bool(hit), 'detail': [x['detail'] for x in hit[:1]]}
    dd = {'d': d['d'], 'n': d.get('n')} if sub else d
    if any(k in v['sig'] for k in ('stop_request', 'run_after_aborted_call')):
        # found by the stop()/abort part of the per-transition checks: the design is explored again, the same finding must come up
        res = {'programs': 0, 'states': 0, 'transitions': 0, 'traces_validated_against_impl': 0, 'evaluations': 0,
               'violations': [], 'samples': [], '_outcomes': set()}
        explore_design(dd, sub, res)
        hit = [x for x in res['violations'] if x['sig'] == v['sig']]
        return {'design': d, 'violates': bool(hit), 'detail': [x['detail'] for x in hit[:1]]}
    obs = {}
    tr = [tuple(x) for x in v['trace']]
    P, _ = schedules(build(dd, sub))
    snaps = {}
    for p in P:
        c = build(dd, sub)
        apply_schedule(c, p)
        for x in tr:
            for w, val in zip(c.free, x):
                w.put(val)
            c.sim.clk(1)
        snaps[repr(p)] = (c.st.snapshot(), list(Wire.prepared))
        core.reset_prepared()
    distinct = {repr(s) for s in snaps.values()}
    out = {'design': d, 'orders_tried': len(P), 'distinct_final_states_over_orders': len(distinct)}
    bad = len(distinct) > 1 or any(s[1] for s in snaps.values())
    # clk(n) splitting on the last input
    if not bad and tr:
        for n in (2, 3, 4):
            ref = None
            for comp in compositions(n):
                c = build(dd, sub)
                for x in tr[:-1]:
                    for w, val in zip(c.free, x):
                        w.put(val)
                    c.sim.clk(1)
                for w, val in zip(c.free, tr[-1]):
                    w.put(val)
                for m in comp:
                    c.sim.clk(m)
                got = (c.st.snapshot(), c.sim.total_clks)
                if ref is None:
                    ref = got
                elif got != ref:
                    bad = True
                    out['split_mismatch'] = {'n': n, 'split': list(comp)}
    out['violates'] = bool(bad)
    return out
