"""C15 - waveform capture records exactly what the wires carried, once per cycle.

Bounded-history enumeration (the recorder grows with every cycle, so there is no
closure): a prefix tree of call sequences is walked depth-first on ONE live
system per shard (snapshot / restore of wires, leaf attributes and the
recorder's sample lists between siblings; every k-th node is re-executed on a
freshly built system and must give the identical recording).  At every node of
the tree

* ``Waveform.getDict()`` of every watch-list entry must equal the reference
  per-cycle sequence (value poked on the free wire; buffer output = same value;
  register output = previous cycle's value), one sample per cycle since the
  last ``clear()``;
* the WaveJSON returned by ``get_wavedrom()`` is decoded by the independent
  decoder in mc/refmodels/wave.py and every signal lane must give the same
  sequence, all lanes (clock lane included) must have the same number of slots,
  the clock lane must show a clock in every sample slot and the number of sample
  slots equals the number of recorded cycles.

Tree edges ("actions"):  ('s', idx, n) poke alphabet entry idx on the free wires
and call ``clk(n)``;  ('clear',) ``Waveform.clear()``;  ('clk0',) poke and call
``clk(0)``.
"""
import copy
import gc
import itertools
import re

import py4hw
from mc import core
from mc.refmodels import wave as ref

LEVEL = 'exploration'
EXHAUSTIVE = True

ALPHA1 = [0, 1]


def alpha_wide(w):
    if w == 2:
        return [0, 1, 2, 3]
    m = (1 << w) - 1
    if w >= 64:
        # neighbours above 2**63 that differ only in their low bits, next to values below 2**63
        return [0, (1 << 63) + 1, (1 << 63) + 2, m]
    return [0, 1, 0xA if w == 4 else (0x1ABCDEF0A & m), m]


# watch-list shapes.  entry 'a' = the wide free wire, 'b' = the 1-bit free wire,
# '<x>.in' / '<x>.out' = the InPort / OutPort object of a Buf fed by x,
# '<x>.q' = the output wire of a Reg fed by x, '<x>.qport' = that Reg's OutPort object.
SHAPES = {
    'w1': {'entries': ['b']},
    'w2': {'entries': ['a'], 'W': 2},
    'w4': {'entries': ['a'], 'W': 4},
    'w33': {'entries': ['a'], 'W': 33},
    'w64': {'entries': ['a'], 'W': 64},
    'dup1': {'entries': ['b', 'b']},
    'dup4': {'entries': ['a', 'a'], 'W': 4},
    'inport1': {'entries': ['b.in']},
    'inport4': {'entries': ['a.in'], 'W': 4},
    'outport1': {'entries': ['b.out']},
    'outport4': {'entries': ['a.out'], 'W': 4},
    'alias1': {'entries': ['b', 'b.in', 'b.out']},
    'alias4': {'entries': ['a', 'a.in', 'a.out'], 'W': 4},
    'portdup4': {'entries': ['a.in', 'a', 'a.in'], 'W': 4},
    'regq1': {'entries': ['b', 'b.q']},
    'regq4': {'entries': ['a.qport', 'a', 'a.q'], 'W': 4},
    'mixed_ba': {'entries': ['b', 'a'], 'W': 4},
    'mixed_ab': {'entries': ['a', 'b'], 'W': 4},
    'mixed_all': {'entries': ['a', 'b', 'a.in', 'b', 'b.out', 'a.out', 'a'], 'W': 4},
    'bare1': {'entries': ['b'], 'bare': True},          # Waveform(hw, name, wire) without a list
    # the recorder is created after the simulator has already been obtained once (it must still be clocked)
    'regq1_late': {'entries': ['b', 'b.q'], 'late': True},
    # the simulator class is instantiated directly on the system that already has its simulator (what a tool does)
    'regq1_direct': {'entries': ['b', 'b.q'], 'direct': True},
    # the watched register sits in a sub-block with its own (ungated) clock driver, served before the recorder's domain
    'regq4_domain': {'entries': ['a.qport', 'a', 'a.q'], 'W': 4, 'domain': True},
    # '<x>.gq' = output of a Reg fed by x whose OWN (leaf-level) clock driver is enabled by x: a gated cell next to the recorder
    # '<x>.sn' = a wire with the short name 'z' inside a sub-block of its own, fed by a Buf from x: two different watched
    # wires that share their short name
    'samename': {'entries': ['a.sn', 'b.sn'], 'W': 4},
    'samename_mix': {'entries': ['b.sn', 'a', 'a.sn'], 'W': 4},
    'leafgate1': {'entries': ['b', 'b.gq']},
    'leafgate4': {'entries': ['a.gq', 'a'], 'W': 4},
}

RULE = ('mode rerender (shapes w1, w4, regq1, alias4, dup1): every clk(1) history h1 of 0..L cycles, one rendering (default or '
        'shortNames) as an observation, optionally clear() or clk(0), every history h2 of 0..L cycles with NO observation in '
        'between, then the full check - each of these on a freshly built system (an observation must not influence later ones). '
        'Otherwise one prefix tree per (watch-list shape, mode); mode split = every sequence of (value, n) calls clk(n) with the '
        'value held, total cycles 0..L; mode special = every clk(1) history of length 0..L with one clear() or clk(0) '
        'inserted at every position; mode plain = every clk(1) history; every node of the tree is one evaluation '
        '(getDict + decoded get_wavedrom against the reference per-cycle log); a history is non-trivial when some '
        'watched entry changes value between two consecutive recorded cycles (counted once per distinct history, on '
        'the clk(1)-only path without clear)')
ASSUMPTIONS = [
    'free wires are driven by Wire.put before each Simulator.clk call; the value a Buf output carries going into an '
    'edge is its settled value (equal to its input); the value a Reg output carries is the previous cycle\'s input '
    '(0 at power-up, reset_value left at its default)',
    'the x slots get_wavedrom puts before the first and after the last sample are framing, not cycles; the clock '
    'lane may show a clock in those framing slots',
    'display format of wires wider than 1 bit = upper-case hexadecimal without prefix',
    'one clock domain, always enabled (a recorder in a gated domain is not explored here)',
    'the WaveJSON decoder in mc/refmodels/wave.py is trusted',
]
BOUNDS = {
    'quick': 'rerender: h1, h2 of 0..3 cycles (thorough 0..4); single-wire shapes (widths 1,2,4,33; duplicate; InPort; OutPort; '
             'wire+InPort+OutPort alias; Reg output; Reg in its own clock domain; Reg with its own gated leaf-level clock driver; '
             'recorder created after a first getSimulator()): '
             'all histories of 0..5 cycles over the wire alphabet, all clk(n) splittings, one clear()/clk(0) at every '
             'position; mixed 1-bit/4-bit shapes: joint histories 0..5 cycles (8 joint values per cycle) with '
             'splittings and clear/clk(0)',
    'thorough': 'single-wire shapes: all histories of 0..8 cycles, all clk(n) splittings, one clear()/clk(0) at every '
                'position; mixed shapes: joint histories 0..6 cycles with splittings and clear/clk(0); [b,a] '
                'additionally all joint clk(1) histories of 7..8 cycles',
}
for k in ('quick', 'thorough'):
    BOUNDS[k] += '; also one recorder kept running for 70 000 cycles (thorough: 140 000) without clear()'

JOINT = ('mixed_ba', 'mixed_ab', 'mixed_all', 'samename', 'samename_mix')
RERENDER = ('w1', 'w4', 'regq1', 'alias4', 'dup1')


def _jobs(tier):
    T = tier == 'thorough'
    out = []
    for s in RERENDER:
        out.append({'shape': s, 'mode': 'rerender', 'L': 4 if T else 3, 'P': 0})
    # 70 (thorough: 140) calls of about 1000 cycles each on one recorder that is never cleared
    out.append({'shape': 'regq1', 'mode': 'long', 'L': 140 if T else 70, 'P': 0})
    for s in SHAPES:
        if SHAPES[s].get('bare'):
            out.append({'shape': s, 'mode': 'split', 'L': 2, 'P': 0})
            continue
        if s in JOINT:
            L = 6 if T else 5
            out.append({'shape': s, 'mode': 'split', 'L': L, 'P': 1})
            out.append({'shape': s, 'mode': 'special', 'L': L, 'P': 2 if T else 1})
            if T and s == 'mixed_ba':
                out.append({'shape': s, 'mode': 'plain', 'L': 8, 'min_len': L + 1, 'P': 2})
        else:
            L = 8 if T else 5
            wide = 'W' in SHAPES[s]
            out.append({'shape': s, 'mode': 'split', 'L': L, 'P': 1 if (T and wide) else 0})
            out.append({'shape': s, 'mode': 'special', 'L': L, 'P': (2 if wide else 1) if T else 0})
    return out


def alphabet(shape):
    sp = SHAPES[shape]
    bases = sorted({e.split('.')[0] for e in sp['entries']})
    doms = [ALPHA1 if b == 'b' else alpha_wide(sp['W']) for b in bases]
    return bases, [dict(zip(bases, v)) for v in itertools.product(*doms)]


def shards(tier):
    out = []
    for j in _jobs(tier):
        _, alpha = alphabet(j['shape'])
        P = j.pop('P')
        for pre in itertools.product(range(len(alpha)), repeat=P):
            d = dict(j)
            d['prefix'] = list(pre)
            d['tier'] = tier
            out.append(d)
    return out


def cost(d):
    _, alpha = alphabet(d['shape'])
    A = len(alpha)
    free = max(0, d['L'] - len(d['prefix']))
    if d['mode'] == 'rerender':
        return 6 * (A ** (d['L'] + 1)) ** 2
    if d['mode'] == 'long':
        return 5000
    return (A + (1 if d['mode'] == 'split' else 0)) ** free * (2 * d['L'] if d['mode'] == 'special' else 1)


# ---------------------------------------------------------------------------
# design under observation
# ---------------------------------------------------------------------------

class Ctx:
    pass


def build(shape):
    sp = SHAPES[shape]
    bases, alpha = alphabet(shape)
    hw = py4hw.HWSystem()
    c = Ctx()
    c.sys = hw
    c.shape = shape
    c.bases = bases
    c.alpha = alpha
    c.base_wire = {}
    bufs, regs, aux = {}, {}, {}
    for b in bases:
        c.base_wire[b] = hw.wire(b, 1 if b == 'b' else sp['W'])
    kinds = {e for e in sp['entries']}
    for b in bases:
        w = c.base_wire[b]
        if b + '.in' in kinds or b + '.out' in kinds:
            aux['r' + b] = hw.wire('r' + b, w.getWidth())
            bufs[b] = py4hw.Buf(hw, 'buf_' + b, w, aux['r' + b])
        if b + '.q' in kinds or b + '.qport' in kinds:
            aux['q' + b] = hw.wire('q' + b, w.getWidth())
            if sp.get('domain'):
                g = py4hw.Logic(hw, 'dom_' + b)
                g.clockDriver = py4hw.ClockDriver('clk_' + b, base=hw.clockDriver)
                g.addIn('d', w)
                g.addOut('q', aux['q' + b])
                regs[b] = py4hw.Reg(g, 'reg_' + b, w, aux['q' + b])
            else:
                regs[b] = py4hw.Reg(hw, 'reg_' + b, w, aux['q' + b])
        if b + '.sn' in kinds:
            g = py4hw.Logic(hw, 'sn_' + b)
            aux['z' + b] = g.wire('z', w.getWidth())
            g.addIn('i', w)
            g.addOut('z', aux['z' + b])
            py4hw.Buf(g, 'buf', w, aux['z' + b])
        if b + '.gq' in kinds:
            aux['g' + b] = hw.wire('g' + b, w.getWidth())
            regs['g' + b] = py4hw.Reg(hw, 'greg_' + b, w, aux['g' + b])
            regs['g' + b].clockDriver = py4hw.ClockDriver('gclk_' + b, base=hw.clockDriver, enable=w)
    objs, wires, specs = [], [], []
    for e in sp['entries']:
        b, _, k = e.partition('.')
        if k == '':
            o, w = c.base_wire[b], c.base_wire[b]
        elif k == 'in':
            o, w = bufs[b].inPorts[0], c.base_wire[b]
        elif k == 'out':
            o, w = bufs[b].outPorts[0], aux['r' + b]
        elif k == 'q':
            o, w = aux['q' + b], aux['q' + b]
        elif k == 'qport':
            o, w = regs[b].outPorts[0], aux['q' + b]
        elif k == 'gq':
            o, w = aux['g' + b], aux['g' + b]
        elif k == 'sn':
            o, w = aux['z' + b], aux['z' + b]
        else:
            raise ValueError(e)
        if k in ('in', 'out', 'qport') and o.wire is not w:
            raise core.HarnessError('port %s is not attached to the wire the harness expects' % e)
        objs.append(o)
        wires.append(w)
        specs.append((b, k, w.getWidth()))
    c.objs, c.wires, c.specs = objs, wires, specs
    c.widths = [s[2] for s in specs]
    if sp.get('late'):
        hw.getSimulator()
    c.wf = py4hw.Waveform(hw, 'wf', objs[0] if sp.get('bare') else list(objs))
    c.sim = hw.getSimulator()
    if sp.get('direct'):
        from py4hw.simulation import Simulator
        c.sim = Simulator(hw)
    c.free = [c.base_wire[b] for b in bases]
    c.hist = {b: [] for b in bases}      # value per simulated cycle since power-up
    c.start = 0                          # first recorded cycle (after the last clear)
    return c


def apply(c, act, sanity=True):
    """Apply one tree edge to the live system and to the harness's own log."""
    if act[0] == 'clear':
        c.wf.clear()
        c.start = len(c.hist[c.bases[0]])
        return
    if act[0] == 'render':
        # an observation in the middle of a history (mode rerender): one rendering (default, or shortNames=True), result discarded
        try:
            if len(act) > 1:
                wd = c.wf.get_wavedrom(shortNames=True)
            else:
                wd = c.wf.get_wavedrom()
            # what a call returned belongs to the caller: kept, and compared with a deep copy at every later check
            c.kept = getattr(c, 'kept', []) + [(wd, copy.deepcopy(wd))]
        except Exception:
            pass
        return
    if act[0] == 'dupwf':
        # a second recorder under the name of the working one is refused (exception ignored, as in an interactive session);
        # the simulator is obtained again afterwards.  The working recorder must go on recording.
        try:
            with core.quiet():
                py4hw.Waveform(c.sys, 'wf', list(c.objs))
        except Exception:
            pass
        core.reset_prepared()
        c.sim = c.sys.getSimulator()
        return
    if act[0] == 'clk0':
        v = c.alpha[-1]
        for b in c.bases:
            c.base_wire[b].put(v[b])
        c.sim.clk(0)
        return
    _, idx, n = act
    v = c.alpha[idx]
    for b in c.bases:
        c.base_wire[b].put(v[b])
        c.hist[b].extend([v[b]] * n)
    if sanity and n == 1:
        # the harness's own log of what the wire carries when clk is entered (wires that need no settling)
        t = len(c.hist[c.bases[0]]) - 1
        for (b, k, _), w in zip(c.specs, c.wires):
            if k not in ('out', 'sn') and w.get() != ref.expected(k, c.hist[b], t) and not getattr(c, 'insane', None):
                # a watched wire itself does not follow its reference (the register behind it did not do its step): remembered;
                # only the clauses that do not depend on the values (one sample per cycle, clock lane) can be judged from here on
                c.insane = 'wire %s carries %r going into cycle %d, reference says %r' % (w.name, w.get(), t, ref.expected(k, c.hist[b], t))
    c.sim.clk(n)


def expected_lanes(c):
    total = len(c.hist[c.bases[0]])
    return [[ref.expected(k, c.hist[b], t) for t in range(c.start, total)] for (b, k, _) in c.specs]


def check_node(c, short_too=False):
    """-> (list of (what, detail) mismatches at the current node, the WaveJSON dict or None)."""
    bad = []
    exp = expected_lanes(c)
    n = len(c.hist[c.bases[0]]) - c.start
    try:
        d = c.wf.getDict()
        for i, w in enumerate(c.wires):
            if w not in d:
                bad.append(('samples', {'entry': i, 'problem': 'no recording for this entry'}))
                continue
            got = list(d[w])
            if len(got) != n:
                bad.append(('length', {'entry': i, 'where': 'getDict', 'cycles': n, 'got': got, 'expected': exp[i]}))
            elif got != exp[i] or not all(type(x) is int for x in got):
                bad.append(('samples', {'entry': i, 'got': got, 'expected': exp[i]}))
        for k, v in d.items():
            if len(v) != n and not any(k is w for w in c.wires):
                bad.append(('length', {'where': 'getDict (unlisted key)', 'cycles': n, 'got': list(v)}))
    except core.HarnessError:
        raise
    except Exception as e:
        bad.append(('samples', {'raised': _exc(e), 'where': 'getDict'}))
    wd = None
    try:
        wd = c.wf.get_wavedrom()
        bad.extend(_check_wavedrom(c, wd, exp, n))
        if short_too:
            snap = copy.deepcopy(wd)
            wd2 = c.wf.get_wavedrom(shortNames=True)
            for x in _check_wavedrom(c, wd2, exp, n):
                x[1]['shortNames'] = True
                bad.append(x)
            if wd != snap:
                bad.append(('wavedrom', {'problem': 'the diagram returned by get_wavedrom() was changed by the following call',
                                         'was': _lanes(snap), 'is_now': _lanes(wd)}))
        for old, snap in getattr(c, 'kept', []):
            if old != snap:
                bad.append(('wavedrom', {'problem': 'a diagram returned by an earlier get_wavedrom() call was changed by a later call',
                                         'was': _lanes(snap), 'is_now': _lanes(old)}))
    except core.HarnessError:
        raise
    except Exception as e:
        bad.append(('wavedrom', {'raised': _exc(e), 'where': 'get_wavedrom'}))
    if getattr(c, 'insane', None):
        bad = [(what, det) for what, det in bad if what in ('length', 'clock_lane')]
        for what, det in bad:
            det['note'] = 'the watched register itself had stopped following its reference: ' + c.insane
    seen, out = set(), []
    for what, det in bad:
        if what not in seen:
            seen.add(what)
            out.append((what, det))
    return out, wd


def _check_wavedrom(c, wd, exp, n):
    bad = []
    try:
        dec = ref.decode(wd, c.widths)
    except ref.DecodeError as e:
        return [('wavedrom', {'problem': str(e), 'wavedrom': _lanes(wd)})]
    lanes = dec['lanes']
    nclk = len(dec['clock'])
    sig_tot = dec['total'][nclk:]
    if len(set(sig_tot)) > 1:
        bad.append(('length', {'where': 'wavedrom', 'problem': 'signal lanes differ in number of slots',
                               'slots': sig_tot, 'wavedrom': _lanes(wd)}))
    for i, (lead, samples, trail) in enumerate(lanes):
        if len(samples) != n:
            bad.append(('length', {'where': 'wavedrom', 'entry': i, 'cycles': n, 'decoded': samples,
                                   'expected': exp[i], 'wavedrom': _lanes(wd)}))
        elif samples != exp[i]:
            bad.append(('wavedrom', {'entry': i, 'decoded': samples, 'expected': exp[i], 'wavedrom': _lanes(wd)}))
    leads = {l[0] for l in lanes}
    if n > 0 and len(leads) > 1:
        bad.append(('wavedrom', {'problem': 'lanes are not aligned (different number of leading x slots)',
                                 'wavedrom': _lanes(wd)}))
    lead = lanes[0][0]
    for ck, tot in zip(dec['clock'], dec['total'][:nclk]):
        if tot != sig_tot[0]:
            bad.append(('clock_lane', {'problem': 'clock lane has %d slots, signal lanes %d' % (tot, sig_tot[0]),
                                       'wavedrom': _lanes(wd)}))
        elif n > 0 and not all(s[0] == 'clk' for s in ck[lead:lead + n]):
            bad.append(('clock_lane', {'problem': 'no clock in some sample slot', 'wavedrom': _lanes(wd)}))
    return bad


def _exc(e):
    return re.sub(r'0x[0-9a-fA-F]+', '0x..', repr(e))[:300]


def _lanes(wd):
    try:
        return [[l.get('wave'), l.get('data')] for l in wd['signal']]
    except Exception:
        return repr(wd)[:300]


def observe(c):
    try:
        d = c.wf.getDict()
        got = [list(d.get(w, ['<missing>'])) for w in c.wires]
    except Exception as e:
        got = 'raised ' + _exc(e)
    try:
        wd = _lanes(c.wf.get_wavedrom())
    except Exception as e:
        wd = 'raised ' + _exc(e)
    return (got, wd)


# ---------------------------------------------------------------------------
# snapshot / restore for the prefix tree
# ---------------------------------------------------------------------------

def take(c, st):
    return (st.snapshot(), [(k, list(v)) for k, v in c.wf.data.items()], c.start, len(c.hist[c.bases[0]]))


def put_back(c, st, snap):
    s, data, start, hl = snap
    st.restore(s)
    c.wf.data = {k: list(v) for k, v in data}
    c.start = start
    c.insane = None
    for b in c.bases:
        del c.hist[b][hl:]


def run_path(shape, path):
    c = build(shape)
    for act in path:
        apply(c, tuple(act) if isinstance(act, list) else act)
    return c


# ---------------------------------------------------------------------------

def _long_path(d):
    A = len(alphabet(d['shape'])[1])
    return [['s', i % A, 1000 + (i % 7)] for i in range(d['L'])]


def _long(d):
    """one recorder kept running for tens of thousands of cycles without clear(): still one sample per simulated cycle"""
    core.reset_prepared()
    path = _long_path(d)
    c = run_path(d['shape'], path)
    bad, wd = check_node(c, short_too=True)
    R = {'evaluations': 1, 'distinct_nontrivial': 1, 'traces_validated_against_impl': 1, 'configs': 1, 'violations': [],
         'samples': [{'shape': d['shape'], 'cycles': len(c.hist[c.bases[0]])}], 'capped': False, 'distinct_outcomes': 2, 'vacuous_ok': True}
    seen = set()
    for what, det in bad:
        if what not in seen:
            seen.add(what)
            det = dict(det) if isinstance(det, dict) else {'detail': repr(det)[:300]}
            det['cycles'] = len(c.hist[c.bases[0]])
            R['violations'].append({'sig': 'C15:%s:%s' % (d['shape'], what), 'shard': d, 'trace': [], 'detail': det})
    return R


def run_shard(d):
    # forked workers share the parent's heap copy-on-write; keep the cyclic GC from touching (= copying) it
    gc.freeze()
    if d['mode'] == 'rerender':
        return _rerender(d)
    if d['mode'] == 'long':
        return _long(d)
    R = _walk(d, d['L'])
    if R['violations'] and not d.get('min_len'):
        # shorten the counterexamples: the same walk with smaller cycle bounds, shortest bound that shows each sig wins
        todo = {v['sig'] for v in R['violations']}
        short = {}
        for Ls in range(0, d['L']):
            for v in _walk(d, Ls)['violations']:
                if v['sig'] in todo and v['sig'] not in short:
                    short[v['sig']] = v
            if len(short) == len(todo):
                break
        R['violations'] = [short.get(v['sig'], v) for v in R['violations']]
    return R


def _rerender(d):
    """every history h1 (0..L cycles), an observation (both renderings), optionally clear(), every history h2 (0..L cycles)
    WITHOUT observations in between, then the full check: an observation must not influence later ones."""
    core.reset_prepared()
    shape, L = d['shape'], d['L']
    _, alpha = alphabet(shape)
    A = range(len(alpha))
    R = {'evaluations': 0, 'distinct_nontrivial': 0, 'traces_validated_against_impl': 0, 'configs': 1,
         'violations': [], 'samples': [], 'capped': False}
    best = {}
    outcomes = set()
    hists = [h for n in range(L + 1) for h in itertools.product(A, repeat=n)]
    for h1 in hists:
        for mid in ((('render',), ('clear',)), (('render',),), (('render', 1), ('clear',)), (('render',), ('clk0',)),
                    (('dupwf',),), (('render',), ('dupwf',), ('clear',))):
            for h2 in hists:
                path = [('s', i, 1) for i in h1] + list(mid) + [('s', i, 1) for i in h2]
                c = run_path(shape, path)
                bad, wd = check_node(c, short_too=True)
                R['evaluations'] += 1
                R['traces_validated_against_impl'] += 1
                if len(outcomes) < 50:
                    outcomes.add(repr(_lanes(wd)))
                ex = expected_lanes(c)
                if any(l[i] != l[i + 1] for l in ex for i in range(len(l) - 1)):
                    R['distinct_nontrivial'] += 1
                    if len(R['samples']) < 1 and len(h2) == L and len(mid) > 1:
                        R['samples'].append({'shape': shape, 'entries': SHAPES[shape]['entries'], 'path': [list(a) for a in path],
                                             'recorded': ex, 'wavedrom': _lanes(wd)})
                for what, det in bad:
                    if what not in best or len(path) < best[what][0]:
                        det = dict(det)
                        det['entries'] = SHAPES[shape]['entries']
                        best[what] = (len(path), {'sig': 'C15:%s:%s' % (shape, what), 'shard': d,
                                                  'trace': [list(a) for a in path], 'detail': det})
    R['violations'] = [v for _, v in sorted(best.values(), key=lambda x: x[1]['sig'])]
    R['distinct_outcomes'] = len(outcomes)
    return R


def _walk(d, L):
    core.reset_prepared()
    shape, mode = d['shape'], d['mode']
    min_len = d.get('min_len', 0)
    prefix = d['prefix']
    try:
        c = build(shape)
    except core.HarnessError:
        raise
    except Exception as e:
        core.reset_prepared()
        return {'constructor_rejected': 1, 'configs': 1, 'evaluations': 0, 'distinct_nontrivial': 0,
                'vacuous_ok': True, 'distinct_outcomes': 0,
                'samples': [{'shape': shape, 'entries': SHAPES[shape]['entries'], 'bare': bool(SHAPES[shape].get('bare')),
                             'rejected': _exc(e)}], 'violations': []}
    st = core.SysState(c.sys, free=c.free)
    A = len(c.alpha)
    P = len(prefix)
    every = 1 if cost(d) <= 4000 else (251 if d.get('tier') == 'thorough' else 61)
    R = {'evaluations': 0, 'distinct_nontrivial': 0, 'traces_validated_against_impl': 0,
         'configs': int(mode == 'split' and not any(prefix)),
         'violations': [], 'samples': [], 'capped': False}
    outcomes = set()
    best = {}            # what -> (cycles, violation)
    nbad = [0]
    path = []

    def report(what, det):
        nbad[0] += 1
        cyc = len(path)
        if what not in best or cyc < best[what][0]:
            det = dict(det)
            det['entries'] = SHAPES[shape]['entries']
            det['values'] = [c.alpha[a[1]] if a[0] == 's' else None for a in path]
            best[what] = (cyc, {'sig': 'C15:%s:%s' % (shape, what), 'shard': d,
                                'trace': [list(a) for a in path], 'detail': det})

    def node(nsteps, special_used, canonical):
        hl = len(c.hist[c.bases[0]])
        owner = nsteps >= P or all(x == 0 for x in prefix[nsteps:])
        if owner and hl >= min_len and (mode != 'special' or special_used):
            R['evaluations'] += 1
            validate = R['evaluations'] % every == 0
            bad, wd = check_node(c, short_too=validate)
            if len(outcomes) < 50:
                outcomes.add(repr(_lanes(wd)))
            ex = expected_lanes(c)
            nontrivial = any(l[i] != l[i + 1] for l in ex for i in range(len(l) - 1))
            if canonical and mode != 'special' and nontrivial:
                R['distinct_nontrivial'] += 1
            if len(R['samples']) < 2 and nontrivial and hl >= min(L, 4) and R['evaluations'] % 7 == 3:
                R['samples'].append({'shape': shape, 'entries': SHAPES[shape]['entries'], 'path': [list(a) for a in path],
                                     'recorded': expected_lanes(c), 'wavedrom': _lanes(wd)})
            if validate or bad:
                f = run_path(shape, path)
                if observe(f) != observe(c):
                    # The plain re-execution on fresh objects is the reference for what the code does.  If IT violates
                    # the property (e.g. recorder lists aliased after clear(), which snapshot/restore cannot reproduce),
                    # that is a violation of the code under test; only a divergence on a clean replay is a harness fault.
                    fbad, _fwd = check_node(f, short_too=False)
                    if not fbad:
                        raise core.HarnessError('fresh replay of %r differs from snapshot/restore walk: %r vs %r'
                                                % (path, observe(f), observe(c)))
                    for what, det in fbad:
                        det = dict(det)
                        det['note'] = 'observed on the plain re-execution of this history on a fresh system'
                        report(what, det)
                    nbad[0] += 1
                    return
                R['traces_validated_against_impl'] += 1
            for what, det in bad:
                report(what, det)
        if nbad[0] >= 40:
            R['capped'] = True
            return
        acts = []
        if hl < L:
            vals = [prefix[nsteps]] if nsteps < P else range(A)
            for idx in vals:
                for n in (range(1, L - hl + 1) if mode == 'split' else (1,)):
                    acts.append(('s', idx, n))
        if mode == 'special' and not special_used:
            acts.append(('clear',))
            acts.append(('clk0',))
        if not acts:
            return
        snap = take(c, st)
        first = True
        for act in acts:
            if not first:
                put_back(c, st, snap)
            first = False
            path.append(act)
            try:
                apply(c, act)
            except core.HarnessError:
                raise
            except Exception as e:
                # the recorder (or the simulator driving it) raised: nothing was recorded for this cycle
                core.reset_prepared()
                R['evaluations'] += 1
                report('samples', {'raised': _exc(e), 'where': 'clk' if act[0] != 'clear' else 'clear'})
                path.pop()
                if nbad[0] >= 40:
                    R['capped'] = True
                    return
                continue
            if act[0] == 's':
                node(nsteps + 1, special_used, canonical and act[2] == 1)
            else:
                node(nsteps, True, False)
            path.pop()
            if R['capped']:
                return
        put_back(c, st, snap)

    node(0, False, True)
    R['violations'] = [v for _, v in sorted(best.values(), key=lambda x: x[1]['sig'])]
    R['distinct_outcomes'] = len(outcomes)
    if R['evaluations'] <= 1:
        R['vacuous_ok'] = True
    return R


def replay(v):
    d = v['shard']
    if d.get('mode') == 'long':
        v = dict(v, trace=_long_path(d))
    try:
        c = run_path(d['shape'], v['trace'])
    except core.HarnessError:
        raise
    except Exception as e:
        core.reset_prepared()
        return {'shape': d['shape'], 'entries': SHAPES[d['shape']]['entries'], 'trace': v['trace'],
                'raised': _exc(e), 'violates': True}
    bad, wd = check_node(c, short_too=True)
    return {'shape': d['shape'], 'entries': SHAPES[d['shape']]['entries'], 'trace': v['trace'],
            'reference_log': expected_lanes(c), 'getDict': observe(c)[0], 'wavedrom': _lanes(wd),
            'mismatches': [[w, det] for w, det in bad], 'violates': bool(bad)}
