"""Exhaustive truth-table enumeration of a combinational design against a
reference function (C07, C08, C14, parts of C06/C13).  Each vector is applied twice on the
same live instance (ascending pass, then descending pass).

build(desc) -> (hw, ins, outs)   ins/outs: ordered lists of (name, wire); ins must be undriven wires
ref(desc, xd) -> None            : input vector outside the documented domain (skipped, counted)
              -> dict name->int  : expected outputs (missing name or None value = not compared)
"""
import itertools

import py4hw
from . import core


_ELABORATED_ONLY = []


def cfgname(d):
    return d.get('block', '?') + '(' + ','.join('%s=%s' % (k, v) for k, v in sorted(d.items()) if k != 'block') + ')'


def corner_values(w):
    M = 1 << w
    vals = {0, 1, 2, 3, (M >> 1) - 1, M >> 1, (M >> 1) + 1, M - 2, M - 1, M // 3, (M // 3) * 2, 0x55 * (M // 255) if w >= 8 else 5,
            1 << (w // 2), (1 << (w // 2)) - 1, M - (1 << (w // 2))}
    return sorted(v for v in vals if 0 <= v < M)


def enumerate_vectors(ins, alphabets=None):
    """All vectors over the input wires; alphabets: optional dict name->list of values."""
    doms = []
    if alphabets == 'corner':
        # wide ports: boundary values and alternating patterns; ports of <= 6 bits keep their full range
        alphabets = {n: corner_values(w.getWidth()) for n, w in ins if w.getWidth() > 6}
    for n, w in ins:
        if alphabets and n in alphabets:
            doms.append(list(alphabets[n]))
        else:
            doms.append(range(1 << w.getWidth()))
    return itertools.product(*doms)


def run_comb(desc, build, ref, prop, alphabets=None, max_viol=3, use_clk=False):
    try:
        if desc.get('early'):
            # the simulator is obtained once on the still empty system, the design is added, the simulator is obtained again
            orig = py4hw.HWSystem

            class EarlySystem(orig):
                def __init__(self, *a, **k):
                    super().__init__(*a, **k)
                    self.getSimulator()
            py4hw.HWSystem = EarlySystem
            try:
                hw, ins, outs = build(desc)
            finally:
                py4hw.HWSystem = orig
        else:
            # the same configuration is first elaborated in another system that is never simulated and stays alive (same
            # instance paths and wire names): what one system builds must not be picked up by the next one
            _ELABORATED_ONLY.append(build(desc))
            del _ELABORATED_ONLY[:-2]
            hw, ins, outs = build(desc)
    except (AssertionError, Exception) as e:
        core.reset_prepared()
        return {'constructor_rejected': 1, 'configs': 1, 'evaluations': 0, 'distinct_nontrivial': 0,
                'vacuous_ok': True, 'distinct_outcomes': 0,
                'samples': [{'config': desc, 'rejected': repr(e)[:160]}], 'violations': []}
    if desc.get('directsim'):
        from py4hw.simulation import Simulator
        sim = Simulator(hw)     # the simulator class constructed directly instead of hw.getSimulator()
    else:
        sim = hw.getSimulator()
    core.bystander()            # another system gets its simulator and runs in between: must not disturb this one
    wires = core.all_wires(hw)
    names = [n for n, _ in ins]
    iw = [w for _, w in ins]
    evals = nontriv = skipped = 0
    outcomes = set()
    viols = []
    wbad = []
    sample = None
    prev = None
    # every vector is applied twice on the same instance: in enumeration order and then in reverse order, so that each
    # value is also reached from a larger one (outputs must not depend on what the instance computed before)
    vecs = list(enumerate_vectors(ins, alphabets))
    for k, x in enumerate(itertools.chain(vecs, reversed(vecs))):
        second = k >= len(vecs)
        xd = dict(zip(names, x))
        exp = ref(desc, xd)
        if exp is None:
            skipped += 0 if second else 1
            continue
        for w, v in zip(iw, x):
            w.put(v)
        if use_clk:
            sim.clk(1)
        else:
            sim.propagateAll()
        evals += 1
        got = {n: w.get() for n, w in outs}
        outcomes.add(tuple(got.values()))
        if not second and any(v for v in exp.values() if v is not None):
            nontriv += 1
        if sample is None and any(exp.values()):
            sample = {'config': desc, 'inputs': xd, 'expected': exp, 'got': got}
        bad = [n for n in exp if exp[n] is not None and got.get(n) != exp[n]]
        if bad and len(viols) < max_viol:
            # the replay applies the vector evaluated just before as well (the instance is not fresh)
            viols.append({'sig': '%s:%s:%s' % (prop, cfgname(desc), bad[0]), 'shard': desc,
                          'trace': ([list(prev)] if prev is not None else []) + [list(x)],
                          'detail': {'inputs': xd, 'previous_inputs': dict(zip(names, prev)) if prev is not None else None,
                                     'expected': exp, 'got': got, 'wrong_outputs': bad}})
        prev = x
        b = core.check_widths(wires)
        if b and len(wbad) < 2:
            wbad.append({'inputs': xd, 'bad': b})
    return {'configs': 1, 'evaluations': evals, 'distinct_nontrivial': nontriv, 'skipped_precondition': skipped,
            'distinct_outcomes': len(outcomes), 'violations': viols, 'width_violations': wbad,
            'vacuous_ok': evals <= 1 or all(w.getWidth() == 0 for _, w in outs),
            'samples': [sample] if sample else []}


def replay_comb(v, build, ref):
    d = v['shard']
    if d.get('early'):
        orig = py4hw.HWSystem

        class EarlySystem(orig):
            def __init__(self, *a, **k):
                super().__init__(*a, **k)
                self.getSimulator()
        py4hw.HWSystem = EarlySystem
        try:
            hw, ins, outs = build(d)
        finally:
            py4hw.HWSystem = orig
    else:
        hw, ins, outs = build(d)
    if d.get('directsim'):
        from py4hw.simulation import Simulator
        sim = Simulator(hw)
    else:
        sim = hw.getSimulator()
    for x in v['trace']:
        xd = dict(zip([n for n, _ in ins], x))
        for (n, w), val in zip(ins, x):
            w.put(val)
        sim.propagateAll()
    got = {n: w.get() for n, w in outs}
    exp = ref(d, xd)
    bad = [n for n in (exp or {}) if exp[n] is not None and got.get(n) != exp[n]]
    return {'config': d, 'inputs': xd, 'got': got, 'expected': exp, 'violates': bool(bad), 'wrong_outputs': bad}
