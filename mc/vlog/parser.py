"""Recursive-descent parser for the Verilog-2005 subset py4hw can emit.
AST nodes are plain tuples/lists wrapped in small classes for readability."""
from .lexer import tokenize, ParseError


class N:
    """Generic AST node: kind + fields."""
    def __init__(self, kind, **kw):
        self.kind = kind
        self.__dict__.update(kw)

    def __repr__(self):
        return 'N(%s)' % ', '.join('%s=%r' % kv for kv in self.__dict__.items())


BINPREC = [
    ('||',), ('&&',), ('|', '~|'), ('^', '~^', '^~'), ('&', '~&'), ('==', '!=', '===', '!=='),
    ('<', '<=', '>', '>='), ('<<', '>>', '<<<', '>>>'), ('+', '-'), ('*', '/', '%'), ('**',),
]


class Parser:
    def __init__(self, text):
        self.toks = tokenize(text)
        self.i = 0

    # ---- token helpers
    @property
    def t(self):
        return self.toks[self.i]

    def peek(self, k=1):
        return self.toks[min(self.i + k, len(self.toks) - 1)]

    def err(self, msg):
        raise ParseError('%s, found %r' % (msg, self.t.val), self.t.line)

    def accept(self, val):
        if self.t.val == val and self.t.kind in ('op', 'kw'):
            self.i += 1
            return True
        return False

    def expect(self, val):
        if not self.accept(val):
            self.err('expected %r' % val)

    def ident(self):
        if self.t.kind != 'id':
            self.err('expected identifier')
        v = self.t.val
        self.i += 1
        return v

    # ---- top
    def parse(self):
        mods = []
        while self.t.kind != 'eof':
            if self.t.val == 'module':
                mods.append(self.module())
            else:
                self.err('expected module')
        return mods

    def range_opt(self):
        if self.t.val == '[':
            self.i += 1
            msb = self.expr()
            self.expect(':')
            lsb = self.expr()
            self.expect(']')
            return (msb, lsb)
        return None

    def module(self):
        line = self.t.line
        self.expect('module')
        name = self.ident()
        params = []
        if self.accept('#'):
            self.expect('(')
            while True:
                self.accept('parameter')
                self.accept('integer')
                self.accept('signed')
                self.range_opt()
                pn = self.ident()
                default = None
                if self.accept('='):
                    default = self.expr()
                params.append(N('param', name=pn, default=default, line=self.t.line))
                if not self.accept(','):
                    break
            self.expect(')')
        ports = []
        if self.accept('('):
            if not self.accept(')'):
                direction = None
                isreg = signed = False
                rng = None
                while True:
                    if self.t.val in ('input', 'output', 'inout'):
                        direction = self.t.val
                        self.i += 1
                        isreg = signed = False
                        rng = None
                        if self.t.val in ('wire', 'reg'):
                            isreg = self.t.val == 'reg'
                            self.i += 1
                        if self.accept('signed'):
                            signed = True
                        rng = self.range_opt()
                    elif direction is None:
                        self.err('non-ANSI port list not supported (expected input/output/inout)')
                    pline = self.t.line
                    pn = self.ident()
                    ports.append(N('port', dir=direction, isreg=isreg, signed=signed, range=rng, name=pn, line=pline))
                    if not self.accept(','):
                        break
                self.expect(')')
        self.expect(';')
        items = []
        while not self.accept('endmodule'):
            if self.t.kind == 'eof':
                self.err('missing endmodule')
            items.extend(self.item())
        return N('module', name=name, params=params, ports=ports, items=items, line=line)

    def item(self):
        t = self.t
        if t.val in ('wire', 'reg', 'integer', 'tri'):
            return [self.decl()]
        if t.val in ('parameter', 'localparam'):
            self.i += 1
            self.accept('integer')
            self.accept('signed')
            self.range_opt()
            out = []
            while True:
                pn = self.ident()
                self.expect('=')
                out.append(N('paramdecl', name=pn, value=self.expr(), local=t.val == 'localparam', line=t.line))
                if not self.accept(','):
                    break
            self.expect(';')
            return out
        if t.val == 'assign':
            self.i += 1
            out = []
            while True:
                lhs = self.lvalue()
                self.expect('=')
                out.append(N('assign', lhs=lhs, rhs=self.expr(), line=t.line))
                if not self.accept(','):
                    break
            self.expect(';')
            return out
        if t.val == 'always':
            self.i += 1
            sens = self.sensitivity()
            return [N('always', sens=sens, body=self.stmt(), line=t.line)]
        if t.val == 'initial':
            self.i += 1
            return [N('initial', body=self.stmt(), line=t.line)]
        if t.kind == 'id':
            return [self.instance()]
        if t.val == ';':
            self.i += 1
            return []
        self.err('unsupported or illegal module item')

    def decl(self):
        line = self.t.line
        kind = self.t.val
        self.i += 1
        signed = kind == 'integer'
        if self.accept('signed'):
            signed = True
        rng = self.range_opt()
        names = []
        while True:
            nline = self.t.line
            nm = self.ident()
            mem = self.range_opt()
            init = None
            if self.accept('='):
                init = self.expr()
            names.append(N('declname', name=nm, mem=mem, init=init, line=nline))
            if not self.accept(','):
                break
        self.expect(';')
        return N('decl', nettype=kind, signed=signed, range=rng, names=names, line=line)

    def sensitivity(self):
        self.expect('@')
        if self.accept('*'):
            return [('star', None)]
        self.expect('(')
        if self.accept('*'):
            self.expect(')')
            return [('star', None)]
        sens = []
        while True:
            if self.t.val in ('posedge', 'negedge'):
                e = self.t.val
                self.i += 1
                sens.append((e, self.ident()))
            else:
                sens.append(('level', self.ident()))
            if not (self.accept('or') or self.accept(',')):
                break
        self.expect(')')
        return sens

    def instance(self):
        line = self.t.line
        mod = self.ident()
        params = {}
        if self.accept('#'):
            self.expect('(')
            while True:
                self.expect('.')
                pn = self.ident()
                self.expect('(')
                if pn in params:
                    raise ParseError('parameter %s overridden twice' % pn, line)
                params[pn] = self.expr()
                self.expect(')')
                if not self.accept(','):
                    break
            self.expect(')')
        inst = self.ident()
        self.expect('(')
        conns = []
        if not self.accept(')'):
            while True:
                self.expect('.')
                pn = self.ident()
                self.expect('(')
                e = None
                if self.t.val != ')':
                    e = self.expr()
                self.expect(')')
                conns.append((pn, e))
                if not self.accept(','):
                    break
            self.expect(')')
        self.expect(';')
        return N('instance', module=mod, params=params, name=inst, conns=conns, line=line)

    # ---- statements
    def stmt(self):
        t = self.t
        if self.accept('begin'):
            if self.accept(':'):
                self.ident()
            body = []
            while not self.accept('end'):
                if self.t.kind == 'eof':
                    self.err('missing end')
                body.append(self.stmt())
            return N('block', body=body, line=t.line)
        if self.accept('if'):
            self.expect('(')
            c = self.expr()
            self.expect(')')
            th = self.stmt_or_null()
            el = None
            if self.accept('else'):
                el = self.stmt_or_null()
            return N('if', cond=c, then=th, els=el, line=t.line)
        if t.val in ('case', 'casez', 'casex'):
            self.i += 1
            self.expect('(')
            e = self.expr()
            self.expect(')')
            items = []
            ndefault = 0
            while not self.accept('endcase'):
                if self.t.kind == 'eof':
                    self.err('missing endcase')
                if self.accept('default'):
                    self.accept(':')
                    ndefault += 1
                    if ndefault > 1:
                        self.err('more than one default in case')
                    items.append((None, self.stmt_or_null()))
                else:
                    labels = [self.expr()]
                    while self.accept(','):
                        labels.append(self.expr())
                    self.expect(':')
                    items.append((labels, self.stmt_or_null()))
            return N('case', expr=e, items=items, line=t.line)
        if self.accept(';'):
            return N('null', line=t.line)
        if t.kind == 'id' or t.val == '{':
            lhs = self.lvalue()
            if self.accept('='):
                kind = 'bassign'
            elif self.accept('<='):
                kind = 'nbassign'
            else:
                self.err("expected '=' or '<=' in procedural assignment")
            rhs = self.expr()
            self.expect(';')
            return N(kind, lhs=lhs, rhs=rhs, line=t.line)
        self.err('unsupported or illegal statement')

    def stmt_or_null(self):
        # a statement is required after if/else/case item (a bare ';' is the null statement)
        if self.t.val in ('end', 'endcase', 'else', 'endmodule') or self.t.kind == 'eof':
            self.err('statement expected')
        return self.stmt()

    def lvalue(self):
        line = self.t.line
        if self.accept('{'):
            parts = [self.lvalue()]
            while self.accept(','):
                parts.append(self.lvalue())
            self.expect('}')
            return N('lconcat', parts=parts, line=line)
        nm = self.ident()
        sels = []
        while self.t.val == '[':
            self.i += 1
            a = self.expr()
            if self.accept(':'):
                b = self.expr()
                self.expect(']')
                sels.append(('part', a, b))
            else:
                self.expect(']')
                sels.append(('idx', a))
        return N('lref', name=nm, sels=sels, line=line)

    # ---- expressions
    def expr(self):
        return self.ternary()

    def ternary(self):
        c = self.binary(0)
        if self.accept('?'):
            a = self.ternary()
            self.expect(':')
            b = self.ternary()
            return N('ternary', cond=c, a=a, b=b)
        return c

    def binary(self, level):
        if level == len(BINPREC):
            return self.unary()
        left = self.binary(level + 1)
        while self.t.kind == 'op' and self.t.val in BINPREC[level]:
            op = self.t.val
            self.i += 1
            right = self.binary(level + 1)
            left = N('binary', op=op, l=left, r=right)
        return left

    def unary(self):
        t = self.t
        if t.kind == 'op' and t.val in ('+', '-', '~', '!', '&', '|', '^', '~&', '~|', '~^', '^~'):
            self.i += 1
            return N('unary', op=t.val, e=self.unary())
        return self.primary()

    def primary(self):
        t = self.t
        if t.kind == 'num':
            self.i += 1
            v = int(t.val.replace('_', ''))
            # an unsized decimal number is signed and "at least 32 bits" (1364-2005 3.5.1); a value that does not fit
            # a signed 32-bit number takes as many bits as it needs (what every tool does) instead of being truncated
            w = None if v < (1 << 31) else v.bit_length() + 1
            return N('num', value=v, width=w, signed=True, xz=False)
        if t.kind == 'based':
            self.i += 1
            return self.based(t)
        if t.kind == 'real':
            self.err('real literals not supported')
        if t.kind == 'str':
            self.err('string literals not supported in expressions')
        if t.kind == 'sysid':
            self.i += 1
            if t.val not in ('$signed', '$unsigned'):
                raise ParseError('unsupported system function %s' % t.val, t.line)
            self.expect('(')
            e = self.expr()
            self.expect(')')
            return N('syscall', name=t.val, e=e)
        if self.accept('('):
            e = self.expr()
            self.expect(')')
            return N('paren', e=e)
        if self.accept('{'):
            first = self.expr()
            if self.t.val == '{':
                # replication {n{...}}
                self.i += 1
                parts = [self.expr()]
                while self.accept(','):
                    parts.append(self.expr())
                self.expect('}')
                self.expect('}')
                return N('repl', count=first, parts=parts)
            parts = [first]
            while self.accept(','):
                parts.append(self.expr())
            self.expect('}')
            return N('concat', parts=parts)
        if t.kind == 'id':
            self.i += 1
            sels = []
            while self.t.val == '[':
                self.i += 1
                a = self.expr()
                if self.accept(':'):
                    b = self.expr()
                    self.expect(']')
                    sels.append(('part', a, b))
                else:
                    self.expect(']')
                    sels.append(('idx', a))
            return N('ref', name=t.val, sels=sels, line=t.line)
        self.err('expression expected')

    def based(self, t):
        s = t.val.replace('_', '').replace(' ', '')
        size, rest = s.split("'")
        signed = False
        if rest[0] in 'sS':
            signed = True
            rest = rest[1:]
        base = rest[0].lower()
        digits = rest[1:].lower()
        width = int(size) if size else None
        if width == 0:
            raise ParseError('zero-width literal', t.line)
        xz = any(c in 'xz?' for c in digits)
        if xz:
            return N('num', value=0, width=width or 32, signed=signed, xz=True, text=t.val)
        val = int(digits, {'b': 2, 'o': 8, 'd': 10, 'h': 16}[base])
        if width is not None:
            val &= (1 << width) - 1
        return N('num', value=val, width=width, signed=signed, xz=False)


def parse(text):
    return Parser(text).parse()
