"""Elaborator, IEEE 1364-2005 expression evaluator and two-state cycle simulator for
the Verilog subset py4hw emits.

Two-state, regs/integers without initialiser power up at 0.  Expression sizing and
signedness follow LRM 5.4/5.5: context width = max(L(lhs), L(rhs)) propagated to
context-determined operands, an expression is signed only if all its operands are,
operands are sign-extended only when the propagated type is signed.
"""
from .lexer import VlogError, RESERVED_2005
from .parser import parse, N


class ElabError(VlogError):
    pass


class Unsupported(VlogError):
    pass


class DivZero(VlogError):
    pass


class Oscillation(VlogError):
    pass


def mask(w):
    return (1 << w) - 1


def sext(v, w):
    """interpret w-bit pattern as signed"""
    return v - (1 << w) if (v >> (w - 1)) & 1 else v


class Sig:
    __slots__ = ('name', 'width', 'signed', 'kind', 'depth', 'mem_lo', 'dir', 'value', 'lsb', 'line', 'init', 'declared')

    def __init__(self, name, width, signed, kind, line=None):
        self.name, self.width, self.signed, self.kind, self.line = name, width, signed, kind, line
        self.depth = None
        self.mem_lo = 0
        self.dir = None
        self.value = 0
        self.lsb = 0
        self.init = None
        self.declared = 1


class Scope:
    def __init__(self, mod, path, parent=None):
        self.mod = mod
        self.path = path
        self.parent = parent
        self.sigs = {}
        self.params = {}
        self.children = []


class Design:
    def __init__(self):
        self.issues = []          # (rule, module, message)
        self.assigns = []         # (lscope, lhs, rscope, rhs)
        self.comb = []            # (scope, body)       always @(*)
        self.seq = []             # (scope, edge, clkname, body)
        self.initials = []        # (scope, body)
        self.top = None
        self.scopes = []
        self._tcache = {}
        self._order = None
        self.divzero = False      # a division by zero was evaluated in the last settle pass

    def issue(self, rule, mod, msg):
        it = (rule, mod, msg)
        if it not in self.issues:
            self.issues.append(it)


# ------------------------------------------------------------------ elaboration

def const_eval(e, params, what='constant expression'):
    """Evaluate a constant expression (parameters allowed) to a Python int."""
    k = e.kind
    if k == 'num':
        if e.xz:
            raise Unsupported('x/z in ' + what)
        v = e.value
        return v
    if k == 'paren':
        return const_eval(e.e, params, what)
    if k == 'ref' and not e.sels:
        if e.name in params:
            return params[e.name]
        raise ElabError('%s refers to non-constant %s' % (what, e.name))
    if k == 'unary':
        v = const_eval(e.e, params, what)
        return {'-': -v, '+': v, '~': ~v, '!': int(not v)}[e.op]
    if k == 'binary':
        a, b = const_eval(e.l, params, what), const_eval(e.r, params, what)
        ops = {'+': lambda: a + b, '-': lambda: a - b, '*': lambda: a * b, '/': lambda: int(a / b) if b else 0,
               '%': lambda: a - b * int(a / b) if b else 0, '<<': lambda: a << b, '>>': lambda: a >> b,
               '&': lambda: a & b, '|': lambda: a | b, '^': lambda: a ^ b, '==': lambda: int(a == b),
               '!=': lambda: int(a != b), '<': lambda: int(a < b), '<=': lambda: int(a <= b), '>': lambda: int(a > b),
               '>=': lambda: int(a >= b), '&&': lambda: int(bool(a) and bool(b)), '||': lambda: int(bool(a) or bool(b)),
               '**': lambda: a ** b}
        if e.op not in ops:
            raise Unsupported('operator %s in %s' % (e.op, what))
        return ops[e.op]()
    if k == 'ternary':
        return const_eval(e.a, params, what) if const_eval(e.cond, params, what) else const_eval(e.b, params, what)
    raise ElabError('%s is not constant (%s)' % (what, k))


def elaborate(text, top=None, blackboxes=(), external=(), lint_only=False):
    """Parse + elaborate. `top`: module name (default: first module in the text).
    `blackboxes`: module names allowed to be undefined. `external`: names in the top module
    driven by the testbench (no driver expected). Raises ParseError / ElabError for hard errors;
    lint findings are collected in design.issues.  lint_only: connections of inout ports are accepted (checked for
    port name and width, their nets count as driven, any number of drivers); such a design must not be simulated."""
    mods = parse(text)
    d = Design()
    d.lint_only = lint_only
    defs = {}
    for m in mods:
        if m.name in defs:
            d.issue('R4', m.name, 'module %s defined more than once' % m.name)
            continue
        defs[m.name] = m
        if m.name in RESERVED_2005:
            d.issue('R3', m.name, 'module name %s is a reserved word' % m.name)
    if not mods:
        raise ElabError('no module in text')
    d.defs = defs
    d.blackboxes = set(blackboxes)
    topname = top or mods[0].name
    if topname not in defs:
        raise ElabError('top module %s not defined' % topname)
    d.linted = set()
    d.external = set(external)
    d.top = _instantiate(d, defs[topname], topname, None, {}, True)
    _typecheck(d)
    return d


def _typecheck(d):
    """force sizing of every expression so that illegal constructs surface at elaboration"""
    def rule_of(ex):
        m = str(ex)
        if 'replication' in m or 'unsized constant' in m:
            return 'R7'
        if 'not declared' in m:
            return 'R2'
        return 'R1'

    def expr(sc, e):
        try:
            _typeof(d, sc, e)
        except (ElabError, Unsupported) as ex:
            d.issue(rule_of(ex), sc.mod.name, str(ex))

    def lhs(sc, l):
        try:
            _lwidth(d, sc, l)
        except (ElabError, Unsupported) as ex:
            d.issue(rule_of(ex), sc.mod.name, str(ex))

    def stmt(sc, st):
        if st is None:
            return
        k = st.kind
        if k == 'block':
            for b in st.body:
                stmt(sc, b)
        elif k == 'if':
            expr(sc, st.cond)
            stmt(sc, st.then)
            stmt(sc, st.els)
        elif k == 'case':
            expr(sc, st.expr)
            for labels, body in st.items:
                for l in labels or []:
                    expr(sc, l)
                stmt(sc, body)
        elif k in ('bassign', 'nbassign'):
            lhs(sc, st.lhs)
            expr(sc, st.rhs)
    for lsc, l, rsc, r in d.assigns:
        lhs(lsc, l)
        expr(rsc, r)
    for sc, body in d.comb:
        stmt(sc, body)
    for sc, edge, clk, body in d.seq:
        stmt(sc, body)
    for sc, body in d.initials:
        stmt(sc, body)
    seen = set()
    for sc in d.scopes:
        for name in getattr(sc, 'implicit', []):
            if (sc.mod.name, name) not in seen:
                seen.add((sc.mod.name, name))
                d.issue('R2', sc.mod.name, 'identifier %s not declared in module %s' % (name, sc.mod.name))


def _width_of_range(rng, params, what):
    if rng is None:
        return 1, 0
    msb, lsb = const_eval(rng[0], params, what), const_eval(rng[1], params, what)
    if msb < lsb:
        raise Unsupported('ascending range [%d:%d] in %s' % (msb, lsb, what))
    if lsb < 0:
        raise ElabError('negative range bound in %s' % what)
    return msb - lsb + 1, lsb


def _instantiate(d, m, path, parent, overrides, is_top):
    sc = Scope(m, path, parent)
    d.scopes.append(sc)
    lint = m.name not in d.linted
    d.linted.add(m.name)

    def issue(rule, msg):
        if lint:
            d.issue(rule, m.name, msg)

    def declare(name, sig):
        if name in RESERVED_2005:
            issue('R3', 'identifier %s is a reserved word' % name)
        if name in sc.sigs or name in sc.params:
            issue('R2', 'identifier %s declared more than once' % name)
            return sc.sigs.get(name)
        sc.sigs[name] = sig
        return sig

    # parameters
    for p in m.params:
        if p.name in sc.params:
            issue('R2', 'parameter %s declared more than once' % p.name)
        if p.name in RESERVED_2005:
            issue('R3', 'parameter name %s is a reserved word' % p.name)
        if p.default is None:
            issue('R7', 'parameter %s has no default value (illegal in Verilog-2005)' % p.name)
        if p.default is not None and lint:
            # the default must be a constant expression over the parameters declared before it, whether or not an instance
            # overrides it (a default that names itself or an undeclared identifier is illegal)
            try:
                const_eval(p.default, dict(sc.params), 'parameter default')
            except VlogError as e:
                issue('R7', 'default of parameter %s is not a constant expression: %s' % (p.name, e))
        if p.name in overrides:
            sc.params[p.name] = overrides[p.name]
        elif p.default is not None:
            sc.params[p.name] = const_eval(p.default, sc.params, 'parameter default')
        else:
            sc.params[p.name] = 0
            issue('R7', 'parameter %s has neither default nor override' % p.name)
    for pn in overrides:
        if pn not in [p.name for p in m.params]:
            d.issue('R5', m.name, 'instance %s overrides unknown parameter %s' % (path, pn))
    # ports
    for p in m.ports:
        w, lsb = _width_of_range(p.range, sc.params, 'port ' + p.name)
        s = Sig(p.name, w, p.signed, 'reg' if p.isreg else 'wire', p.line)
        s.dir = p.dir
        s.lsb = lsb
        if p.dir == 'input' and p.isreg:
            issue('R6', 'input port %s declared reg' % p.name)
        declare(p.name, s)
    # declarations first (py4hw declares before use; use-before-declaration is still legal for
    # module-level items as long as it is declared in the module)
    for it in m.items:
        if it.kind == 'paramdecl':
            if it.name in sc.params or it.name in sc.sigs:
                issue('R2', 'identifier %s declared more than once' % it.name)
            sc.params[it.name] = const_eval(it.value, sc.params, 'parameter')
        elif it.kind == 'decl':
            for nm in it.names:
                if it.nettype == 'integer':
                    w, lsb = 32, 0
                else:
                    w, lsb = _width_of_range(it.range, sc.params, 'declaration of ' + nm.name)
                s = Sig(nm.name, w, it.signed, 'wire' if it.nettype in ('wire', 'tri') else it.nettype, nm.line)
                s.lsb = lsb
                if nm.mem is not None:
                    a, b = const_eval(nm.mem[0], sc.params, 'memory range'), const_eval(nm.mem[1], sc.params, 'memory range')
                    s.mem_lo = min(a, b)
                    s.depth = abs(a - b) + 1
                    s.value = [0] * s.depth
                    if it.nettype == 'wire':
                        issue('R6', 'net array %s not supported as memory' % nm.name)
                s.init = nm.init
                ex = sc.sigs.get(nm.name)
                if ex is not None and ex.dir == 'output' and ex.kind == 'wire' and it.nettype == 'reg' and ex.declared == 1 and False:
                    pass
                declare(nm.name, s)
    # items
    for it in m.items:
        if it.kind == 'decl':
            for nm in it.names:
                if nm.init is not None:
                    s = sc.sigs.get(nm.name)
                    if s is None:
                        continue
                    if s.kind == 'wire':
                        d.assigns.append((sc, N('lref', name=nm.name, sels=[], line=nm.line), sc, nm.init))
                    else:
                        d.initials.append((sc, N('bassign', lhs=N('lref', name=nm.name, sels=[], line=nm.line), rhs=nm.init, line=nm.line)))
        elif it.kind == 'assign':
            d.assigns.append((sc, it.lhs, sc, it.rhs))
        elif it.kind == 'always':
            kinds = {k for k, _ in it.sens}
            if kinds == {'star'}:
                d.comb.append((sc, it.body))
            elif kinds <= {'posedge', 'negedge'} and len(it.sens) == 1:
                d.seq.append((sc, it.sens[0][0], it.sens[0][1], it.body))
                if it.sens[0][1] not in sc.sigs:
                    issue('R2', 'clock %s used in sensitivity list is not declared' % it.sens[0][1])
            elif kinds == {'level'}:
                # explicit level-sensitive list: treated as combinational (incomplete lists are a lint matter)
                d.comb.append((sc, it.body))
            else:
                raise Unsupported('sensitivity list %r' % (it.sens,))
        elif it.kind == 'initial':
            d.initials.append((sc, it.body))
        elif it.kind == 'instance':
            if it.name in sc.sigs or it.name in sc.params or it.name in [c.inst_name for c in sc.children]:
                issue('R2', 'instance name %s clashes with another identifier' % it.name)
            if it.name in RESERVED_2005:
                issue('R3', 'instance name %s is a reserved word' % it.name)
            cdef = d.defs.get(it.module)
            if cdef is None:
                if it.module in d.blackboxes:
                    child = Scope(None, path + '.' + it.name, sc)
                    child.inst_name = it.name
                    sc.children.append(child)
                    continue
                issue('R4', 'instantiated module %s is not defined' % it.module)
                raise ElabError('module %s instantiated in %s is not defined' % (it.module, m.name))
            ov = {k: const_eval(v, sc.params, 'parameter override') for k, v in it.params.items()}
            child = _instantiate(d, cdef, path + '.' + it.name, sc, ov, False)
            child.inst_name = it.name
            sc.children.append(child)
            seen = set()
            for pn, e in it.conns:
                if pn in seen:
                    d.issue('R5', m.name, 'port %s connected twice in instance %s' % (pn, it.name))
                    continue
                seen.add(pn)
                ps = child.sigs.get(pn)
                if ps is None or ps.dir is None:
                    d.issue('R5', m.name, 'instance %s of %s connects unknown port %s' % (it.name, it.module, pn))
                    continue
                if e is None:
                    continue
                pref = N('ref', name=pn, sels=[], line=it.line)
                plref = N('lref', name=pn, sels=[], line=it.line)
                try:
                    ew = _typeof(d, sc, e)[0]
                except VlogError as ex:
                    d.issue('R2', m.name, 'connection of port %s in instance %s: %s' % (pn, it.name, ex))
                    raise
                if ew != ps.width:
                    d.issue('R5', m.name, 'instance %s of %s: port %s is %d bits, connected expression is %d bits'
                            % (it.name, it.module, pn, ps.width, ew))
                if ps.dir == 'input':
                    d.assigns.append((child, plref, sc, e))
                elif ps.dir == 'output':
                    d.assigns.append((sc, _expr_to_lvalue(e, m.name, it), child, pref))
                elif not getattr(d, 'lint_only', False):
                    raise Unsupported('inout port connection')
            for p in cdef.ports:
                if p.name not in seen and p.dir == 'input':
                    d.issue('R5', m.name, 'instance %s of %s leaves input port %s unconnected' % (it.name, it.module, p.name))
    if lint:
        _lint_module(d, sc, is_top)
    return sc


def _expr_to_lvalue(e, modname, inst):
    if e.kind == 'ref':
        return N('lref', name=e.name, sels=e.sels, line=getattr(e, 'line', None))
    if e.kind == 'concat':
        return N('lconcat', parts=[_expr_to_lvalue(p, modname, inst) for p in e.parts], line=None)
    if e.kind == 'paren':
        return _expr_to_lvalue(e.e, modname, inst)
    raise ElabError('output port of instance %s in %s connected to a non-lvalue expression' % (inst.name, modname))


def _lref_names(l):
    if l.kind == 'lconcat':
        out = []
        for p in l.parts:
            out.extend(_lref_names(p))
        return out
    return [l]


def _refs_in(e, acc):
    """collect identifier names read by an expression / statement"""
    if e is None:
        return acc
    k = e.kind
    if k == 'ref':
        acc.add(e.name)
        for s in e.sels:
            for x in s[1:]:
                _refs_in(x, acc)
    elif k in ('paren', 'unary', 'syscall'):
        _refs_in(e.e, acc)
    elif k == 'binary':
        _refs_in(e.l, acc)
        _refs_in(e.r, acc)
    elif k == 'ternary':
        _refs_in(e.cond, acc)
        _refs_in(e.a, acc)
        _refs_in(e.b, acc)
    elif k == 'concat':
        for p in e.parts:
            _refs_in(p, acc)
    elif k == 'repl':
        _refs_in(e.count, acc)
        for p in e.parts:
            _refs_in(p, acc)
    return acc


def _stmt_walk(s, reads, writes):
    """reads: set of names read; writes: list of (lref, kind)"""
    if s is None:
        return
    k = s.kind
    if k == 'block':
        for b in s.body:
            _stmt_walk(b, reads, writes)
    elif k == 'if':
        _refs_in(s.cond, reads)
        _stmt_walk(s.then, reads, writes)
        _stmt_walk(s.els, reads, writes)
    elif k == 'case':
        _refs_in(s.expr, reads)
        for labels, st in s.items:
            for l in labels or []:
                _refs_in(l, reads)
            _stmt_walk(st, reads, writes)
    elif k in ('bassign', 'nbassign'):
        _refs_in(s.rhs, reads)
        for l in _lref_names(s.lhs):
            writes.append((l, k))
            for sel in l.sels:
                for x in sel[1:]:
                    _refs_in(x, reads)


def _lint_module(d, sc, is_top):
    m = sc.mod
    name = m.name

    def issue(rule, msg):
        d.issue(rule, name, msg)
    known = set(sc.sigs) | set(sc.params)
    drivers = {}       # signal -> list of (kind, bits or None)

    def add_driver(lref, kind):
        s = sc.sigs.get(lref.name)
        if s is None:
            issue('R2', 'identifier %s is assigned but not declared' % lref.name)
            return
        bits = None
        if lref.sels and s.depth is None:
            try:
                sel = lref.sels[0]
                if sel[0] == 'idx':
                    i = const_eval(sel[1], sc.params)
                    bits = (i, i)
                else:
                    bits = (const_eval(sel[1], sc.params), const_eval(sel[2], sc.params))
                    if bits[0] >= s.lsb + s.width or bits[1] < s.lsb:
                        issue('R5', 'part select %s[%d:%d] outside the declared range of width %d' % (lref.name, bits[0], bits[1], s.width))
            except VlogError:
                bits = None
        drivers.setdefault(lref.name, []).append((kind, bits))

    reads = set()
    tri = set()        # nets connected to an inout port of an instance: driven from there, any number of drivers
    procs = []
    for it in m.items:
        if it.kind == 'assign':
            for l in _lref_names(it.lhs):
                add_driver(l, 'assign')
                for sel in l.sels:
                    for x in sel[1:]:
                        _refs_in(x, reads)
            _refs_in(it.rhs, reads)
        elif it.kind == 'decl':
            for nm in it.names:
                if nm.init is not None:
                    _refs_in(nm.init, reads)
                    if it.nettype in ('wire', 'tri'):
                        drivers.setdefault(nm.name, []).append(('assign', None))
        elif it.kind in ('always', 'initial'):
            r, w = set(), []
            _stmt_walk(it.body, r, w)
            reads |= r
            tag = ('initial', None) if it.kind == 'initial' else ('always', id(it))
            for l, k in w:
                s = sc.sigs.get(l.name)
                if s is None:
                    issue('R2', 'identifier %s is assigned in a procedural block but not declared' % l.name)
                    continue
                if s.kind == 'wire':
                    issue('R6', 'procedural assignment to net %s (must be reg/integer)' % l.name)
                procs.append((l.name, tag))
        elif it.kind == 'instance':
            cdef = d.defs.get(it.module)
            for pn, e in it.conns:
                if e is None:
                    continue
                pdir = None
                if cdef is not None:
                    for p in cdef.ports:
                        if p.name == pn:
                            pdir = p.dir
                if pdir == 'output':
                    try:
                        for l in _lref_names(_expr_to_lvalue(e, name, it)):
                            add_driver(l, 'instance')
                    except ElabError as ex:
                        issue('R5', str(ex))
                elif pdir == 'inout':
                    _refs_in(e, reads)
                    _refs_in(e, tri)
                else:
                    _refs_in(e, reads)
    for r in sorted(reads):
        if r not in known:
            issue('R2', 'identifier %s is used but not declared' % r)
    # procedural drivers: one always block (plus optionally initial) per variable
    byname = {}
    for n, tag in procs:
        byname.setdefault(n, set()).add(tag)
    for n, tags in byname.items():
        al = [t for t in tags if t[0] == 'always']
        if len(al) > 1:
            issue('R6', 'variable %s is assigned in more than one always block' % n)
        if n in drivers:
            issue('R6', 'variable %s has both procedural and continuous drivers' % n)
    for n, ds in drivers.items():
        s = sc.sigs[n]
        if s.kind != 'wire':
            issue('R6', 'continuous assignment / instance output drives %s which is declared %s' % (n, s.kind))
        if s.dir == 'input':
            issue('R6', 'input port %s is driven inside the module' % n)
        # overlapping drivers
        cover = {}
        for kind, bits in ds:
            rng = range(s.lsb, s.lsb + s.width) if bits is None else range(min(bits), max(bits) + 1)
            for b in rng:
                cover[b] = cover.get(b, 0) + 1
        if any(v > 1 for v in cover.values()) and n not in tri and s.dir != 'inout':
            issue('R6', 'net %s has more than one driver' % n)
    # undriven nets that are read or are outputs
    for n, s in sc.sigs.items():
        if s.dir == 'input' or s.dir == 'inout':
            continue
        driven = n in drivers or n in byname or (s.init is not None) or n in tri
        if not driven:
            if is_top and n in d.external:
                continue
            if s.dir == 'output':
                issue('R6', 'output port %s has no driver' % n)
            elif n in reads:
                issue('R6', 'net %s is read but has no driver' % n)


# ------------------------------------------------------------------ typing

def _typeof(d, sc, e):
    """self-determined (width, signed) of expression e in scope sc"""
    if e.kind == 'num':
        return (e.width if e.width is not None else 32, e.signed)
    key = (id(sc), id(e))
    r = d._tcache.get(key)
    if r is None:
        r = _typeof_raw(d, sc, e)
        d._tcache[key] = r
        d._tcache[('keep', id(e))] = e
    return r


def _lookup(sc, name):
    s = sc.sigs.get(name)
    if s is None:
        if name in sc.params:
            return None
        # IEEE 1364-2005 4.5: an undeclared identifier used in an expression or port connection is an implicit scalar net
        # (nothing drives it).  It is recorded and reported as lint finding R2 by _typecheck; simulation goes on with the
        # implicit net, so that the behavioural consequence (e.g. a register whose clock is never connected) is visible too.
        s = Sig(name, 1, False, 'wire')
        s.declared = 0
        sc.sigs[name] = s
        sc.__dict__.setdefault('implicit', []).append(name)
    return s


def _typeof_repl(d, sc, e, allow_zero):
    n = const_eval(e.count, sc.params, 'replication count')
    if n < 0 or (n == 0 and not allow_zero):
        raise ElabError('replication count %d is not positive' % n)
    w = 0
    for p in e.parts:
        if p.kind == 'num' and p.width is None:
            raise ElabError('unsized constant in replication')
        w += _typeof(d, sc, p)[0]
    return (n * w, False)


def _typeof_raw(d, sc, e):
    k = e.kind
    if k == 'num':
        return (e.width if e.width is not None else 32, e.signed)
    if k == 'paren':
        return _typeof(d, sc, e.e)
    if k == 'ref':
        s = _lookup(sc, e.name)
        if s is None:
            if e.sels:
                raise Unsupported('select on parameter %s' % e.name)
            return (32, True)
        sels = list(e.sels)
        if s.depth is not None:
            if not sels or sels[0][0] != 'idx':
                raise ElabError('memory %s used without index' % e.name)
            sels = sels[1:]
            if not sels:
                return (s.width, False)
        if not sels:
            return (s.width, s.signed)
        if len(sels) > 1:
            raise Unsupported('multiple selects on %s' % e.name)
        sel = sels[0]
        if sel[0] == 'idx':
            return (1, False)
        msb, lsb = const_eval(sel[1], sc.params, 'part select'), const_eval(sel[2], sc.params, 'part select')
        if msb < lsb:
            raise ElabError('reversed part select %s[%d:%d]' % (e.name, msb, lsb))
        return (msb - lsb + 1, False)
    if k == 'concat':
        w = 0
        for p in e.parts:
            if p.kind == 'num' and p.width is None:
                raise ElabError('unsized constant in concatenation')
            if p.kind == 'repl':
                # 1364-2005 5.1.14: a zero replication constant is allowed only inside a concatenation
                # in which at least one operand has a positive size
                w += _typeof_repl(d, sc, p, allow_zero=True)[0]
            else:
                w += _typeof(d, sc, p)[0]
        if w == 0:
            raise ElabError('replication/concatenation of total size zero')
        return (w, False)
    if k == 'repl':
        return _typeof_repl(d, sc, e, allow_zero=False)
    if k == 'syscall':
        w, _ = _typeof(d, sc, e.e)
        return (w, e.name == '$signed')
    if k == 'unary':
        if e.op in ('+', '-', '~'):
            return _typeof(d, sc, e.e)
        _typeof(d, sc, e.e)
        return (1, False)
    if k == 'binary':
        op = e.op
        lw, ls = _typeof(d, sc, e.l)
        rw, rs = _typeof(d, sc, e.r)
        if op in ('+', '-', '*', '/', '%', '&', '|', '^', '~^', '^~'):
            return (max(lw, rw), ls and rs)
        if op in ('<<', '>>', '<<<', '>>>', '**'):
            return (lw, ls)
        return (1, False)
    if k == 'ternary':
        _typeof(d, sc, e.cond)
        aw, as_ = _typeof(d, sc, e.a)
        bw, bs = _typeof(d, sc, e.b)
        return (max(aw, bw), as_ and bs)
    raise Unsupported('expression kind ' + k)


# ------------------------------------------------------------------ evaluation

def _ext(v, w, s, W, S):
    """value v of self type (w, s) converted to propagated type (W, S)"""
    if W <= w:
        return v & mask(W)
    if S and (v >> (w - 1)) & 1:
        return (v | (mask(W) ^ mask(w)))
    return v


def _self_eval(d, sc, e):
    w, s = _typeof(d, sc, e)
    return _eval(d, sc, e, w, s), w, s


def _eval(d, sc, e, W, S):
    """evaluate e in a context of width W (>= self width) and propagated signedness S; result masked to W"""
    k = e.kind
    if k == 'num':
        if e.xz:
            raise Unsupported('x/z literal %s' % getattr(e, 'text', ''))
        w = e.width if e.width is not None else 32
        return _ext(e.value & mask(w), w, e.signed, W, S)
    if k == 'paren':
        return _eval(d, sc, e.e, W, S)
    if k == 'ref':
        s = sc.sigs.get(e.name)
        if s is None:
            v = sc.params[e.name] & mask(32)
            return _ext(v, 32, True, W, S)
        sels = e.sels
        val = s.value
        w, sg = s.width, s.signed
        if s.depth is not None:
            idx = _self_eval(d, sc, sels[0][1])[0] - s.mem_lo
            val = val[idx] if 0 <= idx < s.depth else 0
            sels = sels[1:]
            sg = False
        if sels:
            sel = sels[0]
            sg = False
            if sel[0] == 'idx':
                i = _self_eval(d, sc, sel[1])[0] - s.lsb
                val = (val >> i) & 1 if 0 <= i < w else 0
                w = 1
            else:
                msb = const_eval(sel[1], sc.params) - s.lsb
                lsb = const_eval(sel[2], sc.params) - s.lsb
                if msb >= w or lsb < 0:
                    # out-of-range part select reads x for the missing bits; two-state model cannot represent that
                    raise ElabError('part select [%d:%d] out of range of %s (width %d)' % (msb + s.lsb, lsb + s.lsb, e.name, w))
                val = (val >> lsb) & mask(msb - lsb + 1)
                w = msb - lsb + 1
        return _ext(val, w, sg, W, S)
    if k == 'concat':
        v = 0
        for p in e.parts:
            if p.kind == 'repl' and const_eval(p.count, sc.params) == 0:
                continue
            pv, pw, _ = _self_eval(d, sc, p)
            v = (v << pw) | pv
        w = _typeof(d, sc, e)[0]
        return _ext(v, w, False, W, S)
    if k == 'repl':
        n = const_eval(e.count, sc.params)
        inner = 0
        iw = 0
        for p in e.parts:
            pv, pw, _ = _self_eval(d, sc, p)
            inner = (inner << pw) | pv
            iw += pw
        v = 0
        for _i in range(n):
            v = (v << iw) | inner
        return _ext(v, n * iw, False, W, S)
    if k == 'syscall':
        v, w, _ = _self_eval(d, sc, e.e)
        return _ext(v, w, e.name == '$signed', W, S)
    if k == 'unary':
        op = e.op
        if op in ('+', '-', '~'):
            v = _eval(d, sc, e.e, W, S)
            if op == '-':
                return (-v) & mask(W)
            if op == '~':
                return (~v) & mask(W)
            return v
        v, w, _ = _self_eval(d, sc, e.e)
        if op == '!':
            r = int(v == 0)
        elif op == '&':
            r = int(v == mask(w))
        elif op == '~&':
            r = int(v != mask(w))
        elif op == '|':
            r = int(v != 0)
        elif op == '~|':
            r = int(v == 0)
        else:
            r = bin(v).count('1') & 1
            if op in ('~^', '^~'):
                r ^= 1
        return r
    if k == 'binary':
        op = e.op
        if op in ('+', '-', '*', '&', '|', '^', '~^', '^~', '/', '%'):
            a = _eval(d, sc, e.l, W, S)
            b = _eval(d, sc, e.r, W, S)
            if op == '+':
                return (a + b) & mask(W)
            if op == '-':
                return (a - b) & mask(W)
            if op == '*':
                return (a * b) & mask(W)
            if op == '&':
                return a & b
            if op == '|':
                return a | b
            if op == '^':
                return a ^ b
            if op in ('~^', '^~'):
                return (~(a ^ b)) & mask(W)
            if b == 0:
                # x in Verilog; two-state model: yield 0 and flag it, the harness prunes such inputs
                d.divzero = True
                return 0
            if S:
                sa, sb = sext(a, W), sext(b, W)
                q = abs(sa) // abs(sb)
                if (sa < 0) != (sb < 0):
                    q = -q
                if op == '/':
                    return q & mask(W)
                return (sa - sb * q) & mask(W)
            return (a // b) & mask(W) if op == '/' else (a % b) & mask(W)
        if op in ('<<', '>>', '<<<', '>>>'):
            a = _eval(d, sc, e.l, W, S)
            n = _self_eval(d, sc, e.r)[0]
            if op in ('<<', '<<<'):
                return (a << n) & mask(W) if n < 4096 else 0
            if op == '>>>' and S:
                return (sext(a, W) >> n) & mask(W)
            return a >> n
        if op in ('==', '!=', '<', '<=', '>', '>=', '===', '!=='):
            lw, ls = _typeof(d, sc, e.l)
            rw, rs = _typeof(d, sc, e.r)
            w, s = max(lw, rw), ls and rs
            a = _eval(d, sc, e.l, w, s)
            b = _eval(d, sc, e.r, w, s)
            if s:
                a, b = sext(a, w), sext(b, w)
            return int({'==': a == b, '!=': a != b, '<': a < b, '<=': a <= b, '>': a > b, '>=': a >= b,
                        '===': a == b, '!==': a != b}[op])
        if op == '&&':
            return int(_self_eval(d, sc, e.l)[0] != 0 and _self_eval(d, sc, e.r)[0] != 0)
        if op == '||':
            return int(_self_eval(d, sc, e.l)[0] != 0 or _self_eval(d, sc, e.r)[0] != 0)
        if op == '**':
            a = _eval(d, sc, e.l, W, S)
            n = _self_eval(d, sc, e.r)[0]
            return pow(a, n, 1 << W)
        raise Unsupported('operator ' + op)
    if k == 'ternary':
        c = _self_eval(d, sc, e.cond)[0]
        return _eval(d, sc, e.a if c else e.b, W, S)
    raise Unsupported('expression kind ' + k)


def _lwidth(d, sc, l):
    if l.kind == 'lconcat':
        return sum(_lwidth(d, sc, p) for p in l.parts)
    s = sc.sigs.get(l.name)
    if s is None:
        raise ElabError('assignment target %s not declared in %s' % (l.name, sc.mod.name))
    sels = list(l.sels)
    if s.depth is not None:
        if not sels:
            raise ElabError('memory %s assigned without index' % l.name)
        sels = sels[1:]
    if not sels:
        return s.width
    sel = sels[0]
    if sel[0] == 'idx':
        return 1
    return const_eval(sel[1], sc.params) - const_eval(sel[2], sc.params) + 1


def eval_rhs(d, lsc, lhs, rsc, rhs):
    """value of rhs in the assignment context of lhs, truncated to the lhs width"""
    lw = _lwidth(d, lsc, lhs)
    rw, rs = _typeof(d, rsc, rhs)
    W = max(lw, rw)
    return _eval(d, rsc, rhs, W, rs) & mask(lw), lw


def _store(d, sc, l, v, lw=None):
    """store value v into lvalue l; returns True if something changed"""
    if l.kind == 'lconcat':
        ch = False
        ws = [_lwidth(d, sc, p) for p in l.parts]
        tot = sum(ws)
        pos = tot
        for p, w in zip(l.parts, ws):
            pos -= w
            ch |= _store(d, sc, p, (v >> pos) & mask(w))
        return ch
    s = sc.sigs[l.name]
    sels = list(l.sels)
    if s.depth is not None:
        idx = _self_eval(d, sc, sels[0][1])[0] - s.mem_lo
        sels = sels[1:]
        if not (0 <= idx < s.depth):
            return False
        old = s.value[idx]
        if not sels:
            new = v & mask(s.width)
        else:
            new = _insert(d, sc, s, old, sels[0], v)
        if new != old:
            s.value[idx] = new
            return True
        return False
    old = s.value
    if not sels:
        new = v & mask(s.width)
    else:
        new = _insert(d, sc, s, old, sels[0], v)
    if new != old:
        s.value = new
        return True
    return False


def _insert(d, sc, s, old, sel, v):
    if sel[0] == 'idx':
        i = _self_eval(d, sc, sel[1])[0] - s.lsb
        if not (0 <= i < s.width):
            return old
        return (old & ~(1 << i)) | ((v & 1) << i)
    msb = const_eval(sel[1], sc.params) - s.lsb
    lsb = const_eval(sel[2], sc.params) - s.lsb
    w = msb - lsb + 1
    m = mask(w) << lsb
    return ((old & ~m) | ((v & mask(w)) << lsb)) & mask(s.width)


# ------------------------------------------------------------------ simulator

class Sim:
    """Cycle simulator over an elaborated design.

    power-up: declaration initialisers and initial blocks run once, then settle.
    cycle(): inputs have been poked by the caller -> settle, falling edge of every top clock
    (clocks idle high between cycles), settle, rising edge, settle."""

    def __init__(self, design, clocks=('clk',)):
        self.d = design
        self.top = design.top
        self.clocks = [c for c in clocks if c in self.top.sigs]
        for c in self.clocks:
            self.top.sigs[c].value = 1
        self._prep()
        for sc, body in design.initials:
            self._exec(sc, body, None)
        self.settle()

    # -- public
    def poke(self, name, v):
        s = self.top.sigs[name]
        s.value = v & mask(s.width)

    def peek(self, name):
        return self.top.sigs[name].value

    def has(self, name):
        return name in self.top.sigs

    def snapshot(self):
        out = []
        for sc in self.d.scopes:
            for s in sc.sigs.values():
                out.append(tuple(s.value) if s.depth is not None else s.value)
        return tuple(out)

    def restore(self, snap):
        i = 0
        for sc in self.d.scopes:
            for s in sc.sigs.values():
                v = snap[i]
                s.value = list(v) if s.depth is not None else v
                i += 1

    def state_key(self, exclude=()):
        """values of all regs/integers/memories (sequential state)"""
        out = []
        for sc in self.d.scopes:
            for s in sc.sigs.values():
                if s.kind != 'wire':
                    out.append(tuple(s.value) if s.depth is not None else s.value)
        return tuple(out)

    def cycle(self):
        self.settle()
        self._edge(0)
        self._edge(1)

    # -- internals
    def _prep(self):
        d = self.d
        # order continuous assignments by dependency when possible (pure performance)
        self._cont = _order_assigns(d.assigns)
        self._clk_sigs = [(sc, edge, sc.sigs.get(clk), body) for sc, edge, clk, body in d.seq]

    def settle(self):
        d = self.d
        for it in range(200):
            changed = False
            d.divzero = False
            for lsc, lhs, rsc, rhs in self._cont:
                v, lw = eval_rhs(d, lsc, lhs, rsc, rhs)
                if _store(d, lsc, lhs, v):
                    changed = True
            for sc, body in d.comb:
                # non-blocking assignments of one activation of the block take effect together after it (the last one to a
                # target wins); the block "changed something" when a target ends up with another value than it had before
                nba = []
                if self._exec(sc, body, nba):
                    changed = True
                if nba:
                    pre = {}
                    for nsc, l, v in nba:
                        for nm in ([l.name] if l.kind != 'lconcat' else [p.name for p in l.parts]):
                            sg = nsc.sigs.get(nm)
                            if sg is not None and id(sg) not in pre:
                                pre[id(sg)] = (sg, list(sg.value) if sg.depth is not None else sg.value)
                    for nsc, l, v in nba:
                        _store(d, nsc, l, v)
                    for sg, old in pre.values():
                        if (list(sg.value) if sg.depth is not None else sg.value) != old:
                            changed = True
            if not changed:
                return
        raise Oscillation('combinational logic did not settle in 200 passes')

    def _edge(self, newval):
        prev = [s.value if s is not None else 0 for _, _, s, _ in self._clk_sigs]
        for c in self.clocks:
            self.top.sigs[c].value = newval
        for delta in range(20):
            self.settle()
            trig = []
            for i, (sc, edge, s, body) in enumerate(self._clk_sigs):
                if s is None:
                    continue
                cur = s.value & 1
                was = prev[i] & 1
                if (edge == 'posedge' and was == 0 and cur == 1) or (edge == 'negedge' and was == 1 and cur == 0):
                    trig.append((sc, body))
                prev[i] = s.value
            if not trig:
                return
            nba = []
            for sc, body in trig:
                self._exec(sc, body, nba)
            for sc, l, v in nba:
                _store(self.d, sc, l, v)
        raise Oscillation('clock edges keep being generated')

    def _exec(self, sc, st, nba):
        """execute a statement; blocking assignments immediately, non-blocking into nba
        (or immediately when nba is None: combinational/initial context). Returns changed flag."""
        d = self.d
        k = st.kind
        if k == 'block':
            ch = False
            for b in st.body:
                if self._exec(sc, b, nba):
                    ch = True
            return ch
        if k == 'if':
            c = _self_eval(d, sc, st.cond)[0]
            if c:
                return self._exec(sc, st.then, nba)
            if st.els is not None:
                return self._exec(sc, st.els, nba)
            return False
        if k == 'case':
            w, s = _typeof(d, sc, st.expr)
            for labels, body in st.items:
                for l in labels or []:
                    lw, ls = _typeof(d, sc, l)
                    w, s = max(w, lw), s and ls
            default = None
            ev = _eval(d, sc, st.expr, w, s)
            for labels, body in st.items:
                if labels is None:
                    default = body
                    continue
                for l in labels:
                    if ev == _eval(d, sc, l, w, s):
                        return self._exec(sc, body, nba)
            if default is not None:
                return self._exec(sc, default, nba)
            return False
        if k == 'bassign':
            v, lw = eval_rhs(d, sc, st.lhs, sc, st.rhs)
            return _store(d, sc, st.lhs, v)
        if k == 'nbassign':
            v, lw = eval_rhs(d, sc, st.lhs, sc, st.rhs)
            if nba is None:
                return _store(d, sc, st.lhs, v)
            # index expressions of the target are evaluated now
            nba.append((sc, _freeze_lhs(d, sc, st.lhs), v))
            return False
        if k == 'null':
            return False
        raise Unsupported('statement ' + k)


def _order_assigns(assigns):
    """topological order of continuous assignments by data dependency (performance only;
    settle() still iterates to a fixpoint)"""
    n = len(assigns)
    writes, reads = [], []
    for lsc, lhs, rsc, rhs in assigns:
        writes.append({(id(lsc), l.name) for l in _lref_names(lhs)})
        r = {(id(rsc), nm) for nm in _refs_in(rhs, set())}
        for l in _lref_names(lhs):
            for sel in l.sels:
                for x in sel[1:]:
                    r |= {(id(lsc), nm) for nm in _refs_in(x, set())}
        reads.append(r)
    producer = {}
    for i, ws in enumerate(writes):
        for w in ws:
            producer.setdefault(w, []).append(i)
    indeg = [0] * n
    succ = [[] for _ in range(n)]
    for i in range(n):
        for r in reads[i]:
            for j in producer.get(r, ()):
                if j != i:
                    succ[j].append(i)
                    indeg[i] += 1
    order = [i for i in range(n) if indeg[i] == 0]
    k = 0
    while k < len(order):
        for j in succ[order[k]]:
            indeg[j] -= 1
            if indeg[j] == 0:
                order.append(j)
        k += 1
    rest = [i for i in range(n) if i not in set(order)]
    return [assigns[i] for i in order + rest]


def _freeze_lhs(d, sc, l):
    """evaluate variable indices of an NBA target at scheduling time"""
    if l.kind == 'lconcat':
        return N('lconcat', parts=[_freeze_lhs(d, sc, p) for p in l.parts], line=l.line)
    sels = []
    for sel in l.sels:
        if sel[0] == 'idx':
            v = _self_eval(d, sc, sel[1])[0]
            sels.append(('idx', N('num', value=v, width=None, signed=True, xz=False)))
        else:
            sels.append(sel)
    return N('lref', name=l.name, sels=sels, line=l.line)
