"""Lexer for the Verilog-2005 subset py4hw can emit."""
import re


class VlogError(Exception):
    pass


class ParseError(VlogError):
    def __init__(self, msg, line=None):
        super().__init__('%s (line %s)' % (msg, line))
        self.msg = msg
        self.line = line


KEYWORDS = {
    'module', 'endmodule', 'input', 'output', 'inout', 'wire', 'reg', 'integer', 'assign', 'always', 'initial',
    'begin', 'end', 'if', 'else', 'case', 'casez', 'casex', 'endcase', 'default', 'posedge', 'negedge', 'or',
    'parameter', 'localparam', 'signed', 'for', 'while', 'function', 'endfunction', 'task', 'endtask', 'generate',
    'endgenerate', 'genvar', 'defparam', 'real', 'time', 'tri', 'supply0', 'supply1',
}

# IEEE 1364-2005 Annex B reserved words (independent of py4hw's own table)
RESERVED_2005 = set('''always and assign automatic begin buf bufif0 bufif1 case casex casez cell cmos config deassign
default defparam design disable edge else end endcase endconfig endfunction endgenerate endmodule endprimitive
endspecify endtable endtask event for force forever fork function generate genvar highz0 highz1 if ifnone incdir
include initial inout input instance integer join large liblist library localparam macromodule medium module nand
negedge nmos nor noshowcancelled not notif0 notif1 or output parameter pmos posedge primitive pull0 pull1 pulldown
pullup pulsestyle_onevent pulsestyle_ondetect rcmos real realtime reg release repeat rnmos rpmos rtran rtranif0
rtranif1 scalared showcancelled signed small specify specparam strong0 strong1 supply0 supply1 table task time tran
tranif0 tranif1 tri tri0 tri1 triand trior trireg unsigned use uwire vectored wait wand weak0 weak1 while wire wor
xnor xor'''.split())

TOKEN_RE = re.compile(r'''
    (?P<ws>\s+)
  | (?P<lcomment>//[^\n]*)
  | (?P<bcomment>/\*.*?\*/)
  | (?P<based>(?:\d[\d_]*)?\s*'[sS]?[bBoOdDhH]\s*[0-9a-fA-FxXzZ?_]+)
  | (?P<real>\d+\.\d+(?:[eE][+-]?\d+)?)
  | (?P<num>\d[\d_]*)
  | (?P<sysid>\$[A-Za-z_][A-Za-z0-9_$]*)
  | (?P<id>[A-Za-z_][A-Za-z0-9_$]*)
  | (?P<eid>\\[^\s]+)
  | (?P<str>"(?:[^"\\]|\\.)*")
  | (?P<op>>>>|<<<|===|!==|<=|>=|==|!=|&&|\|\||<<|>>|~&|~\||~\^|\^~|\*\*|[-+*/%&|^~!<>=?:;,.()\[\]{}@\#])
''', re.X | re.S)


class Tok:
    __slots__ = ('kind', 'val', 'line')

    def __init__(self, kind, val, line):
        self.kind, self.val, self.line = kind, val, line

    def __repr__(self):
        return '%s:%r@%d' % (self.kind, self.val, self.line)


def strip_attributes(text):
    """Remove (* ... *) attribute instances but keep '@(*)' / '@( * )'."""
    out = []
    i, n = 0, len(text)
    while i < n:
        if text.startswith('(*', i):
            j = i + 2
            while j < n and text[j] in ' \t':
                j += 1
            if j < n and text[j] == ')':
                out.append(text[i:j + 1])
                i = j + 1
                continue
            k = text.find('*)', i + 2)
            if k < 0:
                raise ParseError('unterminated attribute', text.count('\n', 0, i) + 1)
            out.append(' ' * (k + 2 - i - text.count('\n', i, k + 2)) + '\n' * text.count('\n', i, k + 2))
            i = k + 2
            continue
        if text.startswith('//', i):
            k = text.find('\n', i)
            k = n if k < 0 else k
            out.append(text[i:k])
            i = k
            continue
        if text.startswith('/*', i):
            k = text.find('*/', i + 2)
            k = n if k < 0 else k + 2
            out.append(text[i:k])
            i = k
            continue
        if text[i] == '"':
            k = i + 1
            while k < n and text[k] != '"':
                k += 2 if text[k] == '\\' else 1
            out.append(text[i:k + 1])
            i = k + 1
            continue
        out.append(text[i])
        i += 1
    return ''.join(out)


def tokenize(text):
    text = strip_attributes(text)
    toks = []
    pos, line, n = 0, 1, len(text)
    while pos < n:
        m = TOKEN_RE.match(text, pos)
        if not m:
            raise ParseError('illegal character %r' % text[pos], line)
        kind = m.lastgroup
        val = m.group(kind)
        if kind in ('ws', 'lcomment', 'bcomment'):
            pass
        elif kind == 'id':
            toks.append(Tok('kw' if val in KEYWORDS else 'id', val, line))
        elif kind == 'eid':
            toks.append(Tok('id', val[1:], line))
        else:
            toks.append(Tok(kind, val, line))
        line += val.count('\n')
        pos = m.end()
    toks.append(Tok('eof', None, line))
    return toks
