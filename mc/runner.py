"""./check <Cnn> [--tier quick|thorough] [--replay path] [--jobs N] [--only substring]

Runs the shards of one property in worker processes, aggregates coverage,
applies the known-findings list, writes evidence/<id>.json and replay files.
Exit 0 = property held on everything explored (KNOWN-FINDING lines allowed),
exit 1 = a VIOLATION line was printed, exit 2 = harness error.
"""
import argparse
import hashlib
import importlib
import json
import multiprocessing as mp
import os
import random
import re
import sys
import time
import traceback

ROOT = os.path.dirname(os.path.dirname(os.path.abspath(__file__)))
SUMMABLE = ('evaluations', 'distinct_nontrivial', 'states', 'transitions',
            'traces_validated_against_impl', 'programs', 'configs', 'refused',
            'pruned', 'skipped_precondition', 'closed_graphs', 'capped_graphs',
            'disagreements_checked', 'constructor_rejected', 'width_monitor_checks')


def load(pid):
    return importlib.import_module('mc.props.' + pid.lower())


def _worker(args):
    pid, desc = args
    from mc import core
    mod = load(pid)
    t0 = time.time()
    try:
        from py4hw.base import Wire
        core.reset_prepared()
        with core.quiet():
            res = mod.run_shard(desc)
        res.setdefault('violations', [])
        res['shard'] = desc
        res['wall'] = time.time() - t0
        return res
    except Exception:
        return {'harness_error': traceback.format_exc(), 'shard': desc, 'violations': []}


def load_findings():
    p = os.path.join(ROOT, 'known_findings.json')
    if not os.path.exists(p):
        return []
    return json.load(open(p))['findings']


def slug(s):
    h = hashlib.sha1(s.encode()).hexdigest()[:8]
    s2 = re.sub(r'[^A-Za-z0-9_.-]+', '_', s)[:60]
    return s2 + '_' + h


def do_replay(pid, path):
    mod = load(pid)
    v = json.load(open(path))
    from mc import core
    with core.quiet():
        o1 = mod.replay(v)
    with core.quiet():
        o2 = mod.replay(v)
    if json.dumps(o1, sort_keys=True, default=str) != json.dumps(o2, sort_keys=True, default=str):
        hd = [o for o in (o1, o2) if isinstance(o, dict) and 'power_up_states_agree' in o]
        if len(hd) == 2 and (o1.get('violates') or o2.get('violates')):
            # a history-dependence finding: that two replays in one process differ IS the finding
            o1 = dict(o1 if o1.get('violates') else o2, second_replay_in_the_same_process_differs=True)
        else:
            print('REPLAY NONDETERMINISTIC')
            return 2
    print(json.dumps(o1, indent=1, default=str))
    bad = o1.get('violates') if isinstance(o1, dict) else None
    if bad:
        print('VIOLATION property=%s replay=%s' % (pid, path))
        return 1
    print('replay: property holds on this trace')
    return 0


def main(argv=None):
    ap = argparse.ArgumentParser()
    ap.add_argument('pid')
    ap.add_argument('--tier', default=os.environ.get('VERIF_TIER', 'quick'), choices=['quick', 'thorough'])
    ap.add_argument('--replay')
    ap.add_argument('--jobs', type=int, default=int(os.environ.get('VERIF_JOBS', '0')) or min(16, os.cpu_count() or 1))
    ap.add_argument('--only', default=None, help='run only shards whose JSON contains this substring')
    ap.add_argument('--no-evidence', action='store_true')
    a = ap.parse_args(argv)
    if 'VERIF_GRAPH_BUDGET_S' not in os.environ:
        # CPU-time budget (process_time of the shard process) of one explored graph (the largest graph of the unchanged tree: ~20 s quick, ~250 s thorough)
        from mc import core as _core
        _core.SHARD_BUDGET_S = 45.0 if a.tier == "quick" else 1500.0
    pid = a.pid.upper()
    if a.replay:
        return do_replay(pid, a.replay)
    seed = int(os.environ.get('VERIF_SEED', '0') or 0)
    t0 = time.time()
    mod = load(pid)
    shards = list(mod.shards(a.tier))
    if a.only:
        shards = [s for s in shards if a.only in json.dumps(s)]
    # seed only rotates scheduling order; never changes what is explored
    random.Random(seed).shuffle(shards)
    if hasattr(mod, 'cost'):
        shards.sort(key=lambda s: -mod.cost(s))
    jobs = max(1, min(a.jobs, len(shards)))
    results = []
    if jobs == 1:
        for s in shards:
            results.append(_worker((pid, s)))
    else:
        import gc
        gc.collect()
        gc.freeze()          # keep the forked workers from touching the parent's copy-on-write heap
        ctx = mp.get_context('fork')
        with ctx.Pool(jobs, maxtasksperchild=getattr(mod, 'MAXTASKS', None)) as pool:
            for r in pool.imap_unordered(_worker, [(pid, s) for s in shards], chunksize=1):
                results.append(r)
    results.sort(key=lambda r: json.dumps(r['shard'], sort_keys=True, default=str))

    herr = [r for r in results if 'harness_error' in r]
    if herr:
        for r in herr[:5]:
            print('HARNESS ERROR in shard %s:\n%s' % (json.dumps(r['shard'], default=str), r['harness_error']))
        print('harness errors: %d' % len(herr))
        return 2

    cov = {}
    for r in results:
        for k in SUMMABLE:
            if k in r:
                cov[k] = cov.get(k, 0) + int(r[k])
    samples = []
    for r in results:
        for s in r.get('samples', [])[:2]:
            if len(samples) < 12:
                samples.append(s)
    cov['samples'] = samples or [{'shard': r['shard']} for r in results[:3]]
    cov['shards'] = len(results)
    caps = [r['shard'] for r in results if r.get('capped')]
    cov['capped_shards'] = len(caps)
    if caps:
        cov['capped_examples'] = caps[:5]
    outcomes = [r.get('distinct_outcomes') for r in results if 'distinct_outcomes' in r]
    if outcomes:
        cov['min_distinct_outcomes_per_shard'] = min(outcomes)
        cov['sum_distinct_outcomes'] = sum(outcomes)
    cov['exhaustive'] = bool(getattr(mod, 'EXHAUSTIVE', True)) and not caps
    cov['rule'] = mod.RULE if isinstance(mod.RULE, str) else mod.RULE[a.tier]
    if hasattr(mod, 'BOUNDS'):
        cov['bounds'] = mod.BOUNDS[a.tier] if isinstance(mod.BOUNDS, dict) and a.tier in mod.BOUNDS else mod.BOUNDS
    if hasattr(mod, 'finish'):
        mod.finish(cov, results, a.tier)

    # vacuity guard (harness self-test, not a property verdict)
    vac = [r['shard'] for r in results if r.get('distinct_outcomes', 2) < 2 and not r.get('vacuous_ok') and not r['violations']]
    if vac:
        print('HARNESS ERROR: vacuous shards (one distinct outcome): %s' % json.dumps(vac[:5], default=str))
        return 2

    if not any(r['violations'] for r in results) and not a.only and \
            cov.get('evaluations', 0) + cov.get('transitions', 0) + cov.get('programs', 0) == 0:
        print('HARNESS ERROR: nothing was explored (every construction rejected?): %s' % json.dumps(
            {k: v for k, v in cov.items() if k in SUMMABLE}, default=str))
        return 2

    # violations / known findings
    findings = [f for f in load_findings() if f['property'] == pid]
    known = [f for f in findings if f.get('status') == 'known']
    viols = [v for r in results for v in r['violations']]
    new, hit = [], {}
    for v in viols:
        m = None
        for f in known:
            if re.fullmatch(f['match'], v['sig']):
                m = f
                break
        if m is None:
            new.append(v)
        else:
            hit.setdefault(m['id'], [m, 0])[1] += 1
    for fid, (f, n) in sorted(hit.items()):
        print('KNOWN-FINDING: property=%s %s [%s; %d failing case(s) this run]' % (pid, f['what'], fid, n))
    rc = 0
    if new:
        rc = 1
        rdir = os.path.join(ROOT, 'replays', pid)
        os.makedirs(rdir, exist_ok=True)
        seen_sig = set()
        for v in new:
            if v['sig'] in seen_sig:
                continue
            seen_sig.add(v['sig'])
            if len(seen_sig) > 25:
                break
            v = dict(v)
            v['property'] = pid
            path = os.path.join(rdir, slug(v['sig']) + '.json')
            with open(path, 'w') as fh:
                json.dump(v, fh, indent=1, default=str)
            print('VIOLATION property=%s replay=%s' % (pid, path))
            print('  sig: %s' % v['sig'])
            if 'detail' in v:
                print('  detail: %s' % json.dumps(v['detail'], default=str)[:600])
        if len({v['sig'] for v in new}) > 25:
            print('  (%d further distinct violations not written)' % (len({v['sig'] for v in new}) - 25))

    cov['known_findings_hit'] = sorted(hit)
    ev = {
        'property_id': pid,
        'tier': a.tier,
        'seed': seed,
        'level': mod.LEVEL,
        'coverage': cov,
        'assumptions': list(getattr(mod, 'ASSUMPTIONS', [])),
        'wall_s': round(time.time() - t0, 2),
        'violations': len({v['sig'] for v in new}),
    }
    if not a.no_evidence and not a.only:
        os.makedirs(os.path.join(ROOT, 'evidence'), exist_ok=True)
        with open(os.path.join(ROOT, 'evidence', pid + '.json'), 'w') as fh:
            json.dump(ev, fh, indent=1, default=str)
        if a.tier == 'thorough':
            # the last thorough run is kept beside the per-run file, which the next quick run overwrites
            os.makedirs(os.path.join(ROOT, 'evidence_thorough'), exist_ok=True)
            with open(os.path.join(ROOT, 'evidence_thorough', pid + '.json'), 'w') as fh:
                json.dump(ev, fh, indent=1, default=str)
    brief = {k: v for k, v in cov.items() if k in SUMMABLE or k in ('shards', 'capped_shards', 'exhaustive')}
    print('%s %s tier=%s seed=%d wall=%.1fs %s' % (pid, 'FAIL' if rc else 'ok', a.tier, seed, time.time() - t0, json.dumps(brief)))
    return rc


if __name__ == '__main__':
    sys.exit(main())
