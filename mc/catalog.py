"""Design catalogue for the Verilog-related checks (C01, C03, C19) and C18.

Sources of configurations: the parameter grids of the C07/C08/C09/C14 checks (every
arithmetic, logic, selection, comparison, storage and fixed-point block over its grid)
plus the 'extra' table in this file (constants, latches, memories with bodies, transpiled
library leaves, twin instances sharing a named module, block-to-block chains).

Placements: 'top' (block directly under HWSystem), 'wrap1'/'wrap2' (block inside one or
two levels of user-defined structural Logic, i.e. per-instance modules).  Placement is
implemented by temporarily substituting py4hw.HWSystem with a proxy so that the builders
of the other checks instantiate their block inside the wrapper.
"""
import itertools
import types

import py4hw
from py4hw.base import Logic
from mc import core


class _ProxySystem(Logic):
    """Innermost structural wrapper that looks like the HWSystem to a builder."""

    def __init__(self, real, depth):
        outer = real
        self.chain = []
        for i in range(depth - 1):
            outer = Logic(outer, 'wrap%d' % (i + 1))
            self.chain.append(outer)
        super().__init__(outer, 'wrap%d' % depth)
        self.chain.append(self)
        self.real = real

    def wire(self, name, width=1):
        return self.real.wire(name, width)

    def bidir_wire(self, name, width=1):
        return self.real.bidir_wire(name, width)

    def getSimulator(self):
        return self.real.getSimulator()


def build_placed(builder, place):
    """builder() -> (hw, ins, outs) | ctx-with-.sys/.free/.outs ; place in {'top','wrap1','wrap2'}.
    Returns namespace(sys, ins, outs)."""
    depth = {'top': 0, 'wrap1': 1, 'wrap2': 2}[place]
    if depth == 0:
        r = builder()
        return _norm(r, None)
    real = py4hw.HWSystem()
    proxy = _ProxySystem(real, depth)
    orig = py4hw.HWSystem
    py4hw.HWSystem = lambda *a, **k: proxy
    try:
        r = builder()
    finally:
        py4hw.HWSystem = orig
    d = _norm(r, real)
    for wrap in proxy.chain:
        for n, w in d.ins:
            wrap.addIn(n, w)
        for n, w in d.outs:
            wrap.addOut(n, w)
    return d


def _norm(r, real):
    d = types.SimpleNamespace()
    if isinstance(r, tuple):
        hw, ins, outs = r
    else:
        hw = r.sys
        ins = list(zip(r.in_names, r.free))
        outs = list(zip(r.out_names, r.outs))
    d.sys = real if real is not None else hw
    d.ins, d.outs = list(ins), list(outs)
    return d


# ------------------------------------------------------------------ extra designs

def _extra_configs(tier):
    T = tier == 'thorough'
    W = (1, 2, 3) if T else (1, 2)
    out = []
    for w in W:
        for v in sorted({-2, -1, 0, 1, (1 << w) - 1, 1 << w, (1 << w) + 1}):
            out.append({'block': 'Constant', 'w': w, 'v': v})
        out.append({'block': 'Latch', 'w': w})
        if w == 1:
            # constants of more than 32 bits, negative ones too
            for ww, vs in ((40, (-(1 << 40), -(1 << 39), (1 << 40) - 16, 1 << 32, -1)), (64, (-(1 << 63), (1 << 64) - 1, 1 << 63, 1 << 31)),
                           (65, (-(1 << 64), (1 << 64) + 1))):
                for v in vs:
                    out.append({'block': 'Constant', 'w': ww, 'v': v})
        for k in ('Add', 'Reg', 'Abs', 'Counter'):
            out.append({'block': 'Twin', 'kind': k, 'w': w})
        out.append({'block': 'TwinDifferentOptions', 'kind': 'Add', 'w': w})
        out.append({'block': 'TwinDifferentOptions', 'kind': 'Reg', 'w': w})
        out.append({'block': 'TwinDifferentOptions', 'kind': 'Abs', 'w': w})
        for k in ('RegDW', 'LatchDW', 'BufEnableRW', 'SignRW'):
            out.append({'block': 'TwinDifferentOptions', 'kind': k, 'w': w})
        out.append({'block': 'Fanout', 'w': w})
        out.append({'block': 'TwinSharedWire', 'kind': 'Add', 'w': w, 'first': 0})
        out.append({'block': 'TwinSharedWire', 'kind': 'Add', 'w': w, 'first': 1})
    for first in (0, 1):
        out.append({'block': 'TwinSharedWire', 'kind': 'Reg', 'w': 1, 'first': first})
    for aw, dw in ([(1, 1), (1, 2), (2, 1), (2, 2)] if T else [(1, 1), (1, 2), (2, 1)]):
        out.append({'block': 'AsynchronousMemory', 'aw': aw, 'dw': dw})
    out.append({'block': 'AsynchronousMemory', 'aw': 1, 'dw': 2, 'rw': 1})     # read port narrower / wider than the cells
    out.append({'block': 'AsynchronousMemory', 'aw': 1, 'dw': 1, 'rw': 2})
    out.append({'block': 'AutoReset'})
    out.append({'block': 'WideFanout', 'n': 20})
    out.append({'block': 'ClockSyncFSM'})
    for msg in ('Hi', 'abc', 'hello', 'sevench', 'Z'):
        out.append({'block': 'MsgSequencer', 'msg': msg})
    for w in W:
        for rv in (0, 1, (1 << w) - 1):
            out.append({'block': 'RegTwoDomains', 'w': w, 'rv': rv})
    # two clock domains ticking on the same edge (base clock and a clock gated from it), registers wired across them in both
    # directions; the gated domain discovered first / second
    for w in W:
        for first in ('base', 'gated'):
            out.append({'block': 'GatedDomains', 'w': w, 'first': first})
    # a user block whose port name looks like a prefixed local wire (w_t / t) or a prefixed instance (i_g / g): refused, or the
    # text behaves like the design
    for kind in ('wire', 'inst'):
        out.append({'block': 'PrefixClash', 'kind': kind})
    # a register whose data input is narrower than its output, with a reset value that needs the full output width
    for dw, w in ((1, 2), (1, 3), (2, 3)):
        out.append({'block': 'RegNarrowD', 'dw': dw, 'w': w, 'rv': (1 << w) - 1})
        out.append({'block': 'RegNarrowD', 'dw': dw, 'w': w, 'rv': 1 << dw})
    # an adder whose carry input is wider than one bit (the whole value is added)
    for cw in (2, 3):
        out.append({'block': 'AddWideCarry', 'w': 2, 'cw': cw})
    # chains: output of one block feeding the next
    firsts = ['Add', 'Sub', 'Mul', 'Not', 'Reg', 'Counter', 'ShiftLeft', 'Mux2', 'Neg', 'SignExtend']
    seconds = ['Add', 'Sub', 'Not', 'Reg', 'Equal', 'Abs', 'ShiftRight', 'Range', 'EqualConstant', 'Comparator']
    for a, b in itertools.product(firsts, seconds):
        out.append({'block': 'Chain', 'first': a, 'second': b, 'w': 2})
    return out


def _inst(kind, parent, name, top, tag, w, ins, outs, opt=0):
    """instantiate a small block of `kind`; creates its wires in `top`; appends to ins/outs"""
    P = py4hw

    def I(n, width=w):
        x = top.wire('%s_%s' % (tag, n), width)
        ins.append((x.name, x))
        return x

    def O(n, width=w):
        x = top.wire('%s_%s' % (tag, n), width)
        outs.append((x.name, x))
        return x
    if kind == 'Add':
        if opt:
            return P.Add(parent, name, I('a'), I('b'), O('r'), ci=I('ci', 1), co=O('co', 1))
        return P.Add(parent, name, I('a'), I('b'), O('r'))
    if kind == 'Reg':
        if opt:
            return P.Reg(parent, name, I('d'), O('q'), enable=I('e', 1), reset=I('rst', 1), reset_value=1)
        return P.Reg(parent, name, I('d'), O('q'))
    if kind == 'Abs':
        if opt:
            return P.Abs(parent, name, I('a'), O('r'), O('inv', 1))
        return P.Abs(parent, name, I('a'), O('r'))
    if kind == 'Counter':
        return P.Counter(parent, name, I('reset', 1), I('inc', 1), O('q'))
    # same module name, different width of a port that is not part of the name
    if kind == 'RegDW':
        return P.Reg(parent, name, I('d', w + opt), O('q'))
    if kind == 'LatchDW':
        return P.Latch(parent, name, I('d', w + opt), O('q'), I('e', 1))
    if kind == 'BufEnableRW':
        return P.BufEnable(parent, name, I('a'), I('en', 1), O('r', w + opt))
    if kind == 'SignRW':
        return P.Sign(parent, name, I('a'), O('r', 1 + opt))
    raise ValueError(kind)


def _build_extra(d):
    P = py4hw
    hw = P.HWSystem()
    ins, outs = [], []
    b = d['block']

    def I(n, w=1):
        x = hw.wire(n, w)
        ins.append((n, x))
        return x

    def O(n, w=1):
        x = hw.wire(n, w)
        outs.append((n, x))
        return x
    if b == 'Constant':
        P.Constant(hw, 'dut', d['v'], O('r', d['w']))
    elif b == 'Latch':
        P.Latch(hw, 'dut', I('d', d['w']), O('q', d['w']), I('e'))
    elif b == 'Twin':
        _inst(d['kind'], hw, 'u0', hw, 'u0', d['w'], ins, outs)
        _inst(d['kind'], hw, 'u1', hw, 'u1', d['w'], ins, outs)
    elif b == 'TwinDifferentOptions':
        _inst(d['kind'], hw, 'u0', hw, 'u0', d['w'], ins, outs, 0)
        _inst(d['kind'], hw, 'u1', hw, 'u1', d['w'], ins, outs, 1)
    elif b == 'TwinSharedWire':
        # one instance ties two of its ports to the same wire, the other instance of the same (named) module does not;
        # both emission orders
        w = d['w']

        def tied(nm):
            if d['kind'] == 'Add':
                a = I(nm + '_a', w)
                P.Add(hw, nm, a, a, O(nm + '_r', w))
            else:
                x = I(nm + '_x')
                P.Reg(hw, nm, x, O(nm + '_q'), enable=x)

        def free(nm):
            if d['kind'] == 'Add':
                P.Add(hw, nm, I(nm + '_a', w), I(nm + '_b', w), O(nm + '_r', w))
            else:
                P.Reg(hw, nm, I(nm + '_d'), O(nm + '_q'), enable=I(nm + '_e'))
        if d['first']:
            tied('u0')
            free('u1')
        else:
            free('u0')
            tied('u1')
    elif b == 'Fanout':
        w = d['w']
        a = I('a', w)
        P.Not(hw, 'n0', a, O('r0', w))
        P.Add(hw, 'a0', a, a, O('r1', w))
        P.Reg(hw, 'g0', a, O('r2', w))
    elif b == 'WideFanout':
        # one wire read by many pins (a shared enable of a register bank, a select bit of a wide multiplexer)
        a, en = I('a', 1), I('en')
        for k in range(d['n']):
            if k % 2:
                P.Reg(hw, 'r%d' % k, a, O('q%d' % k, 1), enable=en)
            else:
                P.And2(hw, 'g%d' % k, a, en, O('q%d' % k, 1))
    elif b == 'AsynchronousMemory':
        aw, dw = d['aw'], d['dw']
        P.AsynchronousMemory(hw, 'dut', I('read_address', aw), I('write_address', aw), I('write'), O('readdata', d.get('rw', dw)), I('writedata', dw))
    elif b == 'AutoReset':
        P.AutoReset(hw, 'dut', O('reset'))
    elif b == 'ClockSyncFSM':
        from py4hw.logic.protocol.uart.clock import ClockSyncFSM
        ClockSyncFSM(hw, 'dut', I('start'), I('stop'), O('sync'), O('active'))
    elif b == 'MsgSequencer':
        from py4hw.logic.protocol.uart.sequencer import MsgSequencer
        MsgSequencer(hw, 'dut', I('ready'), O('valid'), O('v', 8), d.get('msg', 'Hi'))
    elif b == 'RegTwoDomains':
        w = d['w']
        x = I('d', w)
        q0 = O('q0', w)
        P.Reg(hw, 'r0', x, q0, reset_value=d['rv'])
        P.Reg(hw, 'r1', q0, O('q1', w), enable=I('e'), reset=I('rst'), reset_value=d['rv'])
    elif b == 'GatedDomains':
        w = d['w']
        a, en = I('a', w), I('en')
        m, o, back = hw.wire('m', w), O('o', w), O('back', w)
        en_out = hw.wire('en_out')
        gdrv = P.ClockDriver('gclk', base=hw.clockDriver, enable=en_out, wire=hw.clockDriver.wire)

        def base_part():
            P.Reg(hw, 'r1', a, m)
            P.Reg(hw, 'r3', o, back)            # base domain register fed by the gated one

        def gated_part():
            P.GatedClock(hw, 'gate', en, en_out, gdrv)
            r2 = P.Reg(hw, 'r2', m, o)
            r2.clockDriver = gdrv
        for part in ((base_part, gated_part) if d['first'] == 'base' else (gated_part, base_part)):
            part()
        outs.append(('m', m))
    elif b == 'RegNarrowD':
        P.Reg(hw, 'dut', I('d', d['dw']), O('q', d['w']), enable=I('e'), reset=I('rst'), reset_value=d['rv'])
    elif b == 'AddWideCarry':
        P.Add(hw, 'dut', I('a', d['w']), I('b', d['w']), O('r', d['w'] + 2), ci=I('ci', d['cw']))
    elif b == 'PrefixClash':
        a, x, r = I('a'), I('x'), O('r')
        blk = Logic(hw, 'blk')
        blk.addIn('a', a)
        blk.addIn('w_t' if d['kind'] == 'wire' else 'i_g', x)
        blk.addOut('r', r)
        t = blk.wire('t')
        P.Not(blk, 'inv', a, t)
        if d['kind'] == 'wire':
            P.And2(blk, 'g', t, x, r)
        else:
            P.Reg(blk, 'g', t, r, enable=x)
    elif b == 'Chain':
        w = d['w']
        mid = _chain_first(d['first'], hw, I, w)
        _chain_second(d['second'], hw, I, O, mid, w)
    else:
        raise ValueError(b)
    return hw, ins, outs


def _chain_first(kind, hw, I, w):
    P = py4hw
    m = hw.wire('mid', w)
    if kind in ('Add', 'Sub', 'Mul', 'ShiftLeft'):
        getattr(P, kind)(hw, 'first', I('a', w), I('b', w), m)
    elif kind in ('Not', 'Neg'):
        getattr(P, kind)(hw, 'first', I('a', w), m)
    elif kind == 'SignExtend':
        P.SignExtend(hw, 'first', I('a', 1), m)
    elif kind == 'Reg':
        P.Reg(hw, 'first', I('a', w), m)
    elif kind == 'Counter':
        P.Counter(hw, 'first', I('reset'), I('inc'), m)
    elif kind == 'Mux2':
        P.Mux2(hw, 'first', I('sel'), I('a', w), I('b', w), m)
    else:
        raise ValueError(kind)
    return m


def _chain_second(kind, hw, I, O, m, w):
    P = py4hw
    if kind in ('Add', 'Sub'):
        getattr(P, kind)(hw, 'second', m, I('c', w), O('r', w + 1))
    elif kind == 'ShiftRight':
        P.ShiftRight(hw, 'second', m, I('c', 1), O('r', w), arithmetic=True)
    elif kind in ('Not', 'Abs'):
        getattr(P, kind)(hw, 'second', m, O('r', w))
    elif kind == 'Reg':
        P.Reg(hw, 'second', m, O('r', w), enable=I('e'))
    elif kind == 'Equal':
        P.Equal(hw, 'second', m, I('c', w), O('r'))
    elif kind == 'Range':
        P.Range(hw, 'second', m, w - 1, 1, O('r', w - 1))
    elif kind == 'EqualConstant':
        P.EqualConstant(hw, 'second', m, 2, O('r'))
    elif kind == 'Comparator':
        P.Comparator(hw, 'second', m, I('c', w), O('gt'), O('eq'), O('lt'))
    else:
        raise ValueError(kind)


# ------------------------------------------------------------------ twins by module name

_TW = {}


def twin_pairs(tier):
    """pairs of catalogue configs whose DUT is emitted under the same (shared) module name"""
    if tier in _TW:
        return _TW[tier]
    groups = {}
    for s, c in configs('quick'):
        try:
            with core.quiet():
                d = build(s, c, 'top')
            dut = d.sys.children.get('dut')
            if dut is None or not hasattr(dut, 'structureName'):
                continue
            nm = dut.structureName()
        except Exception:
            core.reset_prepared()
            continue
        groups.setdefault(nm, []).append((s, c))
    pairs = []
    for nm, lst in sorted(groups.items()):
        first = lst[0]
        for other in lst[1:4]:
            pairs.append((nm, first, other))
    _TW[tier] = pairs
    return pairs


_CP = {}


def class_pairs(tier):
    """pairs of DIFFERENT configurations of the same library class, side by side in one design, in both orders
    (what is decided for one instance of a class must not leak into another)"""
    if tier in _CP:
        return _CP[tier]
    groups = {}
    for s, c in configs('quick'):
        if c.get('corner'):
            continue
        groups.setdefault((s, c.get('block')), []).append((s, c))
    pairs = []
    for key, lst in sorted(groups.items(), key=lambda kv: repr(kv[0])):
        if len(lst) < 2:
            continue
        others = [lst[-1]] if len(lst) == 2 or tier == 'quick' else [lst[1], lst[-1]]
        for o in others:
            pairs.append(('%s/%s' % key, lst[0], o))
            pairs.append(('%s/%s' % key, o, lst[0]))
    _CP[tier] = pairs
    return pairs


class _Prefixed(Logic):
    def __init__(self, real, name):
        super().__init__(real, name)
        self.real = real
        self.pfx = name + '_'

    def wire(self, name, width=1):
        return self.real.wire(self.pfx + name, width)

    def getSimulator(self):
        # the sequential builders ask for a simulator; creating it on the half-built twin would leave the wires of the
        # second half at their reset values until the first clk() (getSimulator() on an existing simulator only re-sorts)
        return None


def build_twin(a, b):
    real = py4hw.HWSystem()
    ins, outs = [], []
    orig = py4hw.HWSystem
    for tag, (s, c) in (('u0', a), ('u1', b)):
        proxy = _Prefixed(real, tag)
        py4hw.HWSystem = lambda *aa, **kk: proxy
        try:
            r = builder(s, c)()
        finally:
            py4hw.HWSystem = orig
        d = _norm(r, real)
        for n, w in d.ins:
            proxy.addIn(n, w)
        for n, w in d.outs:
            proxy.addOut(n, w)
        ins += d.ins
        outs += d.outs
    return real, ins, outs



# ------------------------------------------------------------------ public API

def configs(tier, small=False):
    """-> list of (source, cfg).  `small`: one representative per (block, options) at the smallest widths
    (used for the wrapped placements in the quick tier)."""
    from mc.props import c07, c08, c09, c14
    out = []
    for sh in c07.shards(tier):
        if sh.get('early') or sh.get('directsim'):
            continue            # simulator life-cycle variants: C07 only
        for c in c07.expand(sh):
            out.append(('c07', c))
    for c in c08._configs(tier):
        out.append(('c08', c))
    for c in c09._configs(tier):
        if not c.get('maxdepth'):        # depth-bounded (non-closing) counter configurations are for C09 only
            out.append(('c09', c))
    seen = set()
    for sh in c14.shards(tier):
        if sh.get('rf') == 'all':
            continue            # expanded FixedPointMult triples: covered by the same-format entries below
        w = sum(sh['af']) + sum(sh.get('bf', []))
        if w > (8 if tier == 'thorough' else 6):
            continue
        key = repr(sorted(sh.items()))
        if key not in seen:
            seen.add(key)
            out.append(('c14', sh))
    # FixedPointMult: same-format and a few mixed formats
    for f in ([1, 1, 1], [1, 0, 1], [1, 1, 0], [1, 2, 1]):
        for rf in ([1, 1, 1], [1, 2, 2], [1, 0, 3], f):
            c = {'block': 'FixedPointMult', 'af': f, 'bf': f, 'rf': rf}
            if repr(c) not in seen:
                seen.add(repr(c))
                out.append(('c14', c))
    for c in _extra_configs(tier):
        out.append(('extra', c))
    if small:
        best = {}
        for src, c in out:
            k = (src, c.get('block'), tuple(sorted((kk, repr(v)) for kk, v in c.items()
                                                  if kk in ('ci', 'co', 'arith', 'inverted', 'e', 'r', 'reset', 'inc', 'en', 'kind',
                                                            'direction', 'inc_priority', 'first', 'second'))))
            size = sum(v for v in c.values() if isinstance(v, int) and not isinstance(v, bool))
            if k not in best or size < best[k][0]:
                best[k] = (size, (src, c))
        out = [v[1] for v in best.values()]
    return out


def builder(source, cfg):
    from mc.props import c07, c08, c09, c14
    if source == 'c07':
        return lambda: c07.build(cfg)
    if source == 'c08':
        return lambda: c08.build(cfg)
    if source == 'c09':
        return lambda: c09.build(cfg)
    if source == 'c14':
        return lambda: c14.build(cfg)
    if source == 'extra':
        return lambda: _build_extra(cfg)
    if source == 'twin':
        return lambda: build_twin((cfg['a'][0], cfg['a'][1]), (cfg['b'][0], cfg['b'][1]))
    raise ValueError(source)


def build(source, cfg, place='top'):
    return build_placed(builder(source, cfg), place)


def name(source, cfg, place='top'):
    return '%s:%s(%s)@%s' % (source, cfg.get('block', '?'),
                            ','.join('%s=%s' % (k, v) for k, v in sorted(cfg.items()) if k != 'block'), place)
