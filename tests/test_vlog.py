"""Self-tests of the Verilog-subset engine (trusted base of C01/C02/C03/C19).
Expected values come from IEEE 1364-2005 (5.4 expression bit lengths, 5.5 signed
expressions, 9.2 blocking/non-blocking) worked out by hand."""
import os
import sys
sys.path.insert(0, os.path.dirname(os.path.dirname(os.path.abspath(__file__))))
from mc.vlog import sim as V
from mc.vlog.lexer import ParseError, VlogError

FAILS = []


def check(name, got, exp):
    if got != exp:
        FAILS.append('%s: got %r expected %r' % (name, got, exp))


def comb(text, pokes, outs, top=None):
    d = V.elaborate(text, top=top)
    s = V.Sim(d)
    for k, v in pokes.items():
        s.poke(k, v)
    s.settle()
    return [s.peek(o) for o in outs], d


# 1. carry kept when the target is wider (context width = lhs width)
t = '''module m(input [3:0] a, input [3:0] b, output [7:0] r, output [3:0] r4, output [4:0] nr, output [3:0] avg);
assign r = a + b;
assign r4 = a + b;
assign nr = ~a;
assign avg = (a + b) >> 1;
endmodule'''
(r, r4, nr, avg), _ = comb(t, {'a': 15, 'b': 1}, ['r', 'r4', 'nr', 'avg'])
check('carry kept', r, 16)
check('carry dropped', r4, 0)
check('~ extends first', nr, 0x10)          # ~(0_1111) at 5 bits
check('(a+b)>>1 in 4-bit context loses the carry', avg, 0)

# 2. signed multiplication, mixed signedness
t = '''module m(input [3:0] a, input [3:0] b, output [7:0] s, output [7:0] u, output [7:0] mix);
assign s = $signed(a) * $signed(b);
assign u = a * b;
assign mix = $signed(a) * b;
endmodule'''
(s_, u, mix), _ = comb(t, {'a': 0xF, 'b': 2}, ['s', 'u', 'mix'])
check('signed mul', s_, 0xFE)               # -1 * 2 = -2
check('unsigned mul', u, 30)
check('mixed -> unsigned, zero extended', mix, 30)

# 3. comparison with decimal literal / negative literal
t = '''module m(input [2:0] q, output e4, output em1, output [3:0] t, output lt);
assign e4 = (q == 4)? 1 : 0;
assign em1 = (q == -1)? 1 : 0;
assign t = (q == 7)? 4'd9 : 0;
assign lt = $signed(q) < 0;
endmodule'''
(e4, em1, tt, lt), _ = comb(t, {'q': 7}, ['e4', 'em1', 't', 'lt'])
check('q==4', e4, 0)
check('q==-1 compares at 32 bits unsigned: 7 != 0xFFFFFFFF', em1, 0)
check('ternary', tt, 9)
check('signed compare', lt, 1)

# 3b. unsized decimal literal wider than 32 bits keeps its value
t = '''module m(input [32:0] a, output e, output [39:0] k);
assign e = (a == 4294967296)? 1 : 0;
assign k = 4294967296 + 1;
endmodule'''
(e33, k40), _ = comb(t, {'a': 1 << 32}, ['e', 'k'])
check('33-bit decimal literal', [e33, k40], [1, (1 << 32) + 1])

# 4. concatenation, replication, part select, bit select lvalue
t = '''module m(input [1:0] a, input [2:0] b, output [4:0] c, output [5:0] rep, output [1:0] ps, output [3:0] k);
assign c = {a, b};
assign rep = { {4{a[1]}}, a };
assign ps = b[2:1];
assign k[3:0] = -2;
endmodule'''
(c, rep, ps, k), _ = comb(t, {'a': 2, 'b': 5}, ['c', 'rep', 'ps', 'k'])
check('concat', c, 0b10101)
check('sign-extend idiom', rep, 0b111110)
check('part select', ps, 2)
check('negative constant truncated', k, 14)

# 5. shifts: amount self-determined, result in context width
t = '''module m(input [3:0] a, output [7:0] l, output [3:0] r, output [7:0] sr);
assign l = a << 2;
assign r = a >> 1;
assign sr = $signed(a) >>> 1;
endmodule'''
(l, r, sr), _ = comb(t, {'a': 0xC}, ['l', 'r', 'sr'])
check('<< in 8-bit context', l, 0x30)
check('>>', r, 6)
check('>>> signed in 8-bit context', sr, 0xFE)

# 6. division / modulo, unsigned and signed (truncation toward zero)
t = '''module m(input [3:0] a, input [3:0] b, output [3:0] q, output [3:0] m, output [3:0] sq, output [3:0] sm);
assign q = a / b;
assign m = a % b;
assign sq = $signed(a) / $signed(b);
assign sm = $signed(a) % $signed(b);
endmodule'''
(q, m, sq, sm), _ = comb(t, {'a': 0x9, 'b': 2}, ['q', 'm', 'sq', 'sm'])   # a = -7 signed
check('div', q, 4)
check('mod', m, 1)
check('signed div', sq, 0xD)                # -7/2 = -3
check('signed mod', sm, 0xF)                # -7 % 2 = -1

# 7. non-blocking swap, blocking order, reset priority, power-up initialiser
t = '''module m(input clk, input ld, input [1:0] x, output [1:0] pa, output [1:0] pb, output [1:0] pc);
reg [1:0] a = 1;
reg [1:0] b = 2;
integer c;
initial begin c = 3; end
always @(posedge clk)
begin
  if (ld) begin a <= x; end
  else begin
    a <= b;
    b <= a;
  end
  c = c + 1;
  c = c + c;
end
assign pa = a; assign pb = b; assign pc = c;
endmodule'''
d = V.elaborate(t)
s = V.Sim(d)
check('power-up', [s.peek('pa'), s.peek('pb'), s.peek('pc')], [1, 2, 3])
s.poke('ld', 0)
s.cycle()
check('nba swap + blocking chain', [s.peek('pa'), s.peek('pb'), s.peek('pc')], [2, 1, 0])   # c=(3+1)*2=8 -> 2 bits = 0
s.poke('ld', 1); s.poke('x', 3)
s.cycle()
check('load', [s.peek('pa'), s.peek('pb')], [3, 1])

# 8. hierarchy, parameters, port width conversion, memory, negedge
t = '''module top(input clk, input [1:0] ra, input [1:0] wa, input we, input [3:0] wd, output [3:0] rd, output [3:0] inc);
wire [3:0] w_rd;
mem4 i_mem(.clk(clk), .ra(ra), .wa(wa), .we(we), .wd(wd), .rd(w_rd));
addk #(.k(3)) i_add(.a(w_rd), .r(inc));
assign rd = w_rd;
endmodule
module mem4(input clk, input [1:0] ra, input [1:0] wa, input we, input [3:0] wd, output [3:0] rd);
reg [3:0] mem [0:3];
reg [3:0] rrd;
always @(posedge clk) begin
 if (we)
  mem[wa] <= wd;
 rrd <= mem[ra];
end
assign rd = rrd;
endmodule
module addk #(parameter k = 1) (input [3:0] a, output [3:0] r);
assign r = a + k;
endmodule'''
d = V.elaborate(t)
check('no lint issues', d.issues, [])
s = V.Sim(d)
s.poke('we', 1); s.poke('wa', 2); s.poke('wd', 9); s.poke('ra', 2)
s.cycle()
check('read before write', s.peek('rd'), 0)
s.poke('we', 0)
s.cycle()
check('read after write', [s.peek('rd'), s.peek('inc')], [9, 12])

# 9. case statement with default, always @(*)
t = '''module m(input [1:0] s, output reg [3:0] y);
always @(*)
begin
 case (s)
  0: y = 1;
  1, 2: begin y = 2; end
  default: y = 15;
 endcase
end
endmodule'''
d = V.elaborate(t)
s = V.Sim(d)
got = []
for v in range(4):
    s.poke('s', v); s.settle(); got.append(s.peek('y'))
check('case', got, [1, 2, 2, 15])

# 10. gated clock: enable latched on the falling edge
t = '''module m(input clk, input en, input d, output q);
reg eq = 0;
always @(negedge clk) begin eq <= en; end
wire gclk;
assign gclk = eq & clk;
reg rq = 0;
always @(posedge gclk) rq <= d;
assign q = rq;
endmodule'''
d = V.elaborate(t)
s = V.Sim(d)
s.poke('en', 0); s.poke('d', 1); s.cycle()
check('gated off', s.peek('q'), 0)
s.poke('en', 1); s.cycle()
check('gated on', s.peek('q'), 1)

# 11. syntax errors that py4hw's transpiler is suspected of producing
for name, bad in [('if as expression', 'module m(input b, output reg s); always @(*) begin s=if (b) begin 1 end else begin 0 end ; end endmodule'),
                  ('empty default', 'module m(input [1:0] b, output reg s); always @(*) begin case (b) 0: s=1; default:endcase end endmodule'),
                  ('missing semicolon', 'module m(input b, output s); assign s = b endmodule')]:
    try:
        V.elaborate(bad)
        FAILS.append('%s: accepted' % name)
    except ParseError:
        pass

# 12. lint rules
def rules(text, **kw):
    try:
        return sorted({r for r, _, _ in V.elaborate(text, **kw).issues})
    except VlogError as e:
        return ['ERR:' + type(e).__name__]
check('undeclared', rules('module m(input a, output r); assign r = a & zz; endmodule'), ['R2'])
check('duplicate decl', rules('module m(input a, output r); wire a; assign r = a; endmodule'), ['R2'])
check('reserved word', rules('module m(input a, output reg); assign reg = a; endmodule')[:1], ['ERR:ParseError'])
check('reserved id', rules('module m(input a, output r); wire signed; endmodule')[:1], ['ERR:ParseError'])
check('reserved id 2', rules('module m(input a, output r); wire table; assign table = a; assign r = table; endmodule'), ['R3'])
check('two drivers', rules('module m(input a, output r); assign r = a; assign r = ~a; endmodule'), ['R6'])
check('procedural to wire', rules('module m(input a, output r); always @(*) r = a; endmodule'), ['R6'])
check('assign to reg', rules('module m(input a, output reg r); assign r = a; endmodule'), ['R6'])
check('undefined module', rules('module m(input a, output r); foo i_f(.a(a), .r(r)); endmodule'), ['ERR:ElabError'])
check('blackbox ok', rules('module m(input a, output r); foo i_f(.a(a), .r(r)); assign r = a; endmodule', blackboxes=['foo']), [])
check('unknown port', rules('module m(input a, output r); s i_s(.a(a), .zz(r)); endmodule module s(input a, output r); assign r = a; endmodule'), ['R5', 'R6'])
check('port width', rules('module m(input [1:0] a, output r); s i_s(.a(a), .r(r)); endmodule module s(input a, output r); assign r = a; endmodule'), ['R5'])
check('param default names itself', rules('module m(input a, output r); s #(.n(1)) i_s(.a(a), .r(r)); endmodule module s #(parameter n = n) (input a, output r); assign r = a; endmodule'), ['R7'])
check('param no default', rules('module m #(parameter n) (input a, output r); assign r = a; endmodule'), ['R7'])
check('zero replication inside a sized concat is legal (2005)', rules('module m(input a, output [1:0] r); assign r = { {0{a}}, a }; endmodule'), [])
check('zero replication alone', rules('module m(input a, output [1:0] r); assign r = {0{a}}; endmodule'), ['R7'])
check('negative replication', rules('module m(input a, output [1:0] r); assign r = { {-1{a}}, a }; endmodule'), ['R7'])
check('module twice', rules('module m(input a, output r); assign r = a; endmodule module m(input a, output r); assign r = a; endmodule'), ['R4'])
check('clean', rules('module m(input clk, input a, output r); reg x = 0; always @(posedge clk) x <= a; assign r = x; endmodule'), [])

# an undeclared identifier in a port connection is an implicit net: reported (R2, R6) and simulated as an undriven net
_t = ('module m(input clk, input a, output r); s i_s(.ck(clkk), .a(a), .r(r)); endmodule '
      'module s(input ck, input a, output r); reg x = 0; always @(posedge ck) x <= a; assign r = x; endmodule')
check('implicit net reported', 'R2' in rules(_t), True)
_d = V.elaborate(_t, external=['a'])
_s = V.Sim(_d)
_s.poke('a', 1)
_s.cycle()
check('register on an implicit (never toggling) clock keeps its value', _s.peek('r'), 0)

# non-blocking assignments in a combinational block: they take effect after the activation, the last one wins, no oscillation
_t = 'module m(input a, input [1:0] b, output reg [1:0] q); always @(*) begin q <= 0; if (a) q <= b; end endmodule'
_s = V.Sim(V.elaborate(_t, external=['a', 'b']))
_s.poke('a', 1)
_s.poke('b', 3)
_s.settle()
check('comb nba last wins', _s.peek('q'), 3)
_s.poke('a', 0)
_s.settle()
check('comb nba default', _s.peek('q'), 0)

# inout ports: refused for simulation, accepted for linting (port names / widths checked, the net counts as driven)
_pad = "module pad(input o, input oe, output i, inout p); assign i = p; assign p = (oe) ? o : 1'bZ; endmodule"
_t = 'module m(input a, output r); wire oe; wire w; assign oe = 1; pad i_p(.o(a), .oe(oe), .i(r), .p(w)); endmodule ' + _pad
check('inout refused for simulation', rules(_t), ['ERR:Unsupported'])
check('inout accepted for lint', rules(_t, lint_only=True), [])
check('inout unknown port', rules(_t.replace('.p(w)', '.q(w)'), lint_only=True), ['R5', 'R6'])
check('inout width', rules(_t.replace('wire w;', 'wire [1:0] w;'), lint_only=True), ['R5'])


if FAILS:
    print('vlog self-test FAILED:')
    for f in FAILS:
        print('  ', f)
    sys.exit(1)
print('vlog self-test ok')
