#!/bin/bash
# usage: tools/mutcheck.sh <worktree> <Cnn> [tier]   — runs a check against a scratch worktree of /repo (mutant testing)
wt="$1"; pid="$2"; tier="${3:-quick}"
cd /verif
PYTHONPATH="/verif:$wt" PYTHONHASHSEED=0 PYTHONDONTWRITEBYTECODE=1 MPLBACKEND=Agg /venv/bin/python -c "
import py4hw,sys
assert py4hw.__file__.startswith('$wt'), py4hw.__file__
from mc import runner
sys.exit(runner.main(['$pid','--tier','$tier','--no-evidence']))
"
