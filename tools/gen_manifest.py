#!/usr/bin/env python3
"""Regenerates /verif/MANIFEST.json from the table below (kept in one place so it is always valid)."""
import json, os
ROOT = os.path.dirname(os.path.dirname(os.path.abspath(__file__)))

CHECKS = {}
NOT_YET = {}

def chk(pid, category, text, note, technique, design_ref):
    CHECKS[pid] = dict(category=category, text=text, note=note, technique=technique, design_ref=design_ref)

exec(open(os.path.join(ROOT, 'tools', 'manifest_table.py')).read())

props = [json.loads(l)['id'] for l in open(os.path.join(ROOT, 'properties.jsonl'))]
m = {
 'version': 1,
 'setup_cmd': 'cd /verif && ./tools/setup.sh',
 'hooks': {
  'guard': 'PY4HW_VERIF',
  'enable': 'no hooks are needed: the checks import py4hw from /repo\'s working tree and observe public attributes only; the guard name is reserved and unused',
  'baseline_off_cmd': 'cd /repo && /venv/bin/python -m pytest -ra -q -p no:cacheprovider --timeout=900 --continue-on-collection-errors',
  'source_commits': [],
  'add_only': True,
 },
 'engines': [
  {'name': 'mc', 'path': '/verif/mc', 'serves_properties': sorted(CHECKS),
   'kind_free_text': 'hand-written explicit-state / bounded-exhaustive explorer over the live py4hw objects (BFS with snapshot/restore and replay validation on fresh objects), reference models in Python, and a Verilog-subset interpreter for the generated RTL'},
 ],
 'checks': [],
 'not_applicable': [],
 'notes': 'See DESIGN.md. Genuine defects found are listed in known_findings.json (fixed entries suppress nothing).',
}
for pid in props:
    if pid in CHECKS:
        c = CHECKS[pid]
        m['checks'].append({
         'property_id': pid,
         'quick_cmd': './check %s --tier quick' % pid,
         'thorough_cmd': './check %s --tier thorough' % pid,
         'evidence_file': '/verif/evidence/%s.json' % pid,
         'replay_cmd_template': './check %s --replay {path}' % pid,
         'engine': 'mc',
         'level_claimed': {'category': c['category'], 'text': c['text'], 'design_ref': c['design_ref']},
         'level_note': c['note'],
         'technique': c['technique'],
        })
    else:
        m['not_applicable'].append({'property_id': pid, 'reason': NOT_YET.get(pid, 'check not built yet (work in progress; planned in DESIGN.md section 4)')})
json.dump(m, open(os.path.join(ROOT, 'MANIFEST.json'), 'w'), indent=1)
print('checks:', len(m['checks']), 'not_applicable:', len(m['not_applicable']))
