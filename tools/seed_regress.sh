#!/bin/bash
# usage: tools/seed_regress.sh <worktree> <id-k> ...   re-runs the quick check of each kept seeded change against the
# current checks (patch applied to a scratch worktree of /repo at HEAD, undone afterwards); prints one line per change.
wt="$1"; shift
[ -d "$wt" ] || git -C /repo worktree add --detach "$wt" HEAD >/dev/null 2>&1
head=$(git -C /repo rev-parse HEAD)
( cd "$wt" && git checkout -q -- . && git clean -fdq && git checkout -q --detach $head )
for s in "$@"; do
  d=/verif/seeded/$s
  p=${s%%-*}
  caught=$(python3 -c "import json;print(','.join(json.load(open('$d/meta.json'))['evaluation']['detected_by']))")
  props=$(echo "$caught" | tr ',' '\n' | sed 's#/.*##' | sort -u | tr '\n' ' ')
  [ -z "$props" ] && props="$p"
  if ! ( cd "$wt" && git apply "$d/patch.diff" 2>/dev/null ); then echo "$s PATCH-DOES-NOT-APPLY"; continue; fi
  res=""
  for q in $props; do
    out=$(/verif/tools/mutcheck.sh "$wt" $q 2>&1 | grep "^C[0-9][0-9] " | awk '{print $1"="$2}')
    res="$res $out"
  done
  ( cd "$wt" && git checkout -q -- . && git clean -fdq )
  echo "$s expected=[$caught] now:$res"
done
