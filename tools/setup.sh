#!/bin/bash
# Offline setup: nothing to build (pure Python); run the framework self-tests.
set -e
cd "$(dirname "$0")/.."
export PYTHONPATH="$PWD:/repo" PYTHONHASHSEED=0 PYTHONDONTWRITEBYTECODE=1 MPLBACKEND=Agg
/venv/bin/python -m compileall -q mc >/dev/null 2>&1 || true
if [ -d tests ] && ls tests/test_*.py >/dev/null 2>&1; then
  for t in tests/test_*.py; do /venv/bin/python "$t"; done
fi
echo setup ok
