#!/usr/bin/env python3
"""Prints the markdown table of seeded changes (from seeded/*/meta.json) for DESIGN.md."""
import glob, json, os
ROOT = os.path.dirname(os.path.dirname(os.path.abspath(__file__)))
rows = []
for f in sorted(glob.glob(os.path.join(ROOT, 'seeded', '*', 'meta.json'))):
    m = json.load(open(f))
    sid = os.path.basename(os.path.dirname(f))
    ev = m.get('evaluation', {})
    det = ', '.join(ev.get('detected_by', [])) or 'not detected'
    title = (m.get('title') or m.get('description', ''))[:110].replace('|', '/').replace('\n', ' ')
    need = (m.get('needs_to_manifest') or '')[:130].replace('|', '/').replace('\n', ' ')
    note = (ev.get('note') or '')[:160].replace('|', '/').replace('\n', ' ')
    rows.append('| %s | %s | %s | %s | %s |' % (sid, title, need, det, note))
print('| id | change | needs | caught by | note |')
print('|---|---|---|---|---|')
print('\n'.join(rows))
