#!/bin/bash
# usage: tools/seed_eval_all.sh <Cnn> [extra args for seed_eval]  -> results in /tmp/seed/<Cnn>/eval_k.json
p="$1"; shift
for k in 1 2 3; do
  d=/tmp/seed/$p/mutant_$k
  [ -f $d/patch.diff ] || continue
  python3 /verif/tools/seed_eval.py $d $p --wt /tmp/mine/evalwt_$p "$@" > /tmp/seed/$p/eval_$k.json 2>&1
done
git -C /repo worktree remove --force /tmp/mine/evalwt_$p 2>/dev/null
/venv/bin/python - "$p" <<'PY'
import sys,json,glob
p=sys.argv[1]
for f in sorted(glob.glob('/tmp/seed/%s/eval_*.json'%p)):
    try: d=json.load(open(f))
    except Exception as e: print(f,'unparsable',open(f).read()[-300:]); continue
    print(f.split('/')[-1], 'demo(wo,w)=',d.get('demo_without_patch_rc'),d.get('demo_with_patch_rc'),'suite',d.get('suite_rc'),d.get('suite_failed'),'DETECTED' if d.get('detected') else 'MISSED', {k:(v['rc'],v['sigs'][:2],v['wall_s']) for k,v in d.get('detection',{}).items()})
PY
