#!/usr/bin/env python3
"""Keep an evaluated seeded change under /verif/seeded/<Cnn>-<k>/.

usage: tools/seed_keep.py <Cnn> <k> <eval.json> [--note "text"] [--caught-by "C09 quick"]
Copies patch.diff, demo.py (and patch_at_seeding_commit.diff if the patch had to be ported) from
/tmp/seed/<Cnn>/mutant_<k>/ and writes meta.json = the seeding agent's meta + what was run here."""
import argparse
import json
import os
import shutil

ROOT = os.path.dirname(os.path.dirname(os.path.abspath(__file__)))
ap = argparse.ArgumentParser()
ap.add_argument('pid')
ap.add_argument('k')
ap.add_argument('evals', nargs='+')
ap.add_argument('--note', default='')
ap.add_argument('--as', dest='as_k', default=None, help='number under which it is kept (default: k)')
a = ap.parse_args()
src = '/tmp/seed/%s/mutant_%s' % (a.pid, a.k)
dst = os.path.join(ROOT, 'seeded', '%s-%s' % (a.pid, a.as_k or a.k))
os.makedirs(dst, exist_ok=True)
for f in ('patch.diff', 'demo.py', 'patch_at_seeding_commit.diff'):
    if os.path.exists(os.path.join(src, f)):
        shutil.copy(os.path.join(src, f), os.path.join(dst, f))
meta = json.load(open(os.path.join(src, 'meta.json')))
runs = []
detected_by = []
conf = {}
for e in a.evals:
    d = json.load(open(e))
    for k in ('repo_head', 'demo_without_patch_rc', 'demo_with_patch_rc', 'suite_rc', 'suite_failed'):
        if k in d and d[k] is not None:
            conf.setdefault(k, d[k])
    for name, v in d.get('detection', {}).items():
        runs.append({'check': name, 'exit': v['rc'], 'violations': v['violations'], 'signatures': v['sigs'][:4], 'wall_s': v['wall_s']})
        if v['rc'] == 1:
            detected_by.append(name)
meta['evaluation'] = {
    'confirmed_here': {
        'repo_head_when_evaluated': conf.get('repo_head'),
        'demo_exit_without_patch': conf.get('demo_without_patch_rc'),
        'demo_exit_with_patch': conf.get('demo_with_patch_rc'),
        'repo_test_suite_exit_with_patch': conf.get('suite_rc'),
        'repo_tests_failed_with_patch': conf.get('suite_failed'),
    },
    'how': 'tools/seed_eval.py: scratch worktree of /repo at HEAD, git apply patch.diff, demo.py, full pytest suite, '
           'then ./check <id> (quick, then thorough) with PYTHONPATH pointing at the patched worktree; worktree reset afterwards',
    'check_runs': runs,
    'detected_by': sorted(set(detected_by)),
    'note': a.note,
}
json.dump(meta, open(os.path.join(dst, 'meta.json'), 'w'), indent=1)
print(dst, 'detected_by', sorted(set(detected_by)))
