#!/usr/bin/env python3
"""Evaluate one seeded property-breaking change.

usage: tools/seed_eval.py <mutant dir with patch.diff, demo.py, meta.json> <Cnn> [--wt DIR] [--skip-suite] [--tiers quick,thorough]

Steps (all in a scratch worktree of /repo at HEAD, never in /repo itself):
 1 demo passes without the patch   2 patch applies   3 demo fails with the patch
 4 the repository test-suite still passes with the patch
 5 ./check <Cnn> (quick, then thorough if quick is silent) against the patched worktree
Prints a JSON summary and leaves the worktree clean."""
import argparse
import json
import os
import re
import subprocess
import sys
import time

ROOT = os.path.dirname(os.path.dirname(os.path.abspath(__file__)))


def sh(cmd, cwd=None, env=None, timeout=3600):
    p = subprocess.run(cmd, shell=True, cwd=cwd, env=env, stdout=subprocess.PIPE, stderr=subprocess.STDOUT, timeout=timeout)
    return p.returncode, p.stdout.decode(errors='replace')


def main():
    ap = argparse.ArgumentParser()
    ap.add_argument('mdir')
    ap.add_argument('pid')
    ap.add_argument('--wt', default='/tmp/mine/evalwt')
    ap.add_argument('--skip-suite', action='store_true')
    ap.add_argument('--tiers', default='quick,thorough')
    ap.add_argument('--also', default='', help='comma list of other checks to run as well')
    a = ap.parse_args()
    wt = a.wt
    if not os.path.isdir(wt):
        rc, out = sh('git -C /repo worktree add --detach %s HEAD' % wt)
        assert rc == 0, out
    head = sh('git -C /repo rev-parse HEAD')[1].strip()
    sh('git checkout -q -- . && git clean -fdq && git checkout -q --detach %s' % head, cwd=wt)
    env = dict(os.environ, PYTHONPATH=wt, PYTHONHASHSEED='0', MPLBACKEND='Agg', PYTHONDONTWRITEBYTECODE='1')
    res = {'mutant': a.mdir, 'property': a.pid, 'repo_head': head[:7]}
    demo = os.path.join(a.mdir, 'demo.py')
    rc, out = sh('/venv/bin/python %s' % demo, cwd=wt, env=env, timeout=900)
    res['demo_without_patch_rc'] = rc
    rc, out = sh('git apply %s' % os.path.join(os.path.abspath(a.mdir), 'patch.diff'), cwd=wt)
    res['patch_applies'] = rc == 0
    if rc != 0:
        res['apply_error'] = out[-400:]
        print(json.dumps(res, indent=1))
        return 1
    try:
        rc, out = sh('/venv/bin/python %s' % demo, cwd=wt, env=env, timeout=900)
        res['demo_with_patch_rc'] = rc
        res['demo_with_patch_tail'] = out[-300:]
        if not a.skip_suite:
            t0 = time.time()
            rc, out = sh('/venv/bin/python -m pytest -q -p no:cacheprovider --timeout=900 -q', cwd=wt, env=env, timeout=3600)
            tail = out.strip().split('\n')[-3:]
            failed = re.findall(r'FAILED (\S+)', out)
            if failed and all('test_random' in f for f in failed):
                rc2, out2 = sh('/venv/bin/python -m pytest -q -p no:cacheprovider --timeout=900 -q', cwd=wt, env=env, timeout=3600)
                failed = re.findall(r'FAILED (\S+)', out2)
                rc = rc2
            res['suite_rc'] = rc
            res['suite_failed'] = failed
            res['suite_s'] = round(time.time() - t0)
        det = {}
        for pid in [a.pid] + [x for x in a.also.split(',') if x]:
            for tier in a.tiers.split(','):
                env2 = dict(env, PYTHONPATH='%s:%s' % (ROOT, wt))
                code = ("import py4hw,sys; assert py4hw.__file__.startswith(%r), py4hw.__file__; from mc import runner; "
                        "sys.exit(runner.main([%r,'--tier',%r,'--no-evidence']))" % (wt, pid, tier))
                t0 = time.time()
                rc, out = sh('/venv/bin/python -c "%s"' % code, cwd=ROOT, env=env2, timeout=7200)
                sigs = sorted(set(re.findall(r'^  sig: (.*)$', out, re.M)))
                det['%s/%s' % (pid, tier)] = {'rc': rc, 'violations': len(re.findall(r'^VIOLATION', out, re.M)), 'sigs': sigs[:6],
                                              'wall_s': round(time.time() - t0), 'tail': out.strip().split('\n')[-1][:200] if rc not in (0, 1) else ''}
                if rc == 1:
                    break
        res['detection'] = det
        res['detected'] = any(v['rc'] == 1 for v in det.values())
    finally:
        sh('git checkout -q -- . && git clean -fdq', cwd=wt)
        sh('rm -rf %s/replays' % ROOT)
    print(json.dumps(res, indent=1))
    return 0


if __name__ == '__main__':
    sys.exit(main())
