chk('C09', 'model_checking',
    'Explicit-state BFS of the product (live py4hw block x reference state machine) with every input vector on every step, to closure of the reachable graph, for every block/parameter configuration in the stated bounds; histories of any length are covered at those configurations. A bystander system is clocked in lockstep before every clock call of the system under test; when a fresh replay disagrees with the snapshot/restore walk, further fresh systems decide whether the behaviour is history dependent (a violation).',
    'Reference machines (mc/refmodels/seq.py) are trusted; widths/depths/moduli above the bound are not covered; snapshot/restore is validated by replaying every BFS-tree path on a fresh system.',
    'explicit-state model checking of the implementation against a reference machine (product BFS, all inputs per step)',
    'DESIGN.md 4/C09')
chk('C04', 'model_checking',
    'Exhaustive enumeration of every small netlist (all digraphs on <=3 blocks incl. self-loops/back edges, DAG(+1 edge) families at 4-5 blocks) x every comb/seq assignment x every instantiation order x flat/hierarchical/late-addition placement; for each accepted netlist BFS over its register states with all input vectors, checking a plain-Python evaluator, the topological validity of Simulator.propagatables and a re-propagation fixpoint in every state; every netlist with a combinational cycle must be refused.',
    'Harness-defined XNOR blocks stand for arbitrary combinational/sequential leaves; netlists above the node bound are not covered; the reference evaluator in c04.py is trusted.',
    'bounded exhaustive program+schedule enumeration with explicit-state search per netlist',
    'DESIGN.md 4/C04')
chk('C05', 'model_checking',
    'Explicit-state BFS over each multi-register design (chains, rings, swaps, register/memory loops, FSM+register, all digraphs of three harness sequential blocks, library compositions) with all input vectors; on every transition the edge is re-executed from the restored pre-state under every permutation of the simulator\'s clockable list and compared snapshot-for-snapshot; Wire.prepared checked empty; clk(n) compared with every splitting (n<=4); cross-system interleavings.',
    'Designs and widths above the bound are not covered; for designs with more than 5 sequential leaves only a stated subset of permutations is used and the evidence marks the shard capped.',
    'explicit-state search with exhaustive schedule (visit-order permutation) enumeration per transition',
    'DESIGN.md 4/C05')
chk('C07', 'exploration',
    'Complete truth tables: every arithmetic block x every constructor option x every combination of port widths up to the bound (each port width varied independently) x all input vectors, compared with Python integer arithmetic reduced modulo 2**(output width); zero divisors and rotation amounts above the data width are skipped and counted. Every vector is applied twice on the live instance (ascending pass, then descending pass); an elaborated-only twin of the configuration and a bystander system with its own simulator are alive in the same process; life-cycle variants obtain the simulator on the empty system first.',
    'Reference functions in mc/refmodels/arith.py are trusted; widths above the bound (quick 3, thorough 6-8 bits) are not covered.',
    'bounded exhaustive input/configuration enumeration against an integer reference',
    'DESIGN.md 4/C07')
chk('C08', 'exploration',
    'Complete truth tables: every gate / bit-manipulation / selector / comparator block x every arity, width, constant, minterm subset and priority direction in the bound x all input vectors, compared with reference truth tables written from the docstrings; outputs are compared only where the documentation defines them (one-hot preconditions etc.), skipped vectors counted. Every vector is applied twice on the live instance (ascending, then descending); an elaborated-only twin and a bystander system are alive in the same process; a constructor refusing a configuration of the documented grid is a violation.',
    'Reference tables in mc/refmodels/logic.py are trusted; arities/widths above the bound are not covered; behaviour outside documented preconditions is not judged.',
    'bounded exhaustive input/configuration enumeration against reference truth tables',
    'DESIGN.md 4/C08')
chk('C10', 'model_checking',
    'Explicit-state BFS of gated designs (driver on the block, its parent, its grandparent, nested drivers; enable from an input, from a register inside the gated domain, from another domain; 1-3 domains) with all (enable,data) vectors; every transition is compared on all wires and leaf attributes with the statement-derived expectation (hold if the enable was 0 going into the edge, else the step of an identically built ungated twin), under every permutation of the driver visit order; getObjectClockDriver checked against nearest-ancestor.',
    'The ungated twin defines the ungated step (block step functions themselves are checked in C09); block set, widths and hierarchy depth are bounded.',
    'explicit-state model checking against a twin-derived reference with schedule (driver order) enumeration',
    'DESIGN.md 4/C10')
chk('C11', 'model_checking',
    'BFS over all construction-operation sequences up to the depth bound (wire/Buf/Constant/child/wrapper creation, rename, reparent, reparentAndRename) deduplicated on a reference netlist state; every transition is replayed on fresh real py4hw objects and must raise exactly when the statement requires, leaving the earlier driver/child/wire in place, with the resulting structure equal to the model; plus checkIntegrity acceptance over a 102-block catalogue and every single-fault variant (each input undriven, each driver removed, each duplicated driver). A names part runs every history of <= D calls over all wire-creating APIs (Logic.wire, Wire, wires, bidir_wire, Interface signals) and structural classes sharing the short name of a library primitive; wire objects never claim the same (parent, name).',
    'Reference netlist model (mc/refmodels/netlist.py) trusted; sequences bounded by depth and live wires; catalogue at widths 2-3.',
    'explicit-state search over operation sequences with replay on the implementation; exhaustive single-fault enumeration',
    'DESIGN.md 4/C11')
chk('C12', 'exploration',
    'Exhaustive enumeration of all 2^16 half-precision patterns, of all two\'s-complement widths 1..10 x all values, of every FixedPoint format up to 7 bits x all raw operand pairs; for single/double precision and FPNum arithmetic exhaustive enumeration of stated alphabets (every exponent field x both signs x boundary mantissas; all ordered pairs of a 300/600-value mini-float alphabet), each compared with struct / fractions.Fraction / integer arithmetic.',
    'struct (platform IEEE-754) and Fraction are the oracle; the 2^32/2^64 spaces are covered by alphabets only (evidence says exhaustive=false); NaN payloads excepted as the statement says.',
    'bounded exhaustive input enumeration against struct/Fraction references',
    'DESIGN.md 4/C12')
chk('C14', 'exploration',
    'Every signed fixed-point format up to 6 bits (plus the 8-bit (1,3,4)) x every operand/result format combination the constructors accept x all operand encoding pairs for FixedPointAdd/Sub/Mult/Sign/Comparator, compared with Fraction arithmetic; comparator only where the difference is representable; FixedPoint helper cross-checked on the same pairs.',
    'Fraction reference trusted; formats above the bound not covered; "rescaled by truncation" accepted as floor or toward-zero consistently per configuration.',
    'bounded exhaustive input/configuration enumeration against exact rational arithmetic',
    'DESIGN.md 4/C14')
chk('C15', 'exploration',
    'All value sequences up to length L on a 1-bit and a wide watched wire (poked and register-driven), all clk(n) splittings, clear()/clk(0) at every position, 19 watch-list shapes (duplicates, port aliases, mixed order); the recorder\'s samples and an independent decoder of the WaveDrom rendering are compared with the harness\'s own per-cycle log at every node of the history tree; sampled nodes are replayed on fresh systems. A rerender family (render, optionally clear or a refused duplicate recorder, as many cycles again without observing, render) checks that observing does not influence later observations and that diagrams handed out are not changed afterwards.',
    'Bounded history length (recorder state grows without bound, so no closure); WaveJSON decoder in mc/refmodels/wave.py trusted.',
    'bounded exhaustive history enumeration (prefix tree with snapshot/restore) against a reference log and decoder',
    'DESIGN.md 4/C15')
chk('C01', 'model_checking',
    'For every catalogue design (all library blocks over the C07/C08/C09/C14 parameter grids, constants, latches, memories, hand-written-body and transpiled leaves, twin instances sharing a module name, block chains, fan-out) x placement (top, inside one or two structural wrappers): py4hw\'s Verilog is elaborated by the /verif Verilog engine and the product machine (py4hw simulator state x Verilog simulator state) is explored breadth-first from power-up with every input vector per step; all top-level outputs compared at power-up and after every cycle; closure of the product graph per design.',
    'The Verilog engine (mc/vlog: IEEE 1364-2005 sizing/signedness, two-state, 0 power-up for uninitialised regs) is trusted base with its own self-tests; designs above 8 input bits use a corner alphabet (evidence says so); division/modulo by zero pruned; BidirBuf designs are outside the subset; designs with a second clock domain gated from the system clock (GatedClock) are included.',
    'explicit-state model checking of the product of two implementations (simulator x interpreter of the emitted RTL)',
    'DESIGN.md 3, 4/C01')
chk('C03', 'exploration',
    'Every Verilog text generated for the C01 catalogue and placements, for pairs of blocks emitted under the same module name, and for an exhaustive naming grid (port/wire/instance/top-level names incl. reserved words and names that collide after prefixing) is parsed and elaborated by the /verif front end applying rules R1-R7; R8 (same module name => same port list) is evaluated across the whole run. A hist family lints the hierarchy text after every short history of requests, simulation steps and one structural edit on the circuits of C19 (reused and fresh generator).',
    'Front end in mc/vlog is the judge of legality (Verilog-2005); generation that raises is counted as refusal; naming grid bounded to the stated name list and wrapper shape.',
    'bounded exhaustive program/configuration enumeration with a parser+elaborator as oracle',
    'DESIGN.md 3, 4/C03')
chk('C13', 'exploration',
    'Exhaustive enumeration of stated operand alphabets (every normal exponent pair x sign pairs x boundary mantissa patterns, close-magnitude opposite-sign pairs, integer boundary families, every exponent for float-to-int) through FPAdder_SP, FPMult_SP, FPComparator_SP (plain/absolute), InttoFP_SP, FPtoInt_SP, each compared with exact rational arithmetic under exactly the error bounds and domain of the statement.',
    'Alphabets, not the 2^64 operand space (evidence exhaustive=false): a defect needing a mantissa pattern outside the alphabet is not seen; Fraction/struct oracle trusted.',
    'bounded exhaustive enumeration of operand alphabets against exact rational arithmetic',
    'DESIGN.md 4/C13')
chk('C19', 'model_checking',
    'Every operation history up to depth H over eleven operations (hierarchy / single-module / child generation on fresh and reused generators and from different roots, hierarchy requests sharing one caller-owned createdStructures list, generation for a second circuit, inlinePrimitive, simulation steps, a structural edit) is executed on freshly built circuits of five kinds (shared named modules, counter, transpiled FSM, own clock domain, three transpiled classes with a forwarded Verilog parameter), every shard in a freshly forked process; every returned text is compared after normalisation with the canonical answer of that request on a pristine build, the wire trace with a twin circuit that was only simulated, and the circuit snapshot across each generation call.',
    'Normalisation (id renumbering, sorting of wire-declaration runs) is the only tolerance; five circuit kinds; depth bound H (4 quick, 5 thorough).',
    'bounded exhaustive history enumeration on the implementation with a differential (canonical / twin) oracle',
    'DESIGN.md 4/C19')
chk('C02', 'model_checking',
    'Programs = every behavioural library block the generator transpiles plus a generated family of behavioural classes covering the statement\'s subset (each operator in each template position, if/elif/else nests, match/case incl. guards and or-patterns, ternaries, and/or/not, locals, integer state, constructor argument, parameter; clock and propagate variants). For each: refusal is accepted; returned text must parse/elaborate; the product (py4hw state x Verilog-interpreter state) is explored breadth-first with all input vectors per step, comparing outputs and same-named state variables after every cycle; out-of-domain transitions pruned by an interpreter of the Python body. A decoy class whose port names are the programs\' variable names is transpiled first in every shard; must-refuse probes, wide-port constants, docstrings and text requested after simulation are covered.',
    'Verilog engine trusted as in C01; program family bounded by the grammar depth (1 quick, 2 thorough) and 1-4 width combinations; graphs whose state variable grows without bound are cut at depth 64 / the state cap and reported as capped.',
    'bounded exhaustive program enumeration + explicit-state product model checking (translation validation by exploration)',
    'DESIGN.md 3, 4/C02')
chk('C16', 'model_checking',
    'Explicit-state BFS of the product (live Axi2Reg / Reg2Axi / composed pair with VitisKernelFSM x reference protocol monitor written from the statement) with every control/handshake/data input vector per step under the statement\'s environment assumption (done only after a completed transfer, enforced as an enabling condition), to closure; every clause of the statement is an invariant of the monitor; schedule classes named in the quantifier must all be exercised (vacuity guard).',
    'Monitors in mc/refmodels/proto_axi.py trusted; cycle alignment taken from the docstrings, freedoms the statement leaves open are listed in the check\'s ASSUMPTIONS; small data alphabets (data is only moved).',
    'explicit-state model checking of the implementation against a reference protocol monitor (product BFS, all inputs per step)',
    'DESIGN.md 4/C16')
chk('C06', 'exploration',
    'Invariant 0 <= value < 2**width (type int) on every wire of the hierarchy, evaluated after simulator creation, after every clk, inside a simulator listener and on Waveform samples, over the whole design catalogue with all input vectors and over an exhaustive grid of out-of-range constants, stimulus, reset values, memory data and direct put/prepare values in [-2**w-1, 2**w+1].',
    'Widths above the bound not covered; the same width monitor also runs inside the explorers of the state-graph checks.',
    'bounded exhaustive input/configuration enumeration with an invariant monitor on every wire',
    'DESIGN.md 4/C06')
chk('C17', 'model_checking',
    'Closed loop UARTSerializer -> line -> ClockGenerationAndRecovery + UARTDeserializer explored breadth-first per divider ratio and byte alphabet together with environment automata (producer that raises valid at any cycle and holds it, consumer with a bounded stall budget, independent soft 8N1 receiver on the tx wire) and a FIFO scoreboard; every handshake timing is enumerated to closure; exactly-once / in-order / unchanged delivery, 8N1 framing and bounded liveness are checked on every transition. Directed closed-loop runs cover 100 to 2000 clocks per bit and a data bus wider than 8 bits; another UART link stopped in the middle of a frame stays alive in the process.',
    'Monitors in mc/refmodels/proto_uart.py trusted; ratios n in {2..6,8} (4..16 clocks per bit), alphabets of 6/16 bytes closed under sequences plus all 256 values pairwise with their complement; consumer stall bounded by 1 (quick) / 8 (thorough) bit periods; <= 2 outstanding bytes. One known finding (F-C17-1) is listed in known_findings.json.',
    'explicit-state model checking of the closed-loop implementation with environment and monitor automata',
    'DESIGN.md 4/C17')
chk('C18', 'exploration',
    'Schematic(obj, placeAndRoute=True) is run headless on every structural node of the design catalogue and on every small netlist in stated exhaustive sub-spaces (wrapper with <= 2 in / <= 2 out ports and up to 2-4 child instances from {Not, And2, Reg, Mux2, a two-output block}, every wiring in which all wires are driven, both creation orders); the oracle checks termination, one symbol per child/port present once in the symbol matrix, no overlaps, and per wire a connected net figure touching the real driver pin, every real reader pin and no foreign pin, with the real netlist read from the py4hw ports.',
    'Connectivity oracle in mc/refmodels/schem.py trusted; set-iteration orders inside schematic.py are pinned to two orders; routed polylines (pixels) are not inspected; n >= 3 only on the stated sub-spaces.',
    'bounded exhaustive netlist enumeration with a structural connectivity oracle',
    'DESIGN.md 4/C18')
chk('C20', 'model_checking',
    'CMDRequest: explicit-state BFS of the decoder with an environment that, every cycle, either idles or offers any character the command grammar allows next and holds it until taken (all streams and all idle gaps at once, identical product states merged), and a pulse monitor that attributes every rising edge of the five action strobes to the command just completed and checks the numbers on the data wires; CMDResponse: BFS with a free consumer ready every cycle over a grid of values and sizes and two consecutive responses, the transferred characters must spell "=" + upper-case hex + "!"; thorough adds the closed loop through the UART blocks.',
    'Reference codecs in mc/refmodels/proto_hil.py trusted; command alphabets, digit counts and stream lengths bounded as listed in the check\'s BOUNDS; upper-case hex only (the docstring does not define lower case).',
    'explicit-state model checking of the implementation against a reference codec/monitor with all handshake timings',
    'DESIGN.md 4/C20')
