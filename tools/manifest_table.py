chk('C09', 'model_checking',
    'Explicit-state BFS of the product (live py4hw block x reference state machine) with every input vector on every step, to closure of the reachable graph, for every block/parameter configuration in the stated bounds; histories of any length are covered at those configurations.',
    'Reference machines (mc/refmodels/seq.py) are trusted; widths/depths/moduli above the bound are not covered; snapshot/restore is validated by replaying every BFS-tree path on a fresh system.',
    'explicit-state model checking of the implementation against a reference machine (product BFS, all inputs per step)',
    'DESIGN.md 4/C09')
